"""Op-level correspondence: every torch primitive the Lean models are assembled from, compared one by one with the
real torch kernel (`fn op.<name> …` requests of lean/TE/Driver/Ops.lean, which call the model definitions themselves).

The end-to-end streams compare a whole metric with a whole model; here the unit is the primitive, so that a torch upgrade
or a wrong primitive model (first-index `argmax`, `searchsorted(right=True)`, the `histc` edge rule, row-major `x[mask]` +
`masked_scatter_`, `topk`/`sort` on ties, `F.pad`, slicing, division by zero …) is reported AT the primitive:

    correspondence:op:<name>   <torch expression> (<torcheval file>:<function>) on <input>: torch … model …

* the torch side is the SAME call the torcheval source makes (quoted in `src` of every op);
* inputs concentrate on the semantic edge: ties everywhere, values exactly on thresholds / bin edges, empty tensors, single
  elements, all-true / all-false masks, rows selecting nothing, zero extents, zero / negative operands of divisions;
* unspecified behaviour (tie order of `sort(descending=True)`, `topk`, `argsort`) is compared as a RELATION: values exactly,
  carried data only up to a permutation inside a tie group, a tie group cut by `k` only as "some members of the group";
* values are exact: grid inputs (multiples of 1/8) keep float32 sums and products exact; only a final IEEE division is
  compared with one ulp of the input dtype;
* float32 and float64 inputs both; deterministic from `rep.seed`; one driver call per family.

`check_ops(rep, families)` is called from the `run(rep)` of the property whose models use the family.
A disagreement is a `rep.broke("correspondence:op:<name>", …)` (model ≠ torch; not by itself a property violation).
"""
from __future__ import annotations
import math, time
from fractions import Fraction as Fr
import torch
import torch.nn.functional as F
from .common import Report, Rng, dec_out, enc_args, err_kind, run_driver

FD = (torch.float32, torch.float64)
ULP = {torch.float32: 2.0 ** -23, torch.float64: 2.0 ** -52}
G8 = [Fr(i, 8) for i in range(0, 9)]             # scores / thresholds in [0, 1]
GS = [Fr(i, 4) for i in range(-4, 9)]            # signed values in [-1, 2]
SIZES = [0, 1, 1, 2, 3, 4, 5, 8]

REG: dict[str, list] = {}


def op(fam, name, expr, src):
    """register a case generator: `gen(rng, reps)` yields `(kw, thunk[, cmp])`."""
    def deco(gen):
        REG.setdefault(fam, []).append((name, expr, src, gen))
        return gen
    return deco

# ----------------------------------------------------------------------------- input helpers


def ft(vals, dt, shape=None):
    t = torch.tensor([float(v) for v in vals], dtype=dt)
    return t.reshape(shape) if shape is not None else t


def it(vals, shape=None):
    t = torch.tensor([int(v) for v in vals], dtype=torch.int64)
    return t.reshape(shape) if shape is not None else t


def bt(vals, shape=None):
    t = torch.tensor([bool(v) for v in vals], dtype=torch.bool)
    return t.reshape(shape) if shape is not None else t


def tie_vals(rng: Rng, n: int, grid=G8):
    """n grid values with many ties: all equal / two levels / three levels / free / all distinct."""
    mode = rng.choice(["equal", "two", "two", "three", "free", "distinct"])
    if mode == "distinct" and n <= len(grid):
        return rng.sample(grid, n)
    k = {"equal": 1, "two": 2, "three": 3}.get(mode, len(grid))
    levels = rng.sample(grid, min(k, len(grid)))
    return [rng.choice(levels) for _ in range(n)]


def sorted_thr(rng: Rng, n: int):
    """a non-decreasing threshold tensor with repeated entries allowed (the parameter check only rejects decreases)."""
    return sorted(rng.choice(G8) for _ in range(n))


def mask_vals(rng: Rng, n: int):
    mode = rng.choice(["all", "none", "free", "free", "last"])
    if mode == "all":
        return [1] * n
    if mode == "none":
        return [0] * n
    if mode == "last":
        return [0] * (n - 1) + [1] * min(n, 1)
    return [rng.choice([0, 1]) for _ in range(n)]

# ----------------------------------------------------------------------------- comparison


def flat(r):
    if isinstance(r, torch.Tensor):
        return [r]
    if isinstance(r, (bool, int, float)):
        return [torch.tensor(float(r), dtype=torch.float64)]
    out = []
    for x in r:
        out.extend(flat(x))
    return out


def same(a: float, b, rel=0.0) -> bool:
    bf = float(b)
    if math.isnan(a) or math.isnan(bf):
        return math.isnan(a) and math.isnan(bf)
    return a == bf or (rel > 0 and not math.isinf(a) and not math.isinf(bf) and abs(a - bf) <= rel * abs(bf))


def cmp_exact(real, model, rel=0.0):
    if len(real) != len(model):
        return f"torch returned {len(real)} tensors, model {len(model)}"
    for j, (r, (shape, data)) in enumerate(zip(real, model)):
        if tuple(r.shape) != tuple(shape):
            return f"output {j}: shape {tuple(r.shape)} vs model {tuple(shape)}"
        rv = r.reshape(-1).to(torch.float64).tolist()
        for i, (a, b) in enumerate(zip(rv, data)):
            if not same(a, b, rel):
                return f"output {j}[{i}]: torch {a} vs model {b}"
    return None


def ratio(dt):
    """the op ends in ONE correctly rounded IEEE division: one ulp of the input dtype."""
    return lambda real, model: cmp_exact(real, model, ULP[dt])


def groups(keys, carried):
    """multiset of carried tuples per key value."""
    g: dict = {}
    for k, c in zip(keys, carried):
        g.setdefault(k, []).append(c)
    return {k: sorted(v) for k, v in g.items()}


def sub_multiset(small, big) -> bool:
    big = list(big)
    for x in small:
        if x not in big:
            return False
        big.remove(x)
    return True

# ============================================================================= count
# torcheval/metrics/functional/classification/{accuracy,precision,recall,f1_score,confusion_matrix}.py

SRC_ACC = "functional/classification/accuracy.py"


@op("count", "thresh", "torch.where(input < threshold, 0, 1)", SRC_ACC + ":_binary_accuracy_update")
def _g(rng, reps):
    for dt in FD:
        for _ in range(reps):
            n = rng.choice(SIZES)
            thr = rng.choice(G8)
            xs = [rng.choice([thr, thr, thr - Fr(1, 8), thr + Fr(1, 8)] + G8) for _ in range(n)]   # exactly at the threshold
            x = ft(xs, dt)
            yield {"input": x, "threshold": thr}, (lambda x=x, thr=thr: torch.where(x < float(thr), 0, 1))


@op("count", "thresh_and", "torch.where(input < threshold, 0, 1) & target", "functional/classification/recall.py:_binary_recall_update")
def _g(rng, reps):
    for dt in FD:
        for _ in range(reps):
            n = rng.choice(SIZES)
            thr = rng.choice(G8)
            x = ft([rng.choice([thr] + G8) for _ in range(n)], dt)
            y = it([rng.choice([0, 1, 1, 2, 3]) for _ in range(n)])          # bitwise and: 1 & 2 = 0, 1 & 3 = 1
            yield {"input": x, "target": y, "threshold": thr}, (lambda x=x, y=y, thr=thr: torch.where(x < float(thr), 0, 1) & y)


@op("count", "argmax_first", "torch.argmax(input, dim=1)", SRC_ACC + ":_multiclass_accuracy_update")
def _g(rng, reps):
    # C >= 1 is the reachable domain: `torch.argmax` over a zero-sized dim raises `IndexError: argmax(): Expected reduction dim 1
    # to have non-zero size` (for every n, also n = 0) whereas `Count.argmaxFirst [] = 0` — this stream found that
    # `multiclass_accuracy/precision/recall/f1_score(input of shape (n, 0), num_classes=None)` pass the input check and raise in
    # the real code while the model answered 1.0 / nan.  The callers' adapter now rejects a 2-D input without columns BEFORE the
    # primitive is consulted (TE/Driver/Count.lean `argmaxGuard`), so `argmaxFirst []` is never evaluated; the end-to-end
    # behaviour on (n, 0) inputs is pinned by `argmax_zero_columns` below.
    for dt in FD:
        for _ in range(reps):
            n, c = rng.choice([0, 1, 2, 3, 4]), rng.choice([1, 2, 3, 4, 5])
            x = ft([v for _ in range(n) for v in tie_vals(rng, c, GS)], dt, (n, c))
            yield {"input": x}, (lambda x=x: torch.argmax(x, dim=1))


@op("count", "argmax_zero_columns", "torch.argmax(input, dim=1) on an (n, 0) input, end to end", SRC_ACC + ":_multiclass_accuracy_update; precision.py / recall.py / f1_score.py:_*_update")
def _g(rng, reps):
    # pinned regression (whole functional, not an `op.` request): the real call raises inside `torch.argmax`
    # (IndexError; RuntimeError where the update is TorchScript) and the model's adapter must raise the same kind.
    import torcheval.metrics.functional as TF
    for fn in ("multiclass_accuracy", "multiclass_precision", "multiclass_recall", "multiclass_f1_score"):
        for dt in FD:
            for n in (0, 2):
                for extra in ({"average": "micro"}, {"average": "micro", "num_classes": 0}):
                    x, y = torch.zeros((n, 0), dtype=dt), it([0] * n)
                    yield ({"__fn": fn, "input": x, "target": y, **extra},
                           (lambda fn=fn, x=x, y=y, extra=extra: getattr(TF, fn)(x, y, **extra)))


def _index_case(rng, n, m):
    """m indices into [0, n): usually in range with repeats, sometimes one of them is -1 / n / n+1."""
    idx = [rng.randrange(n) for _ in range(m)] if n > 0 else []
    if m > 0 and (n == 0 or rng.random() < 0.25):
        idx = idx + [0] * (m - len(idx))
        idx[rng.randrange(m)] = rng.choice([-1, n, n + 1, -n - 1])
    return idx


@op("count", "scatter_add", 'mask.new_zeros(num_classes).scatter_(0, target, mask, reduce="add")', SRC_ACC + ":_multiclass_accuracy_update")
def _g(rng, reps):
    for dt in FD:
        for _ in range(reps):
            n, m = rng.choice([0, 1, 2, 3, 4]), rng.choice(SIZES)
            idx = it(_index_case(rng, n, m))
            src = ft([rng.choice([0, 1, 1, Fr(1, 2)]) for _ in range(m)], dt)
            yield ({"n": n, "index": idx, "src": src},
                   (lambda n=n, idx=idx, src=src: src.new_zeros(n).scatter_(0, idx, src, reduce="add")))


@op("count", "scatter_ones", 'target.new_zeros(num_classes).scatter_(0, target, 1, reduce="add")', SRC_ACC + ":_multiclass_accuracy_update")
def _g(rng, reps):
    for _ in range(2 * reps):
        n, m = rng.choice([0, 1, 2, 3, 4]), rng.choice(SIZES)
        idx = it(_index_case(rng, n, m))
        yield {"n": n, "index": idx}, (lambda n=n, idx=idx: idx.new_zeros(n).scatter_(0, idx, 1, reduce="add"))


def _rows_labels(rng, dt):
    n, c = rng.choice([0, 1, 2, 3, 4]), rng.choice([1, 2, 3, 4, 5])
    x = ft([v for _ in range(n) for v in tie_vals(rng, c, GS)], dt, (n, c))
    return x, it([rng.randrange(c) for _ in range(n)]), c


@op("count", "rank_of", "torch.gt(input, torch.gather(input, -1, target.unsqueeze(-1))).sum(-1)", SRC_ACC + ":_multiclass_accuracy_update (k > 1)")
def _g(rng, reps):
    # labels inside [0, C): the gather raises otherwise (before any rank is formed)
    for dt in FD:
        for _ in range(reps):
            x, t, _c = _rows_labels(rng, dt)
            yield ({"input": x, "target": t},
                   (lambda x=x, t=t: torch.gt(x, torch.gather(x, dim=-1, index=t.unsqueeze(dim=-1))).sum(dim=-1)))


@op("count", "topk_mask", "(torch.gt(input, y_score).sum(-1) < k).float()", SRC_ACC + ":_multiclass_accuracy_update (k > 1)")
def _g(rng, reps):
    for dt in FD:
        for _ in range(reps):
            x, t, c = _rows_labels(rng, dt)
            k = rng.randint(1, c + 1)
            yield ({"input": x, "target": t, "k": k},
                   (lambda x=x, t=t, k=k: (torch.gt(x, torch.gather(x, dim=-1, index=t.unsqueeze(dim=-1))).sum(dim=-1) < k).float()))


@op("count", "topk_indicator", "torch.zeros(input.size()).scatter_(-1, input.topk(k=k, dim=-1).indices, 1.0)", SRC_ACC + ":_topk_multilabel_accuracy_update")
def _g(rng, reps):
    # k <= C (`topk` raises for k > C).  torch.topk's choice inside a tie group cut by k is unspecified: the model marks the
    # WHOLE group (documented in TE/Model/Count.lean); relation = torch marks exactly k positions, all of them marked by the
    # model, and every model-marked position torch left out ties with the smallest value torch took.
    def cmp_for(rows, k):
        def cmp(real, model):
            (shape, data) = model[0]
            r = real[0]
            if tuple(r.shape) != tuple(shape):
                return f"shape {tuple(r.shape)} vs model {tuple(shape)}"
            c = shape[1] if len(shape) == 2 else 0
            tv = r.reshape(-1).tolist()
            for i, row in enumerate(rows):
                T = [j for j in range(c) if tv[i * c + j] == 1.0]
                M = [j for j in range(c) if data[i * c + j] == 1]
                if len(T) != min(k, c):
                    return f"row {i}: torch marks {len(T)} positions for k={k}"
                if not set(T) <= set(M):
                    return f"row {i}: torch marks {T}, model {M} (torch position outside the model's)"
                if T:
                    kth = min(row[j] for j in T)
                    if any(row[j] != kth for j in set(M) - set(T)):
                        return f"row {i}: torch marks {T}, model {M}: the extra model positions do not tie with the k-th value"
                elif M:
                    return f"row {i}: torch marks nothing, model {M}"
            return None
        return cmp
    for dt in FD:
        for _ in range(reps):
            n, c = rng.choice([0, 1, 2, 3, 4]), rng.choice([0, 1, 2, 3, 4, 5])
            rows = [tie_vals(rng, c, GS) for _ in range(n)]
            k = rng.randint(0, c)
            x = ft([v for r in rows for v in r], dt, (n, c))
            yield ({"input": x, "k": k},
                   (lambda x=x, k=k: torch.zeros(x.size()).scatter_(-1, x.topk(k=k, dim=-1).indices, 1.0)), cmp_for(rows, k))


@op("count", "div_nan0", "torch.nan_to_num(num_tp / (num_tp + num_fp))", "functional/classification/precision.py:_precision_compute")
def _g(rng, reps):
    # reachable domain: counts with 0 <= a <= b (tp <= tp + fp, tp <= num_label); `x/0` with x != 0 (→ ±float max) cannot
    # be produced by the callers and is outside the model (`divNan0 a 0 = 0`).
    for dt in FD:
        for _ in range(reps):
            n = rng.choice(SIZES)
            b = [rng.choice([0, 0, 1, 2, 3, 5, 7]) for _ in range(n)]
            a = [rng.randint(0, v) for v in b]
            ta, tb = ft(a, dt), ft(b, dt)
            yield {"a": ta, "b": tb}, (lambda ta=ta, tb=tb: torch.nan_to_num(ta / tb)), ratio(dt)


@op("count", "xdiv", "num_correct / num_total", SRC_ACC + ":_accuracy_compute")
def _g(rng, reps):
    for dt in FD:
        for _ in range(reps):
            n = rng.choice(SIZES)
            a = ft([rng.choice([-3, -1, 0, 0, 1, 2, Fr(1, 2), 7]) for _ in range(n)], dt)
            b = ft([rng.choice([0, 0, 0, 1, 3, -2, Fr(1, 4)]) for _ in range(n)], dt)      # 0/0 -> nan, ±a/0 -> ±inf
            yield {"a": a, "b": b}, (lambda a=a, b=b: a / b), ratio(dt)


@op("count", "mean_x", "tensor.mean()", SRC_ACC + ":_accuracy_compute (macro)")
def _g(rng, reps):
    for dt in FD:
        for _ in range(reps):
            x = ft(tie_vals(rng, rng.choice([0, 0, 1, 2, 3, 4, 8]), G8), dt)              # empty -> nan
            yield {"input": x}, (lambda x=x: x.mean()), ratio(dt)


@op("count", "l1normalize", "torch.nn.functional.normalize(cm.to(torch.float), p=1, dim=1)", "functional/classification/confusion_matrix.py:_confusion_matrix_compute")
def _g(rng, reps):
    for dt in FD:
        for _ in range(reps):
            n, c = rng.choice([0, 1, 2, 3]), rng.choice([0, 1, 2, 3, 4])
            rows = [[0] * c if rng.random() < 0.3 else [rng.choice([0, 0, 1, 2, 5]) for _ in range(c)] for _ in range(n)]
            x = ft([v for r in rows for v in r], dt, (n, c))
            yield {"input": x}, (lambda x=x: F.normalize(x, p=1, dim=1)), ratio(dt)


@op("count", "transpose", "input.T", "functional/classification/auroc.py:_multiclass_auroc_compute (input.T), confusion_matrix.py (dim=0 normalisation)")
def _g(rng, reps):
    for dt in FD:
        for _ in range(max(4, reps // 4)):
            n, c = rng.choice([0, 1, 2, 3]), rng.choice([0, 1, 2, 3])
            x = ft(rng.grid(n * c, GS), dt, (n, c))
            yield {"input": x}, (lambda x=x: x.T)


@op("count", "coo_dense", "torch.sparse_coo_tensor(torch.vstack((target, input)), torch.ones_like(target), (C, C)).to_dense()", "functional/classification/confusion_matrix.py:_update")
def _g(rng, reps):
    # in range only: this kernel does not check its indices (C14: `unchecked`), the callers' value checks keep them in [0, C)
    for _ in range(2 * reps):
        c, n = rng.choice([1, 2, 3, 4]), rng.choice(SIZES)
        p = it([rng.randrange(c) for _ in range(n)])
        t = it([rng.randrange(c) for _ in range(n)])
        yield ({"n": c, "input": p, "target": t},
               (lambda c=c, p=p, t=t: torch.sparse_coo_tensor(torch.vstack((t, p)), torch.ones_like(t), torch.Size([c, c])).to_dense()))

# ============================================================================= curve
# torcheval/metrics/functional/classification/{auroc,auprc,precision_recall_curve,recall_at_fixed_precision}.py, tensor_utils.py

SRC_AUROC = "functional/classification/auroc.py:_binary_auroc_compute_jit"
SRC_PRC = "functional/classification/precision_recall_curve.py:_compute_for_each_class"


@op("curve", "sort_desc", "threshold, indices = input.sort(descending=True); torch.gather(target, -1, indices); torch.gather(weight, -1, indices)", SRC_AUROC)
def _g(rng, reps):
    # values exactly; the carried data only up to a permutation inside every tie group (sort is not stable)
    def cmp(real, model):
        msg = cmp_exact(real[:1], model[:1])
        if msg:
            return msg
        s = model[0][1]
        ra, rb = real[1].tolist(), real[2].tolist()
        if len(model[1][1]) != len(ra) or len(model[2][1]) != len(rb):
            return "carried data of different length"
        gt = groups(s, list(zip(ra, rb)))
        gm = groups(s, [(float(a), float(b)) for a, b in zip(model[1][1], model[2][1])])
        if gt != gm:
            return f"carried data differ beyond tie order: torch {gt} model {gm}"
        return None
    for dt in FD:
        for _ in range(reps):
            n = rng.choice(SIZES)
            s, a, b = ft(tie_vals(rng, n), dt), ft(rng.grid(n, [0, 1, Fr(1, 2)]), dt), ft(rng.grid(n, [0, 1, Fr(1, 4)]), dt)

            def thunk(s=s, a=a, b=b):
                threshold, indices = s.sort(descending=True)
                return threshold, torch.gather(a, -1, indices), torch.gather(b, -1, indices)
            yield {"s": s, "a": a, "b": b}, thunk, cmp


@op("curve", "diff_mask", "F.pad(threshold.diff(dim=-1) != 0, [0, 1], value=1.0)", SRC_AUROC + "; " + SRC_PRC)
def _g(rng, reps):
    # n >= 1.  On an EMPTY tensor torch yields `[True]` (diff of nothing is nothing, then the pad) where the model yields `[]`;
    # the difference is unobservable because the very next statement (`cum[mask]`, a 1-element mask on a 0-element tensor)
    # raises in every caller, exactly where the model raises (`getLast? = none`).  Both halves of that argument are pinned
    # by the `diff_mask_empty` op below.
    for dt in FD:
        for _ in range(reps):
            x = ft(tie_vals(rng, rng.choice([1, 1, 2, 3, 4, 5, 8])), dt)
            yield {"input": x}, (lambda x=x: F.pad(x.diff(dim=-1) != 0, [0, 1], value=1.0))


@op("curve", "diff_mask_empty", "F.pad(empty.diff(dim=-1) != 0, [0, 1], value=1.0) then cum[mask]", SRC_AUROC + "; " + SRC_PRC)
def _g(rng, reps):
    def cmp(real, model):
        if tuple(model[0][0]) != (0,):
            return f"model mask of an empty tensor is no longer empty: {model[0]}"
        return None
    for dt in FD:
        e = torch.zeros(0, dtype=dt)

        def thunk(e=e):
            mask = F.pad(e.diff(dim=-1) != 0, [0, 1], value=1.0)
            if mask.tolist() != [True]:
                raise AssertionError(f"mask of an empty tensor is {mask.tolist()}, expected [True]")
            try:
                e.cumsum(-1)[mask]
            except IndexError:
                return torch.zeros(0)           # the statement that makes the difference unobservable does raise
            raise AssertionError("cum[mask] with a 1-element mask on an empty tensor no longer raises")
        yield {"__op": "diff_mask", "input": e}, thunk, cmp


@op("curve", "cumsum", "x.cumsum(-1)", SRC_AUROC)
def _g(rng, reps):
    for dt in FD:
        for _ in range(reps):
            x = ft(rng.grid(rng.choice(SIZES), GS), dt)
            yield {"input": x}, (lambda x=x: x.cumsum(-1))


@op("curve", "select", "cum_tp_before_pad[mask]", SRC_AUROC)
def _g(rng, reps):
    for dt in FD:
        for _ in range(reps):
            n = rng.choice(SIZES)
            x, m = ft(rng.grid(n, GS), dt), bt(mask_vals(rng, n))
            yield {"input": x, "mask": m}, (lambda x=x, m=m: x[m])


@op("curve", "pad_left", "torch.zeros_like(x).masked_scatter_(mask.sum(-1, keepdim=True) >= torch.arange(n, 0, -1), x[mask])", SRC_AUROC)
def _g(rng, reps):
    # the source is `x[mask]` for a mask of the same length: len(src) = mask.sum() <= n
    for dt in FD:
        for _ in range(reps):
            n = rng.choice(SIZES)
            m = bt(mask_vals(rng, n))
            x = ft(rng.grid(n, GS), dt)
            src = x[m]

            def thunk(n=n, m=m, x=x):
                shifted = m.sum(-1, keepdim=True) >= torch.arange(m.size(-1), 0, -1)
                return torch.zeros_like(x).masked_scatter_(shifted, x[m])
            yield {"n": n, "src": src}, thunk


def _xy(rng, dt, equal_len=True):
    n = rng.choice(SIZES)
    return ft(rng.grid(n, GS), dt), ft(tie_vals(rng, n, GS), dt)


@op("curve", "trapz", "torch.trapz(cum_tp, cum_fp)", SRC_AUROC)
def _g(rng, reps):
    for dt in FD:
        for _ in range(reps):
            y, x = _xy(rng, dt)
            yield {"y": y, "x": x}, (lambda y=y, x=x: torch.trapz(y, x))


@op("curve", "riemann", "-torch.sum((x[1:] - x[:-1]) * y[:-1])", "functional/tensor_utils.py:_riemann_integral")
def _g(rng, reps):
    for dt in FD:
        for _ in range(reps):
            y, x = _xy(rng, dt)
            yield {"x": x, "y": y}, (lambda y=y, x=x: -torch.sum((x[1:] - x[:-1]) * y[:-1]))


@op("curve", "nan_to_1", "torch.nan_to_num(num_tp / num_tp[-1], 1.0)", SRC_PRC)
def _g(rng, reps):
    # reachable domain: 0 <= a <= b (cumulative counts over their total): 0/0 -> nan -> 1, never ±inf
    for dt in FD:
        for _ in range(reps):
            n = rng.choice(SIZES)
            tot = rng.choice([0, 0, 1, 2, 3, 6])
            a, b = ft([rng.randint(0, tot) for _ in range(n)], dt), ft([tot] * n, dt)
            yield {"a": a, "b": b}, (lambda a=a, b=b: torch.nan_to_num(a / b, 1.0)), ratio(dt)


@op("curve", "list_max", "torch.max(recall[precision >= min_precision])", "functional/classification/recall_at_fixed_precision.py:_recall_at_precision")
def _g(rng, reps):
    for dt in FD:
        for _ in range(reps):
            n = rng.choice(SIZES)
            r, p = ft(tie_vals(rng, n), dt), ft(tie_vals(rng, n), dt)
            mp = rng.choice(G8)
            sel = r[p >= float(mp)]                                              # selecting nothing -> torch.max raises
            yield {"input": sel}, (lambda r=r, p=p, mp=mp: torch.max(r[p >= float(mp)]))


@op("curve", "flip", "x.flip(0)", SRC_PRC)
def _g(rng, reps):
    for dt in FD:
        for _ in range(max(4, reps // 4)):
            x = ft(rng.grid(rng.choice(SIZES), GS), dt)
            yield {"input": x}, (lambda x=x: x.flip(0))


@op("curve", "curve_mean_x", "tensor.mean()", "functional/classification/auroc.py:_multiclass_auroc_compute (macro)")
def _g(rng, reps):
    for dt in FD:
        for _ in range(max(4, reps // 2)):
            x = ft(tie_vals(rng, rng.choice([0, 1, 2, 3, 4, 8])), dt)
            yield {"input": x}, (lambda x=x: x.mean()), ratio(dt)

# ============================================================================= binned
# torcheval/metrics/functional/classification/{binned_precision_recall_curve,binned_auroc,binned_auprc}.py

SRC_BPRC = "functional/classification/binned_precision_recall_curve.py"


def _thr_inputs(rng, dt, n=None):
    """thresholds (sorted, repeats allowed, possibly empty) and scores exactly on / just off them, below the first, above the last."""
    T = rng.choice([0, 1, 1, 2, 3, 5])
    thr = sorted_thr(rng, T)
    n = rng.choice(SIZES) if n is None else n
    pool = thr + [v - Fr(1, 8) for v in thr] + [v + Fr(1, 8) for v in thr] + [Fr(-1, 8), Fr(9, 8), Fr(0), Fr(1)]
    return thr, [rng.choice(pool) for _ in range(n)]


@op("binned", "searchsorted_right", "torch.searchsorted(threshold, input, right=True)", SRC_BPRC + ":_update")
def _g(rng, reps):
    for dt in FD:
        for _ in range(reps):
            thr, xs = _thr_inputs(rng, dt)
            t, x = ft(thr, dt), ft(xs, dt)
            yield {"threshold": t, "input": x}, (lambda t=t, x=x: torch.searchsorted(t, x, right=True))


@op("binned", "bucket", "torch.searchsorted(threshold, input, right=True) - 1", SRC_BPRC + ":_update")
def _g(rng, reps):
    for dt in FD:
        for _ in range(reps):
            thr, xs = _thr_inputs(rng, dt)
            t, x = ft(thr, dt), ft(xs, dt)
            yield {"threshold": t, "input": x}, (lambda t=t, x=x: torch.searchsorted(t, x, right=True) - 1)


@op("binned", "histc_unit", "torch.histc(index_target.type(torch.float64), bins=B, min=0, max=B)", SRC_BPRC + ":_update / _multiclass_…_update_memory")
def _g(rng, reps):
    # B >= 1: `histc(bins=0)` raises — that branch is modelled by the callers (`binaryUpdate`, `mcMemory`: RuntimeError)
    # and pinned by `histc_zero_bins` below.  Codes below 0 (score under the first threshold: -2, -1) and above B are
    # dropped, the value B itself (= max) lands in the LAST bin.
    for _ in range(2 * reps):
        B = rng.choice([1, 2, 3, 4, 6, 8])
        n = rng.choice(SIZES + [12])
        v = it([rng.choice([-2, -1, 0, 0, B - 1, B - 1, B, B, B + 1, B + 2] + list(range(B))) for _ in range(n)])
        yield {"bins": B, "input": v}, (lambda B=B, v=v: torch.histc(v.type(torch.float64), bins=B, min=0, max=B))


@op("binned", "histc_zero_bins", "torch.histc(x, bins=0, min=0, max=0)", SRC_BPRC + ":_update (empty threshold tensor)")
def _g(rng, reps):
    # the callers' guard `T = 0 → RuntimeError`: torch must still raise a RuntimeError for zero bins
    def cmp(real, model):
        return None
    for n in (0, 2):
        v = torch.zeros(n, dtype=torch.float64)

        def thunk(v=v):
            try:
                torch.histc(v, bins=0, min=0, max=0)
            except RuntimeError:
                return torch.zeros(0, dtype=torch.float64)
            raise AssertionError("torch.histc(bins=0) no longer raises RuntimeError")
        yield {"__op": "histc_unit", "bins": 0, "input": it([])}, thunk, cmp


@op("binned", "suffix_sums", "positives_idx.flip(dims=(-1,)).cumsum(dim=-1).flip(dims=(-1,))", SRC_BPRC + ":_update")
def _g(rng, reps):
    for dt in FD:
        for _ in range(reps):
            x = ft([rng.choice([0, 0, 1, 2, 3]) for _ in range(rng.choice(SIZES))], dt)
            yield {"input": x}, (lambda x=x: x.flip(dims=(-1,)).cumsum(dim=-1).flip(dims=(-1,)))


@op("binned", "binary_code", "2 * (torch.searchsorted(threshold, input, right=True) - 1) + target", SRC_BPRC + ":_update")
def _g(rng, reps):
    for dt in FD:
        for _ in range(reps):
            thr, xs = _thr_inputs(rng, dt)
            t, x, y = ft(thr, dt), ft(xs, dt), it([rng.choice([0, 1]) for _ in xs])
            yield {"threshold": t, "input": x, "target": y}, (lambda t=t, x=x, y=y: 2 * (torch.searchsorted(t, x, right=True) - 1) + y)


@op("binned", "flat_code_mc", "2 * (C * (searchsorted(threshold, input, right=True) - 1) + arange(C)); largest_index[range(n), target] += 1",
    SRC_BPRC + ":_multiclass_binned_precision_recall_curve_update_memory")
def _g(rng, reps):
    for dt in FD:
        for _ in range(reps):
            n, c = rng.choice([0, 1, 2, 3]), rng.choice([1, 2, 3, 4])
            thr, xs = _thr_inputs(rng, dt, n * c)
            t, x, y = ft(thr, dt), ft(xs, dt, (n, c)), it([rng.randrange(c) for _ in range(n)])

            def thunk(t=t, x=x, y=y, n=n, c=c):
                li = (2 * (c * (torch.searchsorted(t, x, right=True) - 1) + torch.arange(c))).type(torch.float64)
                li[range(n), y] += 1
                return li
            yield {"threshold": t, "input": x, "target": y}, thunk


@op("binned", "flat_code_ml", "2 * (L * (searchsorted(threshold, input, right=True) - 1) + arange(L)) + target",
    SRC_BPRC + ":_multilabel_binned_precision_recall_curve_update_memory")
def _g(rng, reps):
    for dt in FD:
        for _ in range(reps):
            n, c = rng.choice([0, 1, 2, 3]), rng.choice([1, 2, 3, 4])
            thr, xs = _thr_inputs(rng, dt, n * c)
            t, x, y = ft(thr, dt), ft(xs, dt, (n, c)), it([rng.choice([0, 1]) for _ in range(n * c)], (n, c))
            yield ({"threshold": t, "input": x, "target": y},
                   (lambda t=t, x=x, y=y, c=c: 2 * (c * (torch.searchsorted(t, x, right=True) - 1) + torch.arange(c, dtype=torch.int64)) + y))


@op("binned", "mem_mat", "hist.reshape((T, S, 2)).transpose(0, 2).flip(dims=(-1,)).cumsum(dim=-1).flip(dims=(-1,))[r].T",
    SRC_BPRC + ":_multiclass_binned_precision_recall_curve_update_memory")
def _g(rng, reps):
    for _ in range(2 * reps):
        T, S, r = rng.choice([1, 2, 3, 4]), rng.choice([1, 2, 3]), rng.choice([0, 1])
        h = ft([rng.choice([0, 0, 1, 2, 3]) for _ in range(2 * T * S)], torch.float64)
        yield ({"t": T, "s": S, "r": r, "hist": h},
               (lambda T=T, S=S, r=r, h=h: h.reshape((T, S, 2)).transpose(0, 2).flip(dims=(-1,)).cumsum(dim=-1).flip(dims=(-1,))[r].T))


@op("binned", "sorted_b", "not (torch.diff(threshold) < 0.0).any()", SRC_BPRC + ":_binned_precision_recall_curve_param_check")
def _g(rng, reps):
    for dt in FD:
        for _ in range(reps):
            n = rng.choice(SIZES)
            v = sorted_thr(rng, n) if rng.random() < 0.5 else tie_vals(rng, n, G8)
            t = ft(v, dt)
            yield {"threshold": t}, (lambda t=t: torch.tensor([not (torch.diff(t) < 0.0).any()]))


@op("binned", "in_unit_b", "not ((threshold < 0.0).any() or (threshold > 1.0).any())", SRC_BPRC + ":_binned_precision_recall_curve_param_check")
def _g(rng, reps):
    for dt in FD:
        for _ in range(reps):
            t = ft([rng.choice([0, 0, 1, 1, Fr(1, 2), Fr(-1, 8), Fr(9, 8)]) for _ in range(rng.choice(SIZES))], dt)
            yield {"threshold": t}, (lambda t=t: torch.tensor([not bool((t < 0.0).any() or (t > 1.0).any())]))


@op("binned", "one_hot", "F.one_hot(target, num_classes)", SRC_BPRC + ":_multiclass_binned_precision_recall_curve_update_vectorized")
def _g(rng, reps):
    # labels inside [0, C): `one_hot` raises otherwise — the branch `mcVectorized` models as RuntimeError
    for _ in range(reps):
        c, n = rng.choice([1, 2, 3, 4]), rng.choice(SIZES)
        y = it([rng.randrange(c) for _ in range(n)])
        yield {"n": c, "target": y}, (lambda c=c, y=y: F.one_hot(y, c))


@op("binned", "binned_trapz", "torch.trapz(cum_tp, cum_fp)", "functional/classification/binned_auroc.py:_binary_binned_auroc_compute")
def _g(rng, reps):
    for dt in FD:
        for _ in range(max(4, reps // 2)):
            y, x = _xy(rng, dt)
            yield {"y": y, "x": x}, (lambda y=y, x=x: torch.trapz(y, x))


@op("binned", "ge_counts", "pred_label = input >= threshold[:, None]; (pred_label * target).sum(-1); pred_label.sum(-1) - that",
    "functional/classification/binned_auroc.py:_binary_binned_auroc_compute")
def _g(rng, reps):
    for dt in FD:
        for _ in range(reps):
            thr, xs = _thr_inputs(rng, dt)
            t, x, y = ft(thr, dt), ft(xs, dt), ft([rng.choice([0, 1]) for _ in xs], dt)

            def thunk(t=t, x=x, y=y):
                pred = torch.ge(x, t[:, None])
                it_ = (pred * y).sum(dim=-1)
                return it_, pred.sum(dim=-1) - it_
            yield {"threshold": t, "input": x, "target": y}, thunk


@op("binned", "binned_nan_to_1", "torch.nan_to_num(num_tp / (num_tp + num_fp), 1.0)", SRC_BPRC + ":_binary_binned_precision_recall_curve_compute")
def _g(rng, reps):
    # counts: tp, fp >= 0, so only 0/0 (-> 1.0) besides proper ratios
    for dt in FD:
        for _ in range(reps):
            n = rng.choice(SIZES)
            a = ft([rng.choice([0, 0, 1, 2, 5]) for _ in range(n)], dt)
            b = ft([rng.choice([0, 0, 1, 3]) for _ in range(n)], dt)
            yield {"a": a, "b": b}, (lambda a=a, b=b: torch.nan_to_num(a / (a + b), 1.0)), ratio(dt)


@op("binned", "column", "m[:, c]", SRC_BPRC + ":_multiclass_binned_precision_recall_curve_compute (precision.T)")
def _g(rng, reps):
    for dt in FD:
        for _ in range(max(4, reps // 4)):
            n, c = rng.choice([0, 1, 2, 3]), rng.choice([1, 2, 3])
            x, j = ft(rng.grid(n * c, GS), dt, (n, c)), rng.randrange(c)
            yield {"input": x, "c": j}, (lambda x=x, j=j: x[:, j])

# ============================================================================= multi
# the vectorised multi-row pipelines (TE/Model/Multi.lean)


def _mask2(rng, t, n):
    return [v for _ in range(t) for v in mask_vals(rng, n)]


@op("multi", "select_flat", "cum_tp_before_pad[mask]   (2-D)", SRC_AUROC)
def _g(rng, reps):
    for dt in FD:
        for _ in range(reps):
            t, n = rng.choice([0, 1, 2, 3]), rng.choice([0, 1, 2, 3, 5])
            x, m = ft(rng.grid(t * n, GS), dt, (t, n)), bt(_mask2(rng, t, n), (t, n))
            yield {"input": x, "mask": m}, (lambda x=x, m=m: x[m])


@op("multi", "shifted_mask", "mask.sum(-1, keepdim=True) >= torch.arange(mask.size(-1), 0, -1)", SRC_AUROC)
def _g(rng, reps):
    for _ in range(2 * reps):
        t, n = rng.choice([0, 1, 2, 3]), rng.choice([0, 1, 2, 3, 5])
        m = bt(_mask2(rng, t, n), (t, n))
        yield {"mask": m}, (lambda m=m: m.sum(-1, keepdim=True) >= torch.arange(m.size(-1), 0, -1))


@op("multi", "masked_scatter_flat", "torch.zeros_like(x).masked_scatter_(mask, source)   (2-D)", SRC_AUROC)
def _g(rng, reps):
    # arbitrary masks (not only shifted ones); source exactly enough, with surplus, or one short (RuntimeError)
    for dt in FD:
        for _ in range(reps):
            t, n = rng.choice([0, 1, 2, 3]), rng.choice([0, 1, 2, 3, 5])
            mv = _mask2(rng, t, n)
            k = sum(mv) + rng.choice([0, 0, 0, 1, 2, -1])
            m, src = bt(mv, (t, n)), ft(rng.grid(max(k, 0), [Fr(i, 4) for i in range(1, 9)]), dt)
            yield {"mask": m, "src": src}, (lambda m=m, src=src, dt=dt: torch.zeros(m.shape, dtype=dt).masked_scatter_(m, src))


@op("multi", "split_sizes", "x[mask].split(mask.sum(1).tolist())", "functional/classification/precision_recall_curve.py:_multiclass_precision_recall_curve_compute")
def _g(rng, reps):
    # sizes always sum to the length (they are the row counts of the mask that selected the data); rows selecting nothing give
    # empty pieces
    for dt in FD:
        for _ in range(reps):
            t, n = rng.choice([0, 1, 2, 3]), rng.choice([0, 1, 2, 3, 5])
            x, m = ft(rng.grid(t * n, GS), dt, (t, n)), bt(_mask2(rng, t, n), (t, n))
            sizes = m.sum(1).tolist()
            yield {"sizes": it(sizes), "input": x[m]}, (lambda x=x, m=m: list(x[m].split(m.sum(1).tolist())))


@op("multi", "sum_last_dim", "(input * weights).sum(-1)", "functional/ranking/click_through_rate.py:_click_through_rate_update")
def _g(rng, reps):
    for dt in FD:
        for _ in range(reps):
            t, n = rng.choice([0, 1, 2, 3]), rng.choice([0, 1, 2, 3, 5])
            x = ft(rng.grid(t * n, GS), dt, (t, n))
            yield {"input": x}, (lambda x=x: x.sum(-1))


@op("multi", "sum_dim0", "squared_error.sum(dim=0)", "functional/regression/mean_squared_error.py:_update")
def _g(rng, reps):
    for dt in FD:
        for _ in range(reps):
            n, d = rng.choice([0, 1, 2, 3, 5]), rng.choice([0, 1, 2, 3])
            x = ft(rng.grid(n * d, GS), dt, (n, d))
            yield {"input": x}, (lambda x=x: x.sum(dim=0))


@op("multi", "count_true", "mask.sum(-1)", SRC_AUROC)
def _g(rng, reps):
    for _ in range(reps):
        t, n = rng.choice([0, 1, 2, 3]), rng.choice([0, 1, 2, 3, 5])
        m = bt(_mask2(rng, t, n), (t, n))
        yield {"mask": m}, (lambda m=m: m.sum(-1))


@op("multi", "arange_down", "torch.arange(n, 0, -1)", SRC_AUROC)
def _g(rng, reps):
    for n in range(0, 7):
        yield {"n": n}, (lambda n=n: torch.arange(n, 0, -1))


@op("multi", "query_rows", "input[indexes == i], target[indexes == i]", "ranking/retrieval_precision.py:RetrievalPrecision.update")
def _g(rng, reps):
    for dt in FD:
        for _ in range(reps):
            n, q = rng.choice(SIZES), rng.choice([1, 2, 3])
            x, y = ft(rng.grid(n, GS), dt), ft(rng.grid(n, [0, 1]), dt)
            ix, i = it([rng.choice([-1, 0, 1, 2, 3]) for _ in range(n)]), rng.randrange(q + 1)
            yield {"input": x, "target": y, "indexes": ix, "i": i}, (lambda x=x, y=y, ix=ix, i=i: (x[ix == i], y[ix == i]))

# ============================================================================= rank
# torcheval/metrics/functional/ranking/*.py

SRC_HIT = "functional/ranking/hit_rate.py:hit_rate"
SRC_TOPK = "functional/ranking/retrieval_precision.py:get_topk / compute_nb_relevant_items_retrieved"


def _gather_case(rng, dt):
    n, c = rng.choice([0, 1, 2, 3]), rng.choice([0, 1, 2, 3, 4])       # c = 0: every index is out of range
    x = ft([v for _ in range(n) for v in tie_vals(rng, c, GS)], dt, (n, c))
    tg = [rng.randrange(c) if c else 0 for _ in range(n)]
    if n and rng.random() < 0.3:
        tg[rng.randrange(n)] = rng.choice([-1, c, -c, c + 1])        # torch.gather does not wrap negative indices
    return x, it(tg)


@op("rank", "gather1", "torch.gather(input, dim=-1, index=target.unsqueeze(dim=-1))", SRC_HIT)
def _g(rng, reps):
    for dt in FD:
        for _ in range(reps):
            x, t = _gather_case(rng, dt)
            yield {"input": x, "target": t}, (lambda x=x, t=t: torch.gather(x, dim=-1, index=t.unsqueeze(dim=-1)).squeeze(-1))


@op("rank", "ranks", "torch.gt(input, torch.gather(input, -1, target.unsqueeze(-1))).sum(dim=-1)", SRC_HIT)
def _g(rng, reps):
    for dt in FD:
        for _ in range(reps):
            x, t = _gather_case(rng, dt)
            yield ({"input": x, "target": t},
                   (lambda x=x, t=t: torch.gt(x, torch.gather(x, dim=-1, index=t.unsqueeze(dim=-1))).sum(dim=-1)))


def _topk_cmp(xs, ys, k):
    """scores exactly; labels: a tie group that is wholly inside the top-k up to a permutation, the tie group cut by k as a
    sub-multiset of that group's labels (torch.topk's choice and order among equal scores is unspecified)."""
    def cmp(real, model):
        msg = cmp_exact(real[:1], model[:1])
        if msg:
            return msg
        s = [float(v) for v in model[0][1]]
        allg = groups([float(v) for v in xs], [float(v) for v in ys])
        for who, labs in (("torch", real[1].tolist()), ("model", [float(v) for v in model[1][1]])):
            if len(labs) != len(s):
                return f"{who}: {len(labs)} labels for {len(s)} scores"
            g = groups(s, labs)
            for v, ls in g.items():
                full = allg.get(v, [])
                if len(ls) == len(full):
                    if ls != full:
                        return f"{who}: labels of score {v} are {ls}, the input has {full}"
                elif not sub_multiset(ls, full):
                    return f"{who}: labels {ls} of the cut tie group at score {v} are not among {full}"
        return None
    return cmp


@op("rank", "topk_pairs", "vals, idx = t.topk(min(k, t.size(-1)), dim=-1); target.gather(dim=-1, index=idx)", SRC_TOPK)
def _g(rng, reps):
    for dt in FD:
        for _ in range(reps):
            n = rng.choice(SIZES)
            xs, ys = tie_vals(rng, n), rng.grid(n, [0, 1])
            k = rng.choice([None, 1, 2, 3, n, n + 2])
            if k == 0:
                k = None
            x, y = ft(xs, dt), ft(ys, dt)

            def thunk(x=x, y=y, k=k):
                kk = x.size(-1) if k is None else k
                vals, idx = x.topk(min(kk, x.size(-1)), dim=-1)
                return vals, y.gather(dim=-1, index=idx)
            yield {"input": x, "target": y, "k": k}, thunk, _topk_cmp(xs, ys, k)


@op("rank", "nb_relevant", "target.gather(dim=-1, index=get_topk(input, k)[1]).sum(dim=-1)", SRC_TOPK)
def _g(rng, reps):
    # the sum of the selected labels is only determined when no tie group is cut by k: those inputs only
    for dt in FD:
        for _ in range(reps):
            n = rng.choice(SIZES)
            xs, ys = tie_vals(rng, n), rng.grid(n, [0, 1])
            k = rng.choice([None, 1, 2, 3, n, n + 2])
            if k == 0:
                k = None
            if k is not None and k < n:
                srt = sorted(xs, reverse=True)
                if srt[k - 1] == srt[k] and len({float(y) for x_, y in zip(xs, ys) if x_ == srt[k]}) > 1:
                    continue
            x, y = ft(xs, dt), ft(ys, dt)

            def thunk(x=x, y=y, k=k):
                kk = x.size(-1) if k is None else k
                return y.gather(dim=-1, index=x.topk(min(kk, x.size(-1)), dim=-1)[1]).sum(dim=-1)
            yield {"input": x, "target": y, "k": k}, thunk


def xq_enc(vals):
    """values possibly nan / ±inf -> (value tensor, kind tensor) of the protocol."""
    v = [0 if (isinstance(a, float) and (math.isnan(a) or math.isinf(a))) else a for a in vals]
    k = [1 if (isinstance(a, float) and math.isnan(a)) else 2 if a == math.inf else 3 if a == -math.inf else 0 for a in vals]
    return v, k


XV = [math.nan, math.inf, -math.inf, 0, 0, 1, -1, Fr(1, 2), 2, -2]


@op("rank", "nanmean", "torch.cat(rp).nanmean()", "ranking/retrieval_precision.py:RetrievalPrecision.compute")
def _g(rng, reps):
    for dt in FD:
        for _ in range(reps):
            n = rng.choice(SIZES)
            vals = [rng.choice([math.nan, math.nan, 0, 1, Fr(1, 2), Fr(1, 4), 1]) if rng.random() < 0.9 else rng.choice(XV) for _ in range(n)]
            v, k = xq_enc(vals)
            x = ft(vals, dt)
            yield {"x": ft(v, dt), "xk": it(k)}, (lambda x=x: x.nanmean()), ratio(dt)


@op("rank", "num_collisions", "(input.view(1, -1).repeat_interleave(n, dim=0) == input.view(-1, 1)).sum(dim=1, keepdim=True) - 1",
    "functional/ranking/num_collisions.py:num_collisions")
def _g(rng, reps):
    for _ in range(reps):
        n = rng.choice(SIZES)
        x = it([rng.choice([-1, 0, 1, 2, 3]) for _ in range(n)])

        def thunk(x=x):
            a = x.view(1, -1).repeat_interleave(torch.numel(x), dim=0)
            return ((a == x.view(-1, 1)).sum(dim=1, keepdim=True) - 1).view(-1)
        yield {"input": x}, thunk


@op("rank", "frequency_at_k", "(input < k).float()", "functional/ranking/frequency.py:frequency_at_k")
def _g(rng, reps):
    for dt in FD:
        for _ in range(reps):
            k = rng.choice(G8)
            x = ft([rng.choice([k, k, k - Fr(1, 8), k + Fr(1, 8)] + G8) for _ in range(rng.choice(SIZES))], dt)
            yield {"input": x, "k": k}, (lambda x=x, k=k: (x < float(k)).float())

# ============================================================================= agg
# torcheval/metrics/functional/{aggregation/auc.py, statistical/wasserstein.py, regression/mean_squared_error.py, …}

SRC_AUC = "functional/aggregation/auc.py:_auc_compute"
SRC_W = "functional/statistical/wasserstein.py:_wasserstein_compute"


@op("agg", "sort_pts", "x, x_idx = torch.sort(x, dim=1, stable=True); y = y.gather(1, x_idx)", SRC_AUC)
def _g(rng, reps):
    # stable sort: positions are determined, compared exactly
    for dt in FD:
        for _ in range(reps):
            n = rng.choice(SIZES)
            x, y = ft(tie_vals(rng, n, GS), dt), ft(rng.grid(n, GS), dt)

            def thunk(x=x, y=y):
                xs, idx = torch.sort(x.unsqueeze(0), dim=1, stable=True)
                return xs[0], idx[0], y.unsqueeze(0).gather(1, idx)[0]
            yield {"x": x, "y": y}, thunk


@op("agg", "sort_with", "x_sorter = torch.argsort(x); x[x_sorter], x_weights[x_sorter]", SRC_W)
def _g(rng, reps):
    # argsort is not stable: weights only up to a permutation inside a tie group
    def cmp(real, model):
        msg = cmp_exact(real[:1], model[:1])
        if msg:
            return msg
        s = [float(v) for v in model[0][1]]
        gt, gm = groups(s, real[1].tolist()), groups(s, [float(v) for v in model[1][1]])
        return None if gt == gm else f"weights differ beyond tie order: torch {gt} model {gm}"
    for dt in FD:
        for _ in range(reps):
            n = rng.choice(SIZES)
            x, w = ft(tie_vals(rng, n, GS), dt), ft(rng.grid(n, [Fr(1, 4), Fr(1, 2), 1, 2]), dt)

            def thunk(x=x, w=w):
                srt = torch.argsort(x)
                return x[srt], w[srt]
            yield {"x": x, "w": w}, thunk, cmp


def _sorted_queries(rng):
    n, m = rng.choice([1, 1, 2, 3, 5]), rng.choice(SIZES)
    xs = tie_vals(rng, n, GS)
    qs = [rng.choice(xs + [min(xs) - Fr(1, 4), max(xs) + Fr(1, 4)] + GS) for _ in range(m)]
    return xs, qs


@op("agg", "agg_searchsorted", "torch.searchsorted(x[x_sorter], all_values[:-1], right=True)", SRC_W)
def _g(rng, reps):
    for dt in FD:
        for _ in range(reps):
            xs, qs = _sorted_queries(rng)
            s, q = ft(sorted(xs), dt), ft(qs, dt)
            yield {"sorted": s, "input": q}, (lambda s=s, q=q: torch.searchsorted(s, q, right=True))


@op("agg", "cdf_searchsorted", "idx = searchsorted(x[x_sorter], q, right=True); idx / x.size(0)  |  cat(([0], cumsum(w[x_sorter])))[idx] / cum[-1]", SRC_W)
def _g(rng, reps):
    # x non-empty, weights positive (the input check rejects the rest)
    for dt in FD:
        for _ in range(reps):
            xs, qs = _sorted_queries(rng)
            x, q = ft(xs, dt), ft(qs, dt)
            w = None if rng.random() < 0.5 else ft(rng.grid(len(xs), [Fr(1, 4), Fr(1, 2), 1, 2]), dt)

            def thunk(x=x, q=q, w=w):
                srt = torch.argsort(x)
                idx = torch.searchsorted(x[srt], q, right=True)
                if w is None:
                    return idx.to(dtype=x.dtype) / x.size(0)
                cum = torch.cat((torch.Tensor([0]), torch.cumsum(w[srt], dim=0)))
                return cum[idx] / cum[-1]
            yield {"x": x, "q": q, "w": w}, thunk, ratio(dt)


@op("agg", "diffs", "torch.diff(all_values)", SRC_W)
def _g(rng, reps):
    for dt in FD:
        for _ in range(reps):
            x = ft(tie_vals(rng, rng.choice(SIZES), GS), dt)
            yield {"input": x}, (lambda x=x: torch.diff(x))


@op("agg", "cum_from", "torch.cat((torch.Tensor([0]), torch.cumsum(x_weights[x_sorter], dim=0)))", SRC_W)
def _g(rng, reps):
    for dt in FD:
        for _ in range(reps):
            x = ft(rng.grid(rng.choice(SIZES), [Fr(1, 4), Fr(1, 2), 1, 2]), dt)
            yield {"input": x}, (lambda x=x: torch.cat((torch.Tensor([0]), torch.cumsum(x, dim=0))))


@op("agg", "isort", "all_values, _ = torch.sort(all_values)", SRC_W)
def _g(rng, reps):
    for dt in FD:
        for _ in range(reps):
            x = ft(tie_vals(rng, rng.choice(SIZES), GS), dt)
            yield {"input": x}, (lambda x=x: torch.sort(x)[0])


@op("agg", "agg_trapz", "torch.trapz(y, x)", SRC_AUC)
def _g(rng, reps):
    for dt in FD:
        for _ in range(reps):
            y, x = _xy(rng, dt)
            yield {"x": x, "y": y}, (lambda y=y, x=x: torch.trapz(y, x))


@op("agg", "clamp", "torch.clamp(x, min=lo, max=hi)", "functional/classification/binary_normalized_entropy.py:_baseline_update")
def _g(rng, reps):
    for dt in FD:
        for _ in range(reps):
            lo, hi = rng.choice(G8), rng.choice(G8)             # lo > hi included: torch returns hi, so does min(max(x, lo), hi)
            x = ft([rng.choice([lo, hi, lo - Fr(1, 8), hi + Fr(1, 8)] + GS) for _ in range(rng.choice(SIZES))], dt)
            yield {"input": x, "lo": lo, "hi": hi}, (lambda x=x, lo=lo, hi=hi: torch.clamp(x, min=float(lo), max=float(hi)))


@op("agg", "sgn_abs", "sum_weight.sign(), sum_weight.abs()", "functional/regression/mean_squared_error.py:_mean_squared_error_compute")
def _g(rng, reps):
    for dt in FD:
        for _ in range(max(4, reps // 2)):
            x = ft(rng.grid(rng.choice(SIZES), GS), dt)
            yield {"input": x}, (lambda x=x: (x.sign(), x.abs()))


@op("agg", "mse_raw", "sum_squared_error / (sum_weight.abs().clamp(min=eps) * sum_weight.sign())", "functional/regression/mean_squared_error.py:_mean_squared_error_compute")
def _g(rng, reps):
    for dt in FD:
        for _ in range(reps):
            sw = rng.choice([0, 0, 1, -1, Fr(1, 2), -2, 3])                        # zero weight: x / 0 -> nan / ±inf
            sse = ft([rng.choice([0, 0, 1, Fr(1, 4), 2, 5]) for _ in range(rng.choice([1, 2, 3]))], dt)
            w = torch.tensor(float(sw), dtype=dt)

            def thunk(sse=sse, w=w):
                eps = torch.finfo(torch.float64).eps
                return sse / (w.abs().clamp(min=eps) * w.sign())
            yield {"sse": sse, "sw": sw}, thunk, ratio(dt)


@op("agg", "reduce_max_min", "torch.max(input), torch.min(input)", "aggregation/max.py:Max.update, aggregation/min.py:Min.update")
def _g(rng, reps):
    for dt in FD:
        for _ in range(reps):
            x = ft(tie_vals(rng, rng.choice(SIZES), GS), dt)                       # empty: RuntimeError
            yield {"input": x}, (lambda x=x: (torch.max(x), torch.min(x)))


@op("agg", "xarith", "a + b, a - b, a * b, a / b   (IEEE: inf - inf, 0 * inf, x / 0, inf / inf, x / inf)", "functional/regression/r2_score.py:_r2_score_compute; functional/image/psnr.py:_psnr_compute")
def _g(rng, reps):
    for dt in FD:
        for _ in range(reps):
            n = rng.choice([1, 2, 3, 5, 8])
            a, b = [rng.choice(XV) for _ in range(n)], [rng.choice(XV) for _ in range(n)]
            (av, ak), (bv, bk) = xq_enc(a), xq_enc(b)
            x, y = ft(a, dt), ft(b, dt)
            yield ({"x": ft(av, dt), "xk": it(ak), "y": ft(bv, dt), "yk": it(bk)},
                   (lambda x=x, y=y: (x + y, x - y, x * y, x / y)), ratio(dt))


@op("agg", "xmean", "raw_values.sum(), raw_values.mean()", "functional/regression/mean_squared_error.py:_mean_squared_error_compute")
def _g(rng, reps):
    for dt in FD:
        for _ in range(reps):
            n = rng.choice(SIZES)
            a = [rng.choice(XV) if rng.random() < 0.3 else rng.choice([0, 1, Fr(1, 2), -1, 2]) for _ in range(n)]
            av, ak = xq_enc(a)
            x = ft(a, dt)
            yield {"x": ft(av, dt), "xk": it(ak)}, (lambda x=x: (x.sum(), x.mean())), ratio(dt)

# ============================================================================= sync (torcheval/metrics/synclib.py) and window

SRC_SYNC = "synclib.py:_send_uneven_tensors"


def _shapes(rng):
    nd = rng.choice([1, 1, 2, 2, 3])
    small = [rng.choice([0, 1, 2, 3]) for _ in range(nd)]
    big = [s + rng.choice([0, 0, 1, 2]) for s in small]
    return small, big


@op("sync", "pad_to", "pad_dims = []; for val in reversed(max_size - local_size): pad_dims += [0, val]; F.pad(tensor, pad_dims)", SRC_SYNC)
def _g(rng, reps):
    for dt in FD + (torch.int64,):
        for _ in range(reps):
            small, big = _shapes(rng)
            n = math.prod(small)
            x = it(range(1, n + 1), tuple(small)) if dt == torch.int64 else ft([Fr(i + 1, 4) for i in range(n)], dt, tuple(small))

            def thunk(x=x, big=big):
                pad_by = torch.tensor(big) - torch.tensor(x.shape)
                pad_dims = []
                for val in reversed(pad_by):
                    pad_dims.append(0)
                    pad_dims.append(val.item())
                return F.pad(x, pad_dims)
            yield {"input": x, "to": it(big)}, thunk


@op("sync", "slice_to", "gathered_result[idx][[slice(dim_size) for dim_size in item_size]]", SRC_SYNC)
def _g(rng, reps):
    for dt in FD + (torch.int64,):
        for _ in range(reps):
            small, big = _shapes(rng)
            n = math.prod(big)
            x = it(range(1, n + 1), tuple(big)) if dt == torch.int64 else ft([Fr(i + 1, 4) for i in range(n)], dt, tuple(big))

            def thunk(x=x, small=small):
                item_size = torch.tensor(small)
                slice_param = [slice(dim_size) for dim_size in item_size]
                return x[slice_param]
            yield {"input": x, "to": it(small)}, thunk


@op("sync", "pmax_pmin", "stacked = torch.stack(local_sizes); stacked.max(dim=0).values, stacked.min(dim=0).values", SRC_SYNC)
def _g(rng, reps):
    for _ in range(reps):
        w, nd = rng.choice([1, 2, 3, 4]), rng.choice([1, 2, 3])
        sizes = [torch.tensor([rng.choice([0, 1, 2, 3, 5]) for _ in range(nd)]) for _ in range(w)]

        def thunk(sizes=sizes):
            st = torch.stack(sizes)
            return st.max(dim=0).values, st.min(dim=0).values
        yield {"sizes": torch.stack(sizes)}, thunk


@op("window", "place", "self.inputs[:, next : next + input.shape[1]] = input", "window/auroc.py:WindowedBinaryAUROC.update")
def _g(rng, reps):
    # reachable: the block fits (`i + len(src) <= len(dst)`: the three branches of `update` cut the batch accordingly)
    for dt in FD:
        for _ in range(reps):
            n = rng.choice([1, 2, 3, 5, 8])
            i = rng.randint(0, n)
            k = rng.randint(0, n - i)
            d, s = ft(rng.grid(n, GS), dt), ft(rng.grid(k, [Fr(j, 4) for j in range(9, 13)]), dt)

            def thunk(d=d, s=s, i=i):
                buf = d.clone().unsqueeze(0)
                buf[:, i: i + s.shape[0]] = s.unsqueeze(0)
                return buf[0]
            yield {"dst": d, "i": i, "src": s}, thunk

# ----------------------------------------------------------------------------- runner

FAMILIES = ["count", "curve", "binned", "multi", "rank", "agg", "sync", "window"]


def _show(t):
    return [x.tolist() if isinstance(x, torch.Tensor) else x for x in t]


def check_ops(rep: Report, families: list[str], reps: int | None = None):
    """compare every `op.*` primitive of the given families with the torch kernel; one driver call per family."""
    for fam in families:
        t0 = time.time()
        if fam not in REG:
            rep.broke(f"correspondence:op:{fam}", f"unknown op family {fam}", {"family": fam})
            continue
        n_reps = reps if reps is not None else (3000 if rep.tier == "thorough" else 300)
        cases = []
        for k, (name, expr, src, gen) in enumerate(REG[fam]):
            rng = Rng((rep.seed * 1000003 + 977) * 131 + sum(ord(ch) for ch in fam) * 17 + k)
            for c in gen(rng, n_reps):
                kw, thunk = c[0], c[1]
                cmp = c[2] if len(c) > 2 else cmp_exact
                kw = dict(kw)
                req = kw.pop("__fn", None) or "op." + kw.pop("__op", name)
                cases.append((name, expr, src, "fn " + req + " " + enc_args(kw), thunk, cmp))
        outs = run_driver([c[3] for c in cases])
        bad: dict = {}
        for (name, expr, src, line, thunk, cmp), o in zip(cases, outs):
            rep.count(f"op:{name}")
            rep.traces += 1
            try:
                real = ("ok", flat(thunk()))
            except Exception as e:  # noqa: BLE001
                real = ("err", err_kind(e), repr(e)[:160])
            model = dec_out(o)
            if model[0] == "bad":
                msg = f"driver: {model[1]}"
            elif real[0] == "err" or model[0] == "err":
                rk, mk = (real[1] if real[0] == "err" else None), (model[1] if model[0] == "err" else None)
                msg = None if rk == mk else (f"torch raised {rk} ({real[2]})" if rk else f"torch returned {_show(real[1])}") + \
                    (f", model raised {mk}" if mk else f", model returned {o}")
            else:
                msg = cmp(real[1], model[1])
            if msg is None:
                continue
            bad[name] = bad.get(name, 0) + 1
            if bad[name] <= 3:
                rep.broke(f"correspondence:op:{name}",
                          f"primitive model and torch disagree on `{expr}` ({src}): {msg}  [request: {line}]",
                          {"op": name, "family": fam, "request": line, "torch_expr": expr, "source": src,
                           "torch": real[1] if real[0] == "err" else _show(real[1]), "model": o, "mismatch": msg})
        rep.streams[f"ops:{fam}"] = {"ops": len(REG[fam]), "cases": len(cases), "disagreements": sum(bad.values()),
                                     "disagreeing_ops": sorted(bad), "seconds": round(time.time() - t0, 2)}
