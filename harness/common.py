"""Shared plumbing: exact encoding, the Lean driver, comparison, evidence, findings."""
from __future__ import annotations
import hashlib, json, math, os, random, subprocess, sys, time
from fractions import Fraction
from pathlib import Path

VERIF = Path(__file__).resolve().parent.parent
REPO = Path(os.environ.get("TE_REPO", "/repo"))
LEAN = VERIF / "lean"
DRIVER = LEAN / ".lake" / "build" / "bin" / "tedriver"
if str(REPO) not in sys.path:
    sys.path.insert(0, str(REPO))
os.environ.setdefault("PYTORCH_TORCHEVAL_VERIF", "1")

import logging
logging.disable(logging.WARNING)
import warnings
warnings.filterwarnings("ignore")
import torch  # noqa: E402

torch.set_num_threads(1)

# ----------------------------------------------------------------------------- encoding

def fq(x) -> str:
    f = Fraction(x)
    return str(f.numerator) if f.denominator == 1 else f"{f.numerator}/{f.denominator}"


def enc_tensor(t) -> str:
    """torch tensor / nested list / number -> `SHAPE:DATA` with exact rationals."""
    if not isinstance(t, torch.Tensor):
        t = torch.as_tensor(t)
    shape = "x".join(str(d) for d in t.shape)
    if t.dtype == torch.bool:
        t = t.to(torch.int64)
    flat = t.reshape(-1).tolist()
    return shape + ":" + ",".join(fq(v) for v in flat)


_VOCAB: dict = {}


def enc_sentence(s: str) -> str:
    """sentence -> 1-D int tensor of token ids (`0:` when empty); ids from a process-global vocabulary."""
    ids = [_VOCAB.setdefault(tok, len(_VOCAB)) for tok in s.split()]
    return f"{len(ids)}:" + ",".join(str(i) for i in ids)


def enc_val(v) -> str:
    if isinstance(v, torch.Tensor):
        return enc_tensor(v)
    if isinstance(v, str) and (" " in v or v == ""):
        return enc_sentence(v)
    if isinstance(v, (list, tuple)) and len(v) > 0 and all(isinstance(x, str) for x in v):
        return "[" + ";".join(enc_sentence(x) for x in v) + "]"
    if isinstance(v, (list, tuple)) and len(v) > 0 and all(isinstance(x, (list, tuple, str)) for x in v) and any(isinstance(x, (list, tuple)) for x in v):
        # BLEU targets: every candidate's reference group is followed by the terminator tensor `1:-1`
        parts = []
        for grp in v:
            refs = [grp] if isinstance(grp, str) else list(grp)
            parts += [enc_sentence(r) for r in refs] + ["1:-1"]
        return "[" + ";".join(parts) + "]"
    if isinstance(v, (list, tuple)) and (len(v) == 0 or isinstance(v[0], torch.Tensor)):
        return "[" + ";".join(enc_tensor(x) for x in v) + "]"
    if v is None:
        return "none"
    if isinstance(v, bool):
        return "true" if v else "false"
    if isinstance(v, float):
        return fq(v)
    if isinstance(v, Fraction):
        return fq(v)
    return str(v)


def enc_args(kw: dict) -> str:
    return " ".join(f"{k}={enc_val(v)}" for k, v in kw.items())


def parse_scalar(s: str):
    if s == "nan":
        return math.nan
    if s == "inf":
        return math.inf
    if s == "-inf":
        return -math.inf
    return Fraction(s)


def dec_tensor(s: str):
    sh, da = s.split(":")
    shape = tuple(int(d) for d in sh.split("x")) if sh else ()
    data = [parse_scalar(x) for x in da.split(",")] if da else []
    return shape, data


def dec_out(s: str):
    """`ok v v v` -> ('ok', [(shape, data), ...]); `err Kind` -> ('err', Kind)."""
    s = s.strip()
    if s.startswith("ok"):
        return ("ok", [dec_tensor(x) for x in s[2:].split()])
    if s.startswith("err"):
        return ("err", s[3:].strip())
    return ("bad", s)

# ----------------------------------------------------------------------------- driver

class DriverError(RuntimeError):
    pass


def run_driver(lines: list[str], timeout: float = 600.0) -> list[str]:
    if not lines:
        return []
    for _ in range(60):                 # a concurrent relink removes the binary for a moment
        if DRIVER.exists():
            break
        time.sleep(0.5)
    if not DRIVER.exists():
        raise DriverError(f"driver not built: {DRIVER}")
    p = subprocess.run([str(DRIVER)], input="\n".join(lines) + "\n", capture_output=True, text=True, timeout=timeout)
    out = p.stdout.split("\n")
    if out and out[-1] == "":
        out.pop()
    if p.returncode != 0 or len(out) != len(lines):
        raise DriverError(f"driver rc={p.returncode} lines_in={len(lines)} lines_out={len(out)} stderr={p.stderr[-500:]}")
    return out

# ----------------------------------------------------------------------------- real-code outcomes

ERRMAP = {
    ValueError: "ValueError", TypeError: "TypeError", RuntimeError: "RuntimeError", IndexError: "IndexError",
    AssertionError: "AssertionError", NotImplementedError: "NotImplementedError",
}


def err_kind(e: BaseException) -> str:
    for k, v in ERRMAP.items():
        if type(e) is k:
            return v
    for k, v in ERRMAP.items():
        if isinstance(e, k):
            return v
    return "Other"


def flat_out(r):
    """real return value -> list of tensors (tuples/lists flattened one level or two)."""
    if isinstance(r, torch.Tensor):
        return [r]
    if isinstance(r, (int, float)):
        return [torch.tensor(float(r), dtype=torch.float64)]
    if isinstance(r, (tuple, list)):
        out = []
        for x in r:
            out.extend(flat_out(x))
        return out
    raise TypeError(f"cannot flatten {type(r)}")


def call_real(f, *a, **kw):
    try:
        r = f(*a, **kw)
    except Exception as e:  # noqa: BLE001
        return ("err", err_kind(e), repr(e)[:200])
    return ("ok", flat_out(r))


def tol_for(t: torch.Tensor):
    if t.dtype in (torch.float64,):
        return 1e-9
    if t.dtype in (torch.float32,):
        return 2e-5
    if t.dtype in (torch.float16, torch.bfloat16):
        return 1e-2
    return 0.0


def values_close(real: torch.Tensor, model, tol=None, check_shape=True):
    """real tensor vs model (shape, [Fraction|float]) -> None or a message."""
    shape, data = model
    if check_shape and tuple(real.shape) != tuple(shape):
        return f"shape {tuple(real.shape)} vs model {tuple(shape)}"
    rv = real.reshape(-1).to(torch.float64).tolist() if real.dtype != torch.bool else [float(x) for x in real.reshape(-1).tolist()]
    if len(rv) != len(data):
        return f"numel {len(rv)} vs model {len(data)}"
    t = tol_for(real) if tol is None else tol
    for i, (a, b) in enumerate(zip(rv, data)):
        bf = float(b)
        if math.isnan(a) or math.isnan(bf):
            if not (math.isnan(a) and math.isnan(bf)):
                return f"[{i}] {a} vs model {b}"
            continue
        if math.isinf(a) or math.isinf(bf):
            if a != bf:
                return f"[{i}] {a} vs model {b}"
            continue
        if abs(a - bf) > t * max(1.0, abs(bf)) + (0 if t else 0):
            return f"[{i}] {a} vs model {b} (={bf})"
    return None


def outcomes_agree(real, model, tol=None, check_shape=True, strict_kind=False):
    """real = call_real(...) ; model = dec_out(...). Returns None or a message."""
    if model[0] == "bad":
        return f"driver: {model[1]}"
    if real[0] == "err":
        if model[0] != "err":
            return f"real raised {real[1]} ({real[2]}), model returned {model[1]}"
        if strict_kind and real[1] != model[1]:
            return f"real raised {real[1]}, model {model[1]}"
        return None
    if model[0] == "err":
        return f"real returned {[t.tolist() for t in real[1]]}, model raised {model[1]}"
    if len(real[1]) != len(model[1]):
        return f"real returned {len(real[1])} tensors, model {len(model[1])}"
    for j, (r, m) in enumerate(zip(real[1], model[1])):
        msg = values_close(r, m, tol, check_shape)
        if msg:
            return f"output {j}: {msg}"
    return None

# ----------------------------------------------------------------------------- rng / grids

G5 = [Fraction(0), Fraction(1, 4), Fraction(1, 2), Fraction(3, 4), Fraction(1)]


class Rng(random.Random):
    def grid(self, n, grid=G5):
        return [self.choice(grid) for _ in range(n)]


def ft(vals, dtype=torch.float32, shape=None):
    t = torch.tensor([float(v) for v in vals], dtype=dtype)
    return t.reshape(shape) if shape is not None else t


def it(vals, shape=None):
    t = torch.tensor([int(v) for v in vals], dtype=torch.int64)
    return t.reshape(shape) if shape is not None else t

# ----------------------------------------------------------------------------- result collection

class Report:
    """Collected by a property run; turned into evidence + exit status by `check`."""

    def __init__(self, prop: str, tier: str, seed: int):
        self.prop, self.tier, self.seed = prop, tier, seed
        self.t0 = time.time()
        self.evaluations = 0
        self.nontrivial_keys: set = set()
        self.samples: list = []
        self.dist: dict = {}
        self.violations: list[dict] = []     # each: {signature, what, replay(dict)}
        self.broken: list[dict] = []         # correspondence/proof breaks without failing input
        self.notes: list[str] = []
        self.traces = 0
        self.streams: dict = {}

    def count(self, key, n=1):
        self.dist[key] = self.dist.get(key, 0) + n

    def case(self, nontrivial_key=None, sample=None):
        self.evaluations += 1
        if nontrivial_key is not None:
            self.nontrivial_keys.add(nontrivial_key)
        if sample is not None and len(self.samples) < 6:
            self.samples.append(sample)

    def violation(self, signature: str, what: str, replay: dict):
        self.violations.append({"signature": signature, "what": what, "replay": replay})

    def broke(self, obligation: str, what: str, replay: dict):
        self.broken.append({"obligation": obligation, "what": what, "replay": replay})


def sha(obj) -> str:
    return hashlib.sha1(json.dumps(obj, sort_keys=True, default=str).encode()).hexdigest()[:12]


def ckey(x) -> str:
    """content key of a case (program, op list, snapshot …): distinctness of evidence cases is decided on CONTENT."""
    def conv(o):
        if hasattr(o, "describe"):
            return conv(o.describe())
        if isinstance(o, dict):
            return {str(k): conv(v) for k, v in o.items()}
        if isinstance(o, (list, tuple)):
            return [conv(v) for v in o]
        if isinstance(o, (str, int, float, bool)) or o is None:
            return o
        return repr(o)
    return sha(conv(x))


def budget(tier: str, quick: float, thorough: float) -> float:
    return thorough if tier == "thorough" else quick
