"""Per-property check flow (DESIGN §4): translators → Lean build + axiom audit →
corpus + correspondence → (if something broke) failing-input search → evidence."""
from __future__ import annotations
import fcntl, importlib, json, os, re, subprocess, time
from pathlib import Path
from . import common
from .common import VERIF, LEAN, Report, sha

ALLOWED_AXIOMS = {"propext", "Classical.choice", "Quot.sound"}
FORBIDDEN = re.compile(r"\bsorry\b|\badmit\b|^axiom |native_decide|bv_decide|implemented_by|\bunsafe |maxHeartbeats 0")
TRUSTED_BASE = [
    "Lean 4.33 kernel (lake build; leanchecker re-check in the thorough tier)",
    "axioms allowed: propext, Classical.choice, Quot.sound (audited per theorem by #print axioms on every run)",
    "hand-written executable models in lean/TE/Model tied to /repo by the differential correspondence in harness/ (bounded by its generators); "
    "where a translator regenerates the model's shape from the source (class plumbing, ring-buffer plumbing, the 21 count-metric kernels, input checks, "
    "effects, states, dtypes, index sites) the tie is the translator plus the theorem 'generated = hand-written'",
    "translators in harness/translators (regenerate lean/TE/Gen from /repo's working tree each run)",
    "torch, CPython",
]


class Infra(Exception):
    pass


def _lock():
    f = open(VERIF / ".lake.lock", "w")
    fcntl.flock(f, fcntl.LOCK_EX)
    return f


def sh(cmd, cwd=None, timeout=3000):
    p = subprocess.run(cmd, cwd=cwd, capture_output=True, text=True, timeout=timeout)
    return p.returncode, p.stdout + p.stderr


def strip_comments(src: str) -> str:
    src = re.sub(r"/-.*?-/", "", src, flags=re.S)
    return "\n".join(l.split("--")[0] for l in src.split("\n"))


def module_files(mod: str, seen=None) -> list[Path]:
    """transitive TE.* imports of a module (files)."""
    seen = seen if seen is not None else {}
    p = LEAN / (mod.replace(".", "/") + ".lean")
    if mod in seen or not p.exists():
        return []
    seen[mod] = p
    for m in re.findall(r"^import (TE\.\S+)", p.read_text(), flags=re.M):
        module_files(m, seen)
    return list(seen.values())


def lean_stage(prop: str, extra_modules=()):
    """build the property's theorems + the driver, audit axioms.
    returns dict(obligations, discharged, failures:[str], theorems:[...])."""
    mod = f"TE.Props.{prop}"
    props_file = LEAN / "TE" / "Props" / f"{prop}.lean"
    res = {"obligations": 0, "discharged": 0, "failures": [], "theorems": [], "axioms": {}}
    if not props_file.exists():
        raise Infra(f"{props_file} missing")
    # a property's theorems may be spread over TE/Props/Cxx.lean and TE/Props/Cxx_*.lean
    part_files = sorted((LEAN / "TE" / "Props").glob(f"{prop}_*.lean"))
    part_mods = [f"TE.Props.{f.stem}" for f in part_files]
    extra_modules = tuple(extra_modules) + tuple(part_mods)
    lk = _lock()
    try:
        t0 = time.time()
        rc, out = sh(["lake", "build", mod, *extra_modules], cwd=LEAN)
        if rc != 0:
            ol = out.split("\n")
            # an error line together with the line that follows it (Lean prints the failing goal / theorem context there)
            errs = [(l + " ‖ " + ol[i + 1].strip()[:160] if i + 1 < len(ol) and ol[i + 1].strip() and "error" not in ol[i + 1] else l)
                    for i, l in enumerate(ol) if "error" in l][:8]
            res["failures"].append("lake build failed: " + " | ".join(errs))
        # the driver is a tool of the correspondence, not a proof obligation: if it does not
        # build (infrastructure), fall back to the last built binary or stop with exit 2
        rcd, outd = sh(["lake", "build", "tedriver"], cwd=LEAN)
        if rcd != 0:
            res["driver_build"] = "failed: " + " | ".join([l for l in outd.split("\n") if "error" in l][:4])
            if not common.DRIVER.exists():
                raise Infra("tedriver does not build and no earlier binary exists: " + res["driver_build"][:300])
        res["build_s"] = round(time.time() - t0, 2)
        # private copy of the driver for this run (taken under the build lock): a concurrent check or builder that
        # relinks .lake/build/bin/tedriver cannot pull the binary from under the correspondence run
        try:
            import shutil
            for stale in common.DRIVER.parent.glob("tedriver.run*"):      # left behind by a run that died
                try:
                    os.kill(int(stale.name.split("run")[1]), 0)
                except (ValueError, ProcessLookupError):
                    stale.unlink(missing_ok=True)
                except PermissionError:
                    pass
            priv = common.DRIVER.with_name(f"tedriver.run{os.getpid()}")
            shutil.copy2(common.DRIVER, priv)
            common.DRIVER = priv
            res["private_driver"] = str(priv)
        except OSError:
            pass
        files = module_files(mod)
        for pm in part_mods:
            for f in module_files(pm):
                if f not in files:
                    files.append(f)
        for f in files:
            for ln, l in enumerate(strip_comments(f.read_text()).split("\n"), 1):
                if FORBIDDEN.search(l):
                    res["failures"].append(f"forbidden construct in {f.relative_to(LEAN)}:{ln}: {l.strip()[:80]}")
        # obligations: every theorem of the Props file (+ Gen obligations it re-exports)
        names = []
        for pf in [props_file, *part_files]:
            src = strip_comments(pf.read_text())
            ns = None
            for l in src.split("\n"):
                m = re.match(r"^namespace (\S+)", l)
                if m:
                    ns = m.group(1)
                if re.match(r"^end (\S+)", l):
                    ns = None
                m = re.match(r"^(?:private |protected )?theorem (\S+)", l)
                if m:
                    names.append((ns + "." if ns else "") + m.group(1))
        res["obligations"] = len(names)
        res["theorems"] = names
        if rc == 0 and names:
            audit = LEAN / "TE" / "Audit" / f"{prop}.lean"
            audit.parent.mkdir(exist_ok=True)
            audit.write_text("".join(f"import {m_}\n" for m_ in [mod, *part_mods]) + "\n".join(f"#print axioms {n}" for n in names) + "\n")
            rc2, out2 = sh(["lake", "env", "lean", str(audit)], cwd=LEAN)
            cur = None
            ax: dict[str, set] = {}
            for l in re.sub(r"\n[ \t]+", " ", out2).split("\n"):     # Lean wraps long reports onto indented continuation lines
                m = re.match(r"'(\S+)' depends on axioms: \[(.*)\]", l)
                if m:
                    ax[m.group(1)] = {x.strip() for x in m.group(2).split(",") if x.strip()}
                m = re.match(r"'(\S+)' does not depend on any axioms", l)
                if m:
                    ax[m.group(1)] = set()
            for n in names:
                if n not in ax:
                    res["failures"].append(f"theorem {n}: no axiom report ({out2[:200]})")
                elif not ax[n] <= ALLOWED_AXIOMS:
                    res["failures"].append(f"theorem {n} depends on {sorted(ax[n] - ALLOWED_AXIOMS)}")
                else:
                    res["discharged"] += 1
            res["axioms"] = {k: sorted(v) for k, v in ax.items()}
    finally:
        lk.close()
    return res


def leanchecker_stage(prop: str):
    parts = [f"TE.Props.{f.stem}" for f in sorted((LEAN / "TE" / "Props").glob(f"{prop}_*.lean"))]
    lk = _lock()
    try:
        rc, out = sh(["lake", "env", "leanchecker", f"TE.Props.{prop}", *parts], cwd=LEAN, timeout=3000)
    finally:
        lk.close()
    return rc == 0, out[-300:]

# ------------------------------------------------------------------ findings

def load_findings():
    p = VERIF / "known_findings.jsonl"
    known, fixed = [], []
    if p.exists():
        for l in p.read_text().split("\n"):
            l = l.strip()
            if not l or l.startswith("#"):
                continue
            if l.startswith("fixed:"):
                fixed.append(l)
                continue
            known.append(json.loads(l))
    return known, fixed


def write_replay(prop: str, payload: dict) -> Path:
    d = VERIF / "replays" / prop
    d.mkdir(parents=True, exist_ok=True)
    p = d / f"{sha(payload)}.json"
    p.write_text(json.dumps(payload, indent=1, default=str))
    return p

# ------------------------------------------------------------------ main flow

def run_check(prop: str, tier: str, seed: int) -> int:
    t0 = time.time()
    mod = importlib.import_module(f"harness.props.{prop.lower()}")
    rep = Report(prop, tier, seed)
    # 1. translators
    if hasattr(mod, "translate"):
        mod.translate(rep)
    # 2. Lean
    lean = lean_stage(prop, getattr(mod, "EXTRA_LEAN_MODULES", ()))
    if tier == "thorough" and not lean["failures"]:
        ok, tail = leanchecker_stage(prop)
        lean["leanchecker"] = "ok" if ok else tail
        if not ok:
            lean["failures"].append("leanchecker rejected the compiled theorems: " + tail)
    if not common.DRIVER.exists():
        raise Infra("driver did not build: " + "; ".join(lean["failures"])[:400])
    # 3. corpus + correspondence
    try:
        mod.run(rep)
    except Infra:
        raise
    except Exception as e:  # noqa: BLE001
        # An exception that escaped the property module.  If it was raised INSIDE the code under test (a frame of the
        # torcheval tree) on an input the harness considered valid, the correspondence is broken — not the checker:
        # record it and let the search look for a failing input.  An exception without such a frame is a checker bug.
        import traceback
        tb = traceback.extract_tb(e.__traceback__)
        in_repo = [f for f in tb if str(common.REPO) in f.filename]
        if not in_repo:
            raise
        where = f"{in_repo[-1].filename.replace(str(common.REPO) + '/', '')}:{in_repo[-1].lineno} in {in_repo[-1].name}"
        rep.broke("correspondence:real-code-raised-on-harness-input",
                  f"{type(e).__name__}: {str(e)[:200]} raised at {where} while the check was feeding an input it considers valid",
                  {"exception": type(e).__name__, "message": str(e)[:300], "where": where,
                   "harness_frame": next((f"{f.filename.split('/verif/')[-1]}:{f.lineno}" for f in reversed(tb) if '/harness/' in f.filename), None)})
    # 3b. thorough tier: the module's run() is one PASS (exhaustive small grids + seeded random streams).  Passes with fresh derived
    # seeds are repeated until the thorough budget is used (VERIF_THOROUGH_BUDGET seconds, default 420): every pass draws new
    # histories / batches / configurations from the same generators, so the exploration deepens with the time it is given.
    if tier == "thorough" and not (lean["failures"] or rep.broken or [v for v in rep.violations if v["signature"] not in
                                   {k["signature"] for k in load_findings()[0]}]):
        try:
            tb = float(os.environ.get("VERIF_THOROUGH_BUDGET", "420"))
        except ValueError:
            tb = 420.0
        passes, base_seed = 1, rep.seed
        first_pass_s = max(time.time() - t0, 1.0)
        while time.time() - t0 + first_pass_s < tb and passes < 200:
            rep.seed = base_seed + 7919 * passes
            try:
                mod.run(rep)
            except Infra:
                raise
            except Exception as e:  # noqa: BLE001
                import traceback
                tbk = traceback.extract_tb(e.__traceback__)
                in_repo = [f for f in tbk if str(common.REPO) in f.filename]
                if not in_repo:
                    raise
                rep.broke("correspondence:real-code-raised-on-harness-input",
                          f"{type(e).__name__}: {str(e)[:200]} (thorough pass {passes}, derived seed {rep.seed})", {"derived_seed": rep.seed})
            passes += 1
            known_now = {k["signature"] for k in load_findings()[0]}
            if rep.broken or any(v["signature"] not in known_now for v in rep.violations):
                break
        rep.seed = base_seed
        rep.notes.append(f"thorough: {passes} pass(es) of run() with derived seeds base+7919*k within a budget of {tb:.0f} s")
        rep.streams["thorough_passes"] = passes
    # 4. something broke → search for a concrete failing input on the real code
    if (lean["failures"] or rep.broken) and not rep.violations and hasattr(mod, "search"):
        mod.search(rep)
    known, _fixed = load_findings()
    known_sigs = {k["signature"]: k for k in known if k.get("property") == prop}
    exit_code = 0
    printed_known = set()
    unlisted = []
    for v in rep.violations:
        if v["signature"] in known_sigs:
            if v["signature"] not in printed_known:
                printed_known.add(v["signature"])
                print(f"KNOWN-FINDING: property={prop} {v['signature']}: {v['what']}", flush=True)
        else:
            unlisted.append(v)
    seen = set()
    for v in unlisted:
        if v["signature"] in seen:
            continue
        seen.add(v["signature"])
        path = write_replay(prop, {"property": prop, "kind": "failing-input", "signature": v["signature"],
                                   "what": v["what"], "replay": v["replay"], "seed": seed, "tier": tier})
        print(f"VIOLATION property={prop} replay={path}", flush=True)
        exit_code = 1
    if not unlisted:
        not_shown = []
        for f in lean["failures"]:
            not_shown.append({"obligation": "lean", "what": f, "replay": {}})
        not_shown += rep.broken
        if not_shown:
            path = write_replay(prop, {"property": prop, "kind": "no-failing-input-found",
                                       "no_longer_checks": not_shown[:20], "seed": seed, "tier": tier})
            print(f"VIOLATION property={prop} replay={path} no-failing-input-found", flush=True)
            exit_code = 1
    # 5. evidence
    level = getattr(mod, "LEVEL", "proof")
    cov = {
        "obligations": lean["obligations"], "discharged": lean["discharged"],
        "checker_cmd": f"cd lean && lake build TE.Props.{prop} tedriver && lake env lean TE/Audit/{prop}.lean  (#print axioms per theorem)"
                       + (" && lake env leanchecker TE.Props." + prop if tier == "thorough" else ""),
        "trusted_base": TRUSTED_BASE + list(getattr(mod, "TRUSTED_EXTRA", [])),
        "theorems": lean["theorems"], "axioms_used": sorted({a for v in lean["axioms"].values() for a in v}),
        "lean_failures": lean["failures"], "lean_build_s": lean.get("build_s"), "driver_build": lean.get("driver_build", "ok"),
        "evaluations": rep.evaluations, "distinct_nontrivial": len(rep.nontrivial_keys),
        "rule": getattr(mod, "RULE", ""), "samples": rep.samples or ["(no samples recorded)"],
        "traces_validated_against_impl": rep.traces,   # measured: model-vs-implementation comparisons of this run
        "input_distribution": dict(sorted(rep.dist.items())),
        "streams": rep.streams, "notes": rep.notes,
        "known_findings_reproduced": sorted(printed_known),
        "modelled_not_verified": list(getattr(mod, "MODELLED", [])),
    }
    if "leanchecker" in lean:
        cov["leanchecker"] = lean["leanchecker"]
    try:
        if lean.get("private_driver"):
            os.unlink(lean["private_driver"])
    except OSError:
        pass
    ev = {"property_id": prop, "tier": tier, "seed": seed, "level": level, "coverage": cov,
          "assumptions": list(getattr(mod, "ASSUMPTIONS", [])), "wall_s": round(time.time() - t0, 2),
          "violations": len(unlisted) + (1 if exit_code and not unlisted else 0)}
    (VERIF / "evidence").mkdir(exist_ok=True)
    (VERIF / "evidence" / f"{prop}.json").write_text(json.dumps(ev, indent=1, default=str))
    print(f"{prop} {tier} seed={seed}: obligations {lean['discharged']}/{lean['obligations']}, "
          f"evaluations {rep.evaluations}, nontrivial {len(rep.nontrivial_keys)}, "
          f"violations {len(unlisted)}, known {len(printed_known)}, {time.time()-t0:.1f}s", flush=True)
    return exit_code


def replay(prop: str, path: str) -> int:
    mod = importlib.import_module(f"harness.props.{prop.lower()}")
    payload = json.loads(Path(path).read_text())
    if not hasattr(mod, "replay"):
        print("no replay support for", prop)
        return 2
    try:
        ok = mod.replay(payload)
    except ValueError as e:        # a payload without a concrete input (e.g. kind no-failing-input-found): not a verdict
        print(f"replay: {e}")
        return 2
    if isinstance(ok, tuple):       # (holds?, signature of the failure): a recorded finding replays as KNOWN-FINDING, exit 0 — as in the check
        ok, sig = ok
        known, _ = load_findings()
        if not ok and any(k.get("property") == prop and k.get("signature") == sig for k in known):
            print(f"KNOWN-FINDING: property={prop} {sig} (this input reproduces the recorded finding, nothing else)")
            return 0
    print("replay:", "property holds on this input" if ok else "property FAILS on this input")
    return 0 if ok else 1
