"""gloo_run — run jobs on a REAL gloo process group (spawned processes, file:// rendezvous).

Used only in the thorough tier, on a stratified sample (sub-groups and named destinations included), to validate `fakedist`:
whatever the fake transport says about a case (values per rank / mismatch) is
compared with what real processes on real gloo do (values per rank / a rank raises,
aborts with SIGABRT, or hangs until the timeout).

A *job* is a picklable dict
    {"kind": "send_tensors", "tensors": [t_0,…], "group": [ranks]|None, "dst": int|None}
    {"kind": "sync_states",  "states":  [dict_0,…], "group": …, "dst": …}
    {"kind": "toolkit", "entry": "sync_and_compute"|…, "metrics": [m_0|{name:m},…], "group": …}
indexed by GLOBAL rank (entries of ranks outside the group are ignored).  The child
returns `render(value)` (a canonical string, computed by the caller-supplied module-level
function named in job["render"], default `repr`) so that nothing unpicklable crosses processes.

    run_jobs(world_size, jobs) -> {"exit": [code per rank], "results": [[per job] per rank], "timed_out": bool}
result per job and rank: ("ok", rendered) | ("err", ExcType, message) | ("skipped",) | ("absent",)
A child stops at its first failing job (the process group is unusable afterwards).
"""
from __future__ import annotations
import importlib, os, pickle, shutil, sys, tempfile, time, traceback
from datetime import timedelta
from pathlib import Path

VERIF = Path(__file__).resolve().parent.parent
REPO = os.environ.get("TE_REPO", "/repo")


def _resolve(name: str):
    mod, fn = name.rsplit(":", 1)
    return getattr(importlib.import_module(mod), fn)


def run_one_job(job, rank: int, groups: dict):
    """executed inside a rank (real or simulated): returns the raw value."""
    import torch
    from torcheval.metrics import synclib, toolkit
    g = groups.get(tuple(job["group"])) if job.get("group") is not None else None
    kind = job["kind"]
    if kind == "send_tensors":
        return synclib.send_tensors(job["tensors"][rank], group=g, rank=job.get("dst"))
    if kind == "sync_states":
        st = job["states"][rank]
        order = synclib.metrics_traversal_order(st)
        return synclib.sync_states(st, {k: torch.device("cpu") for k in st}, order, process_group=g, rank=job.get("dst"))
    if kind == "toolkit":
        return getattr(toolkit, job["entry"])(job["metrics"][rank], g)
    raise ValueError(kind)


def _child(rank: int, world_size: int, tmp: str, jobs_blob: bytes, timeout_s: float):
    out_path = os.path.join(tmp, f"out_{rank}.pkl")
    results = []

    def flush():
        with open(out_path + ".tmp", "wb") as f:
            pickle.dump(results, f)
        os.replace(out_path + ".tmp", out_path)

    try:
        import logging, warnings
        logging.disable(logging.WARNING)
        warnings.filterwarnings("ignore")
        import torch
        import torch.distributed as dist
        torch.set_num_threads(1)
        jobs = pickle.loads(jobs_blob)
        dist.init_process_group("gloo", init_method=f"file://{tmp}/rdzv", rank=rank, world_size=world_size,
                                timeout=timedelta(seconds=timeout_s))
        groups = {}
        for mem in sorted({tuple(j["group"]) for j in jobs if j.get("group") is not None}):
            groups[mem] = dist.new_group(ranks=list(mem), timeout=timedelta(seconds=timeout_s))   # collective: every rank calls it
        results = [("skipped",)] * len(jobs)
        flush()
        for i, job in enumerate(jobs):
            if job.get("group") is not None and rank not in job["group"]:
                results[i] = ("absent",)
                continue
            render = _resolve(job["render"]) if job.get("render") else repr
            try:
                v = run_one_job(job, rank, groups)
                results[i] = ("ok", render(v))
                flush()
            except BaseException as e:  # noqa: BLE001
                results[i] = ("err", type(e).__name__, str(e)[:300])
                flush()
                break
        flush()
    except BaseException as e:  # noqa: BLE001
        results.append(("infra", type(e).__name__, traceback.format_exc()[-600:]))
        flush()
    finally:
        # no destroy_process_group / barrier: a peer may have aborted
        os._exit(0)


def run_jobs(world_size: int, jobs: list[dict], timeout_s: float = 15.0, join_s: float | None = None) -> dict:
    import torch.multiprocessing as mp
    env_pp = os.environ.get("PYTHONPATH", "")
    parts = [p for p in env_pp.split(os.pathsep) if p]
    for need in (str(VERIF), REPO):
        if need not in parts:
            parts.insert(0, need)
    os.environ["PYTHONPATH"] = os.pathsep.join(parts)
    os.environ.setdefault("GLOO_SOCKET_IFNAME", "lo")
    tmp = tempfile.mkdtemp(prefix="verif_gloo_", dir="/tmp")
    ctx = mp.get_context("spawn")
    blob = pickle.dumps(jobs)
    procs = [ctx.Process(target=_child, args=(r, world_size, tmp, blob, timeout_s), daemon=True) for r in range(world_size)]
    # children must not inherit an unrelated stderr flood (gloo prints its enforce failures there)
    devnull = os.open(os.devnull, os.O_WRONLY)
    saved_err = os.dup(2)
    try:
        os.dup2(devnull, 2)
        for p in procs:
            p.start()
    finally:
        os.dup2(saved_err, 2)
        os.close(saved_err)
        os.close(devnull)
    deadline = time.time() + (join_s if join_s is not None else timeout_s + 25.0)
    timed_out = False
    for p in procs:
        p.join(max(0.1, deadline - time.time()))
    for p in procs:
        if p.is_alive():
            timed_out = True
            p.kill()
            p.join(5)
    results = []
    for r in range(world_size):
        f = os.path.join(tmp, f"out_{r}.pkl")
        try:
            with open(f, "rb") as fh:
                results.append(pickle.load(fh))
        except Exception:  # noqa: BLE001
            results.append(None)
    shutil.rmtree(tmp, ignore_errors=True)
    return {"exit": [p.exitcode for p in procs], "results": results, "timed_out": timed_out}


def run_launches(launches, members_of, timeout_s: float = 15.0, max_workers: int = 4):
    """launches: [(world_size, [job, …])].  Returns, per launch, per job, the pair `(res, j)` to be read with
    `job_status(res, j, members)` / `res["results"][rank][j]`.  A child stops at its first failing job (the process
    group is unusable afterwards), so the jobs that FOLLOW the first failing job of a launch are run again, each alone."""
    from concurrent.futures import ThreadPoolExecutor
    with ThreadPoolExecutor(max_workers=max_workers) as ex:
        first = list(ex.map(lambda wb: run_jobs(wb[0], wb[1], timeout_s=timeout_s), launches))
        out, again = [], []
        for li, ((world, jobs), res) in enumerate(zip(launches, first)):
            row = []
            failed_at = None
            for j, job in enumerate(jobs):
                if failed_at is None:
                    row.append((res, j))
                    if job_status(res, j, members_of(job, world)) != "ok":
                        failed_at = j
                else:
                    row.append(None)
                    again.append((li, j, world, job))
            out.append(row)
        redo = list(ex.map(lambda x: run_jobs(x[2], [x[3]], timeout_s=timeout_s), again))
    for (li, j, _w, _job), res in zip(again, redo):
        out[li][j] = (res, 0)
    return out


def job_status(res: dict, j: int, members) -> str:
    """'ok' when every member finished job j; 'failed' when any member raised / aborted / hung."""
    for r in members:
        rr = res["results"][r]
        if rr is None or j >= len(rr) or rr[j][0] != "ok":
            return "failed"
    return "ok"


if __name__ == "__main__":   # smoke test: python -m harness.gloo_run
    import torch
    jobs = [{"kind": "send_tensors", "tensors": [torch.ones(1, 2), torch.zeros(2, 3), torch.zeros(0, 1)], "group": None, "dst": None},
            # sub-group [1, 2] of a world of 3: destination named by its GROUP rank (1 = global rank 2)
            {"kind": "send_tensors", "tensors": [None, torch.ones(1), torch.full((2,), 2.0)], "group": [1, 2], "dst": 1},
            # sub-group with one empty list: dtype/shape broadcast from group rank 1 (global 2); then all-empty; then sized by the group
            {"kind": "sync_states", "states": [None, {"m": {"l": []}}, {"m": {"l": [torch.ones(2)]}}], "group": [1, 2], "dst": None},
            {"kind": "sync_states", "states": [None, {"m": {"l": [], "n": 4}}, {"m": {"l": [], "n": 5}}], "group": [1, 2], "dst": 0},
            # still a genuine finding: 0-dim on one rank, 1-dim on the others (the last job: it kills the process group)
            {"kind": "send_tensors", "tensors": [torch.tensor(0.), torch.zeros(2), torch.zeros(2)], "group": None, "dst": None}]
    t0 = time.time()
    res = run_jobs(3, jobs)
    for r, rr in enumerate(res["results"]):
        print("rank", r, "exit", res["exit"][r], rr)
    print("timed_out", res["timed_out"], round(time.time() - t0, 1), "s")
