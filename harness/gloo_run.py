"""gloo_run — run jobs on a REAL gloo process group (spawned processes, file:// rendezvous).

Used only in the thorough tier, on a stratified sample, to validate `fakedist`:
whatever the fake transport says about a case (values per rank / mismatch) is
compared with what real processes on real gloo do (values per rank / a rank raises,
aborts with SIGABRT, or hangs until the timeout).

A *job* is a picklable dict
    {"kind": "send_tensors", "tensors": [t_0,…], "group": [ranks]|None, "dst": int|None}
    {"kind": "sync_states",  "states":  [dict_0,…], "group": …, "dst": …}
    {"kind": "toolkit", "entry": "sync_and_compute"|…, "metrics": [m_0|{name:m},…], "group": …}
indexed by GLOBAL rank (entries of ranks outside the group are ignored).  The child
returns `render(value)` (a canonical string, computed by the caller-supplied module-level
function named in job["render"], default `repr`) so that nothing unpicklable crosses processes.

    run_jobs(world_size, jobs) -> {"exit": [code per rank], "results": [[per job] per rank], "timed_out": bool}
result per job and rank: ("ok", rendered) | ("err", ExcType, message) | ("skipped",) | ("absent",)
A child stops at its first failing job (the process group is unusable afterwards).
"""
from __future__ import annotations
import importlib, os, pickle, shutil, sys, tempfile, time, traceback
from datetime import timedelta
from pathlib import Path

VERIF = Path(__file__).resolve().parent.parent
REPO = os.environ.get("TE_REPO", "/repo")


def _resolve(name: str):
    mod, fn = name.rsplit(":", 1)
    return getattr(importlib.import_module(mod), fn)


def run_one_job(job, rank: int, groups: dict):
    """executed inside a rank (real or simulated): returns the raw value."""
    import torch
    from torcheval.metrics import synclib, toolkit
    g = groups.get(tuple(job["group"])) if job.get("group") is not None else None
    kind = job["kind"]
    if kind == "send_tensors":
        return synclib.send_tensors(job["tensors"][rank], group=g, rank=job.get("dst"))
    if kind == "sync_states":
        st = job["states"][rank]
        order = synclib.metrics_traversal_order(st)
        return synclib.sync_states(st, {k: torch.device("cpu") for k in st}, order, process_group=g, rank=job.get("dst"))
    if kind == "toolkit":
        return getattr(toolkit, job["entry"])(job["metrics"][rank], g)
    raise ValueError(kind)


def _child(rank: int, world_size: int, tmp: str, jobs_blob: bytes, timeout_s: float):
    out_path = os.path.join(tmp, f"out_{rank}.pkl")
    results = []

    def flush():
        with open(out_path + ".tmp", "wb") as f:
            pickle.dump(results, f)
        os.replace(out_path + ".tmp", out_path)

    try:
        import logging, warnings
        logging.disable(logging.WARNING)
        warnings.filterwarnings("ignore")
        import torch
        import torch.distributed as dist
        torch.set_num_threads(1)
        jobs = pickle.loads(jobs_blob)
        dist.init_process_group("gloo", init_method=f"file://{tmp}/rdzv", rank=rank, world_size=world_size,
                                timeout=timedelta(seconds=timeout_s))
        groups = {}
        for mem in sorted({tuple(j["group"]) for j in jobs if j.get("group") is not None}):
            groups[mem] = dist.new_group(ranks=list(mem), timeout=timedelta(seconds=timeout_s))   # collective: every rank calls it
        results = [("skipped",)] * len(jobs)
        flush()
        for i, job in enumerate(jobs):
            if job.get("group") is not None and rank not in job["group"]:
                results[i] = ("absent",)
                continue
            render = _resolve(job["render"]) if job.get("render") else repr
            try:
                v = run_one_job(job, rank, groups)
                results[i] = ("ok", render(v))
                flush()
            except BaseException as e:  # noqa: BLE001
                results[i] = ("err", type(e).__name__, str(e)[:300])
                flush()
                break
        flush()
    except BaseException as e:  # noqa: BLE001
        results.append(("infra", type(e).__name__, traceback.format_exc()[-600:]))
        flush()
    finally:
        # no destroy_process_group / barrier: a peer may have aborted
        os._exit(0)


def run_jobs(world_size: int, jobs: list[dict], timeout_s: float = 15.0, join_s: float | None = None) -> dict:
    import torch.multiprocessing as mp
    env_pp = os.environ.get("PYTHONPATH", "")
    parts = [p for p in env_pp.split(os.pathsep) if p]
    for need in (str(VERIF), REPO):
        if need not in parts:
            parts.insert(0, need)
    os.environ["PYTHONPATH"] = os.pathsep.join(parts)
    os.environ.setdefault("GLOO_SOCKET_IFNAME", "lo")
    tmp = tempfile.mkdtemp(prefix="verif_gloo_", dir="/tmp")
    ctx = mp.get_context("spawn")
    blob = pickle.dumps(jobs)
    procs = [ctx.Process(target=_child, args=(r, world_size, tmp, blob, timeout_s), daemon=True) for r in range(world_size)]
    # children must not inherit an unrelated stderr flood (gloo prints its enforce failures there)
    devnull = os.open(os.devnull, os.O_WRONLY)
    saved_err = os.dup(2)
    try:
        os.dup2(devnull, 2)
        for p in procs:
            p.start()
    finally:
        os.dup2(saved_err, 2)
        os.close(saved_err)
        os.close(devnull)
    deadline = time.time() + (join_s if join_s is not None else timeout_s + 25.0)
    timed_out = False
    for p in procs:
        p.join(max(0.1, deadline - time.time()))
    for p in procs:
        if p.is_alive():
            timed_out = True
            p.kill()
            p.join(5)
    results = []
    for r in range(world_size):
        f = os.path.join(tmp, f"out_{r}.pkl")
        try:
            with open(f, "rb") as fh:
                results.append(pickle.load(fh))
        except Exception:  # noqa: BLE001
            results.append(None)
    shutil.rmtree(tmp, ignore_errors=True)
    return {"exit": [p.exitcode for p in procs], "results": results, "timed_out": timed_out}


def job_status(res: dict, j: int, members) -> str:
    """'ok' when every member finished job j; 'failed' when any member raised / aborted / hung."""
    for r in members:
        rr = res["results"][r]
        if rr is None or j >= len(rr) or rr[j][0] != "ok":
            return "failed"
    return "ok"


if __name__ == "__main__":   # smoke test: python -m harness.gloo_run
    import torch
    jobs = [{"kind": "send_tensors", "tensors": [torch.ones(1, 2), torch.zeros(2, 3), torch.zeros(0, 1)], "group": None, "dst": None},
            {"kind": "send_tensors", "tensors": [torch.tensor(0.), torch.zeros(2), torch.zeros(2)], "group": None, "dst": None}]
    t0 = time.time()
    print(run_jobs(3, jobs), round(time.time() - t0, 1), "s")
