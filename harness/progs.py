"""Operation programs over several instances of one metric class (the `Hist`
trees of TE.Model.ClassSM, linearised), run on real objects and on the Lean model."""
from __future__ import annotations
import copy, inspect, pickle
import torch
from .common import Rng, enc_val, dec_out, run_driver
from .registry import Spec, Batch, new_metric, public_cfg
from .engine import observe, try_update, try_merge, obs_json, same_obs
from torcheval.metrics.toolkit import clone_metric, reset_metrics


def arg_names(spec: Spec, cfg) -> list[str]:
    m = new_metric(spec, cfg)
    return [p for p in inspect.signature(m.update).parameters]


def enc_batch(names: list[str], b: Batch) -> str:
    parts = []
    for n, a in zip(names, b.args):
        parts.append(f"{n}={enc_val(a)}")
    for k, a in b.kwargs.items():
        parts.append(f"{k}={enc_val(a)}")
    return " ".join(parts)


def enc_cfg(cfg) -> str:
    out = []
    for k, v in public_cfg(cfg).items():
        if isinstance(v, list):
            v = torch.tensor(v, dtype=torch.float32)
        out.append(f"{k}={enc_val(v)}")
    return " ".join(out)


class Prog:
    """ops: ('u',i,Batch) ('m',i,[j…]) ('o',i) ('r',i) ('c',i,j) ('sd',i,j) ('pk',i,j) ('dc',i,j)"""

    def __init__(self, spec: Spec, cfg: dict):
        self.spec, self.cfg, self.ops = spec, cfg, []
        self.flat: dict[int, list[Batch]] = {}

    def f(self, i):
        return self.flat.setdefault(i, [])

    def u(self, i, b):
        self.ops.append(("u", i, b)); self.f(i).append(b)

    def m(self, i, js):
        self.ops.append(("m", i, list(js)))
        add = []
        for j in js:
            add += self.f(j)
        self.f(i).extend(add)

    def o(self, i):
        self.ops.append(("o", i)); self.f(i)

    def r(self, i):
        self.ops.append(("r", i)); self.flat[i] = []

    def c(self, i, j, how="c"):
        self.ops.append((how, i, j)); self.flat[j] = list(self.f(i))

    def describe(self):
        out = []
        for op in self.ops:
            if op[0] == "u":
                out.append(["u", op[1], op[2].describe()])
            else:
                out.append(list(op))
        return {"class": self.spec.name, "cfg": public_cfg(self.cfg), "ops": out}

    @classmethod
    def from_describe(cls, d: dict) -> "Prog":
        """inverse of `describe()` (also after a JSON round trip): the class is resolved through the registry, the
        configuration is the public one (all a constructor sees); `flat` is rebuilt by replaying the ops."""
        from .registry import BY_NAME
        p = cls(BY_NAME[d["class"]], dict(d["cfg"]))
        for op in d["ops"]:
            k = op[0]
            if k == "u":
                p.u(op[1], Batch.from_describe(op[2]))
            elif k == "m":
                p.m(op[1], list(op[2]))
            elif k == "o":
                p.o(op[1])
            elif k == "r":
                p.r(op[1])
            else:
                p.c(op[1], op[2], how=k)
        return p

    def to_line(self, names=None) -> str:
        names = names or arg_names(self.spec, self.cfg)
        parts = [f"prog {self.spec.model} {enc_cfg(self.cfg)}"]
        for op in self.ops:
            if op[0] == "u":
                parts.append(f"u {op[1]} {enc_batch(names, op[2])}")
            elif op[0] == "m":
                parts.append(f"m {op[1]} {','.join(map(str, op[2]))}" if op[2] else f"m {op[1]}")
            elif op[0] in ("o", "r"):
                parts.append(f"{op[0]} {op[1]}")
            else:
                parts.append(f"c {op[1]} {op[2]}")
        return " | ".join(parts)


def run_real(p: Prog, keep=False):
    """returns list of per-op results: None (ok) | (kind,msg) for u/m/r/c; observation for o."""
    inst = {}

    def get(i):
        if i not in inst:
            inst[i] = new_metric(p.spec, p.cfg)
        return inst[i]
    res = []
    for op in p.ops:
        k = op[0]
        if k == "u":
            res.append(try_update(get(op[1]), op[2]))
        elif k == "m":
            res.append(try_merge(get(op[1]), [get(j) for j in op[2]]))
        elif k == "o":
            res.append(observe(get(op[1])))
        elif k == "r":
            get(op[1]).reset(); res.append(None)
        elif k == "c":
            inst[op[2]] = clone_metric(get(op[1])); res.append(None)
        elif k == "dc":
            inst[op[2]] = copy.deepcopy(get(op[1])); res.append(None)
        elif k == "pk":
            inst[op[2]] = pickle.loads(pickle.dumps(get(op[1]))); res.append(None)
        elif k == "sd":
            n = new_metric(p.spec, p.cfg)
            n.load_state_dict(get(op[1]).state_dict())
            inst[op[2]] = n; res.append(None)
    return (res, inst) if keep else res


def model_results(progs: list[Prog]):
    names_cache = {}
    lines = []
    for p in progs:
        key = (p.spec.name, repr(sorted(public_cfg(p.cfg).items(), key=str)))
        if key not in names_cache:
            names_cache[key] = arg_names(p.spec, p.cfg)
        lines.append(p.to_line(names_cache[key]))
    outs = run_driver(lines)
    return [[x.strip() for x in o.split(" | ")] for o in outs], lines


def compare_with_model(p: Prog, real_res, model_res, tol):
    """None or (op index, message)."""
    from .common import outcomes_agree
    if len(model_res) != len(p.ops):
        return (-1, f"model returned {len(model_res)} results for {len(p.ops)} ops: {model_res[:3]}")
    for k, (op, r, m) in enumerate(zip(p.ops, real_res, model_res)):
        if m.startswith("bad"):
            return (k, f"driver: {m}")
        if op[0] == "o":
            real = ("ok", r[1]) if r[0] == "ok" else ("err", r[1], r[2])
            msg = outcomes_agree(real, dec_out(m), tol=tol, check_shape=True)
            if msg:
                return (k, msg)
        else:
            rm = "ok" if r is None else "err"
            mm = "ok" if m.startswith("ok") else "err"
            if rm != mm:
                return (k, f"op {op[0]}: real {'ok' if r is None else r}, model {m}")
    return None
