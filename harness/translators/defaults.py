"""(T) defaults translator (C03, "Constructors"): for every exported metric class
(torcheval.metrics.__all__ + statistical.Wasserstein1D; FrechetInceptionDistance,
StructuralSimilarity and FrechetAudioDistance need external models and are skipped)
  * the parameter defaults of `__init__` from its AST (ints, floats as exact rationals,
    strings, None, bool; a parameter without default is `required`),
  * which `_*_param_check` helpers `__init__` calls and how their arguments are bound
    (constructor parameter / constant / derived expression),
  * the defaults of the functional twin's signature (pairing by name convention,
    cross-checked against harness/registry.py where the registry has a twin),
  * per (class, helper) one Lean term: the GENERATED param check of TE/Gen/Shapes.lean
    applied to the class's own defaults (required parameters take the smallest documented-valid
    value).  Statically bound arguments are the defaults themselves; derived arguments
    (`threshold` tensors built from an int) and value oracles are resolved by running the real
    constructor once with the helper instrumented ("static first, dynamic second").
Regenerates lean/TE/Gen/Defaults.lean (only when its text changes)."""
from __future__ import annotations
import ast, inspect, re, sys, textwrap
from fractions import Fraction
import torch
from ..common import LEAN
from . import shapes as shapes_tr

SKIP = {"Metric", "functional", "FrechetInceptionDistance", "StructuralSimilarity", "FrechetAudioDistance"}
# smallest documented-valid value of the parameters that have no default
REQUIRED = {"num_classes": 2, "num_labels": 2, "min_precision": 0.5, "n_gram": 1}
TWIN_OVERRIDE = {"PeakSignalNoiseRatio": "peak_signal_noise_ratio", "Wasserstein1D": "wasserstein_1d", "BLEUScore": "bleu_score",
                 "AUC": "auc", "R2Score": "r2_score", "TopKMultilabelAccuracy": "topk_multilabel_accuracy"}
NOT_PARAMS = {"self", "device"}


def classes():
    import torcheval.metrics as M
    from torcheval.metrics.statistical import Wasserstein1D
    out = []
    for n in sorted(set(M.__all__) | {"Wasserstein1D"}):
        if n in SKIP:
            continue
        c = getattr(M, n, None) if n != "Wasserstein1D" else Wasserstein1D
        if inspect.isclass(c):
            out.append((n, c))
    return out


def snake(name: str) -> str:
    s = re.sub(r"([A-Z]+)([A-Z][a-z])", r"\1_\2", name)
    s = re.sub(r"([a-z0-9])([A-Z])", r"\1_\2", s)
    return s.lower()


def twin_of(name: str):
    import torcheval.metrics.functional as F
    from torcheval.metrics.functional.statistical.wasserstein import wasserstein_1d
    base = name[len("Windowed"):] if name.startswith("Windowed") else name
    fn = TWIN_OVERRIDE.get(base, snake(base))
    if fn == "wasserstein_1d":
        return fn, wasserstein_1d
    f = getattr(F, fn, None)
    return (fn, f) if inspect.isfunction(f) else (None, None)


def fn_def(obj):
    try:
        src = textwrap.dedent(inspect.getsource(obj))
    except (OSError, TypeError):
        return None
    for n in ast.parse(src).body:
        if isinstance(n, (ast.FunctionDef, ast.AsyncFunctionDef)):
            return n
    return None


def dval(node, glob=None):
    """default-value AST -> ('int', n) | ('rat', num, den) | ('str', s) | ('none',) | ('bool', b) | ('other', src);
    a module-level constant (DEFAULT_NUM_THRESHOLD) is resolved in the function's globals"""
    if node is None:
        return ("required",)
    if isinstance(node, ast.Name) and glob is not None and isinstance(glob.get(node.id), (int, float, str, bool, type(None))):
        return pyval(glob[node.id])
    try:
        v = ast.literal_eval(node)
    except Exception:  # noqa: BLE001
        return ("other", ast.unparse(node))
    return pyval(v)


def pyval(v):
    if v is None:
        return ("none",)
    if isinstance(v, bool):
        return ("bool", v)
    if isinstance(v, int):
        return ("int", v)
    if isinstance(v, float):
        f = Fraction(v)
        return ("rat", f.numerator, f.denominator)
    if isinstance(v, str):
        return ("str", v)
    return ("other", repr(v))


def lean_dval(d) -> str:
    k = d[0]
    if k == "int":
        return f".int ({d[1]})"
    if k == "rat":
        return f".rat ({d[1]}) {d[2]}"
    if k == "str":
        return f'.str "{d[1]}"'
    if k == "bool":
        return f".bool {'true' if d[1] else 'false'}"
    if k == "other":
        return '.other "%s"' % d[1].replace('"', "'")
    return "." + k


def signature_defaults(fd: ast.FunctionDef, glob=None):
    a = fd.args
    pos = a.posonlyargs + a.args
    defaults = [None] * (len(pos) - len(a.defaults)) + list(a.defaults)
    out = []
    for arg, d in list(zip(pos, defaults)) + list(zip(a.kwonlyargs, a.kw_defaults)):
        if arg.arg in NOT_PARAMS:
            continue
        out.append((arg.arg, dval(d, glob), ast.unparse(arg.annotation) if arg.annotation is not None else ""))
    return out


def init_of(cls):
    for k in cls.__mro__:
        if k.__module__.startswith("torcheval") and "__init__" in k.__dict__:
            return k.__dict__["__init__"]
    return None


class Row:
    def __init__(self, name):
        self.name = name
        self.params = []          # (param, dval, annotation)
        self.checks = []          # (helper name, [(helper param, binding kind, text)])
        self.terms = []           # (helper name, lean term | None, note)
        self.twin = None
        self.twin_params = []     # (param, class dval, functional dval)
        self.required = []        # (param, dval chosen)
        self.ctor_kwargs = {}


def param_check_calls(fd: ast.FunctionDef, helper_names):
    calls = []
    for n in ast.walk(fd):
        if isinstance(n, ast.Call) and isinstance(n.func, ast.Name) and n.func.id in helper_names and n.func.id.endswith("_param_check"):
            calls.append(n)
    calls.sort(key=lambda c: (c.lineno, c.col_offset))
    return calls


class MiniSpy:
    """records (bound arguments, oracle values) of every param-check helper call while a constructor runs"""

    def __init__(self, helpers):
        self.by_name = {h.name: h for h in helpers.values() if h.translated and h.name.endswith("_param_check")}
        self.records = []
        self.orig, self.instr, self.patched = {}, {}, []
        for h in self.by_name.values():
            self.orig[h.name] = getattr(sys.modules[h.module], h.name)
            try:
                self.instr[h.name] = shapes_tr.instrumented(h)
            except Exception:  # noqa: BLE001
                self.instr[h.name] = None
        for h in self.by_name.values():
            w = self._wrap(h)
            for mname, mod in list(sys.modules.items()):
                if mname.startswith("torcheval") and getattr(mod, h.name, None) is self.orig[h.name]:
                    setattr(mod, h.name, w)
                    self.patched.append((mod, h.name))

    def _wrap(self, h):
        def w(*a, **kw):
            orig = self.orig[h.name]
            bound = None
            try:
                ba = inspect.signature(orig).bind(*a, **kw)
                ba.apply_defaults()
                bound = dict(ba.arguments)
            except TypeError:
                pass
            oracles = {}
            ins = self.instr.get(h.name)
            if ins is not None and h.oracles:
                f, rec = ins
                rec.clear()
                try:
                    f(*a, **kw)
                except Exception:  # noqa: BLE001
                    pass
                rec.pop("__undefined__", None)
                oracles = dict(rec)
            self.records.append((h.name, bound, oracles))
            return orig(*a, **kw)
        w.__name__ = h.name
        return w

    def close(self):
        for mod, name in self.patched:
            setattr(mod, name, self.orig[name])
        self.patched = []


def lean_lit(kind: str, v):
    """Lean literal of a Python value for a helper parameter of the given kind (None: not representable)"""
    if kind == "tensor":
        return "[" + ", ".join(str(d) for d in v.shape) + "]" if isinstance(v, torch.Tensor) else None
    if kind == "otensor":
        return "(some [" + ", ".join(str(d) for d in v.shape) + "])" if isinstance(v, torch.Tensor) else "none"
    if kind == "int":
        return f"({v})" if isinstance(v, int) and not isinstance(v, bool) else None
    if kind == "oint":
        if v is None:
            return "none"
        return f"(some ({v}))" if isinstance(v, int) and not isinstance(v, bool) else None
    if kind == "str":
        return '"%s"' % v if isinstance(v, str) else None
    if kind == "ostr":
        if v is None:
            return "none"
        return '(some "%s")' % v if isinstance(v, str) else None
    if kind == "bool":
        return ("true" if v else "false") if isinstance(v, bool) else None
    return None


def facts():
    helpers, _ = shapes_tr.analyse()
    by_name = {h.name: h for h in helpers.values()}
    rows = []
    spy = MiniSpy(helpers)
    try:
        for name, cls in classes():
            r = Row(name)
            init = init_of(cls)
            fd = fn_def(init) if init is not None else None
            if fd is None:
                continue
            r.params = signature_defaults(fd, getattr(init, "__globals__", None))
            for p, d, _ann in r.params:
                if d == ("required",):
                    if p not in REQUIRED:
                        r.required.append((p, ("other", "no value chosen")))
                        continue
                    r.required.append((p, pyval(REQUIRED[p])))
                    r.ctor_kwargs[p] = REQUIRED[p]
            static_env = {p: d for p, d, _ in r.params}
            for p, d in r.required:
                static_env[p] = d
            calls = param_check_calls(fd, set(by_name))
            # dynamic: run the real constructor with the helper spied
            spy.records.clear()
            r.ctor_error = None
            try:
                cls(**r.ctor_kwargs)
            except Exception as e:  # noqa: BLE001
                r.ctor_error = repr(e)[:160]
            dyn = list(spy.records)
            for call in calls:
                h = by_name[call.func.id]
                bindings, static_vals = [], {}
                hps = h.params
                bound_nodes = {}
                for i, a in enumerate(call.args):
                    if i < len(hps):
                        bound_nodes[hps[i].name] = a
                for kw in call.keywords:
                    bound_nodes[kw.arg] = kw.value
                for hp in hps:
                    nd = bound_nodes.get(hp.name)
                    if nd is None:
                        bindings.append((hp.name, "default", repr(hp.default)))
                        static_vals[hp.name] = pyval(hp.default)
                    elif isinstance(nd, ast.Name) and nd.id in static_env and not _rebound(fd, nd.id, call):
                        bindings.append((hp.name, "param", nd.id))
                        static_vals[hp.name] = static_env[nd.id]
                    elif isinstance(nd, ast.Constant):
                        bindings.append((hp.name, "const", repr(nd.value)))
                        static_vals[hp.name] = pyval(nd.value)
                    else:
                        bindings.append((hp.name, "derived", ast.unparse(nd)))
                r.checks.append((h.name, bindings))
                # the matching dynamic record (same helper, in call order)
                rec = next((d for d in dyn if d[0] == h.name), None)
                if rec is not None:
                    dyn.remove(rec)
                term, note = build_term(h, static_vals, rec)
                r.terms.append((h.name, term, note))
            # param checks reached only through helper functions / base classes (not in __init__'s own AST)
            for hname, bound, orc in dyn:
                h = by_name[hname]
                term, note = build_term(h, {}, (hname, bound, orc))
                r.checks.append((hname, [(hp.name, "derived", "(called indirectly)") for hp in h.params]))
                r.terms.append((hname, term, note))
            fn_name, fn = twin_of(name)
            if fn is not None:
                r.twin = fn_name
                ffd = fn_def(inspect.unwrap(fn))
                fdefs = {p: d for p, d, _ in signature_defaults(ffd, getattr(inspect.unwrap(fn), "__globals__", None))} if ffd is not None else {}
                for p, d, _ in r.params:
                    if p in fdefs:
                        r.twin_params.append((p, d, fdefs[p]))
            rows.append(r)
    finally:
        spy.close()
    return rows


def _rebound(fd, name, call) -> bool:
    """is the constructor parameter re-assigned before this call (e.g. threshold = _create_threshold_tensor(threshold))?"""
    for n in ast.walk(fd):
        if isinstance(n, (ast.Assign, ast.AugAssign, ast.AnnAssign)) and n.lineno < call.lineno:
            tgts = n.targets if isinstance(n, ast.Assign) else [n.target]
            if any(isinstance(t, ast.Name) and t.id == name for t in tgts):
                return True
    return False


def build_term(h, static_vals: dict, rec):
    """Lean application of the generated check to the default values"""
    args, notes = [], []
    dyn_bound = rec[1] if rec is not None and rec[1] is not None else {}
    for p in h.lean_params():
        lit = None
        if p.name in static_vals:
            d = static_vals[p.name]
            py = {"int": lambda: d[1], "str": lambda: d[1], "bool": lambda: d[1], "none": lambda: None}.get(d[0])
            if py is not None:
                lit = lean_lit(p.kind, py())
                if p.name in dyn_bound and lean_lit(p.kind, dyn_bound[p.name]) != lit:
                    notes.append(f"{p.name}: static default {d} but the running constructor passed {dyn_bound[p.name]!r}")
                    lit = lean_lit(p.kind, dyn_bound[p.name])
        if lit is None and p.name in dyn_bound:
            lit = lean_lit(p.kind, dyn_bound[p.name])
        if lit is None:
            return None, f"argument {p.name} of {h.name} could not be resolved"
        args.append(lit)
    orc = rec[2] if rec is not None else {}
    for o, _src, _n in h.oracles:
        if rec is None:
            return None, f"oracle {o} of {h.name} could not be evaluated (constructor did not reach the helper)"
        args.append("true" if orc.get(o) else "false")
    return " ".join([h.lean_name] + args), "; ".join(notes)


def emit(rows) -> str:
    out = ["/- GENERATED by harness/translators/defaults.py from /repo's working tree — do not edit.",
           "   Constructor defaults of every exported metric class, the param checks `__init__` calls, the generated",
           "   param check (TE/Gen/Shapes.lean) applied to those defaults, and the functional twin's defaults. -/",
           "import TE.Gen.Shapes", "namespace TE.Gen", "open TE TE.Shape", "",
           "/-- a default value: exact (floats as the rational they denote) -/",
           "inductive DVal where",
           "  | int (n : Int) | rat (num : Int) (den : Nat) | str (s : String) | none | bool (b : Bool)",
           "  | required | other (src : String)",
           "deriving DecidableEq, Repr", "",
           "/-- (class, [(constructor parameter, default)]) — `device` omitted -/",
           "def ctorDefaults : List (String × List (String × DVal)) := ["]
    out.append(",\n".join('  ("%s", [%s])' % (r.name, ", ".join(f'("{p}", {lean_dval(d)})' for p, d, _ in r.params)) for r in rows))
    out += ["]", "", "/-- value used for a parameter that has no default: the smallest documented-valid one -/",
            "def requiredChoice : List (String × String × DVal) := ["]
    out.append(",\n".join(f'  ("{r.name}", "{p}", {lean_dval(d)})' for r in rows for p, d in r.required))
    out += ["]", "", "/-- (class, param-check helper called by `__init__`, [(helper parameter, how it is bound, to what)]) -/",
            "def ctorChecks : List (String × String × List (String × String × String)) := ["]
    out.append(",\n".join('  ("%s", "%s", [%s])' % (r.name, hn, ", ".join('("%s", "%s", "%s")' % (a, k, t.replace('"', "'")) for a, k, t in b))
                          for r in rows for hn, b in r.checks))
    out += ["]", "", "/-- the generated param check evaluated on the class's own defaults -/",
            "def defaultVerdicts : List (String × String × Res) := ["]
    out.append(",\n".join(f'  ("{r.name}", "{hn}", {term if term is not None else ".err .other"})' for r in rows for hn, term, _ in r.terms))
    out += ["]", "", "/-- (class, helper) whose arguments could not be resolved (their verdict above is `.err .other`) -/",
            "def unresolvedChecks : List (String × String × String) := ["]
    out.append(",\n".join('  ("%s", "%s", "%s")' % (r.name, hn, note.replace('"', "'")) for r in rows for hn, term, note in r.terms if term is None))
    out += ["]", "", "/-- (class, functional twin, [(shared parameter, class default, functional default)]) -/",
            "def twinDefaults : List (String × String × List (String × DVal × DVal)) := ["]
    out.append(",\n".join('  ("%s", "%s", [%s])' % (r.name, r.twin, ", ".join(f'("{p}", {lean_dval(a)}, {lean_dval(b)})' for p, a, b in r.twin_params))
                          for r in rows if r.twin))
    out += ["]", "", "/-- shared parameters with a default on both sides whose class default differs from the functional's -/",
            "def defaultMismatches : List (String × String × String) :=",
            "  twinDefaults.flatMap fun (c, f, ps) =>",
            "    (ps.filter fun (_, a, b) => a != .required && b != .required && a != b).map fun (p, _, _) => (c, f, p)",
            "", "end TE.Gen", ""]
    return "\n".join(out)


_CACHE = None


def analyse(force=False):
    global _CACHE
    if _CACHE is None or force:
        _CACHE = facts()
    return _CACHE


def generate(rep=None):
    shapes_tr.generate(rep)                       # the terms below apply functions of TE/Gen/Shapes.lean
    rows = analyse(force=True)
    new = emit(rows)
    p = LEAN / "TE" / "Gen" / "Defaults.lean"
    if not p.exists() or p.read_text() != new:
        p.write_text(new)
    if rep is not None:
        mism = [(r.name, r.twin, q, a, b) for r in rows for q, a, b in r.twin_params if a != b and ("required",) not in (a, b)]
        rep.notes.append(f"defaults translator: {len(rows)} classes, {sum(len(r.terms) for r in rows)} (class, param check) terms, "
                         f"unresolved: {[(r.name, hn, n) for r in rows for hn, t, n in r.terms if t is None]}, "
                         f"{sum(1 for r in rows if r.twin)} functional twins, default mismatches: {mism}")
    return rows


if __name__ == "__main__":
    for r in generate():
        print(r.name, [(p, d) for p, d, _ in r.params], "| twin:", r.twin, [(p, a, b) for p, a, b in r.twin_params if a != b], "| err:", r.ctor_error)
        for hn, term, note in r.terms:
            print("    ", term, "  --", note)
