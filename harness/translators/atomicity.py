"""(T) atomicity translator: statement order of every class's update(): does any validation
(raise statement, call of a `_*check*` helper or of a functional `_*_update*` helper, which
validate their input) occur after the first write to the object's state?
A state write is an assignment / augmented assignment / in-place method call whose target is a registered
state `self.<f>` (or an entry of it) — directly or through a LOCAL that holds the state object: `c = self.f`,
`cs = (self.f, self.g)`, `for c, d in zip(cs, deltas): c[i] += d` write the states just as the unrolled
`self.f[i] += ...; self.g[i] += ...` do (`aliases`).
Regenerates lean/TE/Gen/Atomicity.lean each run."""
from __future__ import annotations
import ast
from ..common import LEAN
from ..registry import SPECS, new_metric, fresh_cfg
from .states import class_methods

# builtins whose result contains / iterates over the very objects they are given
CONTAINER_CALLS = {"zip", "enumerate", "reversed", "tuple", "list", "iter", "sorted"}
INPLACE_METHODS = ("append", "extend", "add_", "copy_")


def _self_reg(x, regs):
    return isinstance(x, ast.Attribute) and isinstance(x.value, ast.Name) and x.value.id == "self" and (x.attr in regs or x.attr == "next_inserted")


def holds_state(e, regs, aliases):
    """can the value of expression `e` be (a container of / a view of) the object of a registered state?"""
    if _self_reg(e, regs):
        return True
    if isinstance(e, ast.Name):
        return e.id in aliases
    if isinstance(e, (ast.Tuple, ast.List)):
        return any(holds_state(x, regs, aliases) for x in e.elts)
    if isinstance(e, ast.Starred):
        return holds_state(e.value, regs, aliases)
    if isinstance(e, ast.Subscript):
        return holds_state(e.value, regs, aliases)
    if isinstance(e, ast.IfExp):
        return holds_state(e.body, regs, aliases) or holds_state(e.orelse, regs, aliases)
    if isinstance(e, ast.Call) and isinstance(e.func, ast.Name):
        if e.func.id in CONTAINER_CALLS:
            return any(holds_state(a, regs, aliases) for a in e.args)
        if e.func.id == "getattr" and e.args and isinstance(e.args[0], ast.Name) and e.args[0].id == "self":
            return True
    return False


def aliases(bodies, regs):
    """names of locals that may hold (a container of) a state object somewhere in the given statement lists
    (flow-insensitive fixpoint over assignments and loop targets)."""
    al = set()
    nodes = [n for b in bodies for s in b for n in ast.walk(s)]
    changed = True
    while changed:
        changed = False
        for n in nodes:
            pairs = []
            if isinstance(n, ast.Assign):
                pairs = [(t, n.value) for t in n.targets]
            elif isinstance(n, ast.AnnAssign) and n.value is not None:
                pairs = [(n.target, n.value)]
            elif isinstance(n, (ast.For, ast.comprehension)):
                pairs = [(n.target, n.iter)]
            elif isinstance(n, ast.NamedExpr):
                pairs = [(n.target, n.value)]
            for tgt, val in pairs:
                if holds_state(val, regs, al):
                    for x in ast.walk(tgt):
                        if isinstance(x, ast.Name) and x.id != "self" and x.id not in al:
                            al.add(x.id)
                            changed = True
    return al


def is_state_write(node, regs, al=frozenset()):
    tgts = []
    if isinstance(node, ast.Assign):
        tgts = node.targets
    elif isinstance(node, ast.AugAssign):
        tgts = [node.target]
    for t in tgts:
        for tt in ast.walk(t):
            if _self_reg(tt, regs):
                return True
            # an entry of a state object reached through a local (`c[i] = ..`, `c[i] += ..`)
            if isinstance(tt, ast.Subscript) and isinstance(tt.value, ast.Name) and tt.value.id in al:
                return True
    if isinstance(node, ast.AugAssign) and isinstance(node.target, ast.Name) and node.target.id in al:
        return True                     # `c += x` on a tensor / list is in place
    if isinstance(node, ast.Expr) and isinstance(node.value, ast.Call):
        f = node.value.func
        if isinstance(f, ast.Attribute) and f.attr in INPLACE_METHODS and any(
                (isinstance(x, ast.Attribute) and isinstance(x.value, ast.Name) and x.value.id == "self" and x.attr in regs)
                or (isinstance(x, ast.Name) and x.id in al) for x in ast.walk(f.value)):
            return True
        if isinstance(f, ast.Name) and f.id == "setattr":
            return True
    return False


def validates(node):
    for x in ast.walk(node):
        if isinstance(x, ast.Raise):
            return True
        if isinstance(x, ast.Call):
            f = x.func
            name = f.id if isinstance(f, ast.Name) else (f.attr if isinstance(f, ast.Attribute) else "")
            if "check" in name or (name.startswith("_") and "update" in name):
                return True
    return False


def linear(stmts):
    """statements in execution order, loops/ifs flattened (a loop body counts twice: write in
    iteration 1 precedes validation in iteration 2)."""
    out = []
    for s in stmts:
        if isinstance(s, (ast.For, ast.While)):
            body = linear(s.body)
            out += body + body
        elif isinstance(s, ast.If):
            out += [s.test] + linear(s.body) + linear(s.orelse)
        elif isinstance(s, (ast.With, ast.Try)):
            out += linear(s.body)
        else:
            out.append(s)
    return out


def facts():
    rows = []
    for spec in SPECS:
        regs = set()
        for c in spec.configs:
            m = new_metric(spec, fresh_cfg(c))
            regs |= set(m._state_name_to_default)
        meths = class_methods(type(m))
        if "update" not in meths:
            continue
        seq = linear(meths["update"].body)
        # inline self-helpers one level
        flat = []
        helpers = set()
        for s in seq:
            helper = None
            for x in ast.walk(s):
                if isinstance(x, ast.Call) and isinstance(x.func, ast.Attribute) and isinstance(x.func.value, ast.Name) and x.func.value.id == "self" and x.func.attr in meths and x.func.attr != "update":
                    helper = x.func.attr
            flat += linear(meths[helper].body) if helper else [s]
            if helper:
                helpers.add(helper)
        al = aliases([meths["update"].body] + [meths[h].body for h in sorted(helpers)], regs)
        first_write = next((i for i, s in enumerate(flat) if is_state_write(s, regs, al)), None)
        after = first_write is not None and any(validates(s) for s in flat[first_write + 1:])
        rows.append((spec.name, bool(after)))
    return rows


def dynamic_facts():
    """dynamic cross-check of the static table (DESIGN §4 "static first, dynamic second"): run update() of
    every class × config on one valid batch under a line tracer restricted to the class's own methods;
    after every executed line compare the object's state with the state before; every call of a function
    whose name contains `check` (class module and the functional modules it imports) is logged.
    Returns rows (class, config index, a check ran after the first observed state change, first-write line,
    names of the checks that ran after it)."""
    import sys, inspect, types
    from ..common import Rng
    from ..engine import snapshot, snap_equal
    rows = []
    for spec in SPECS:
        for ci, c in enumerate(spec.configs):
            cfg = fresh_cfg(c)
            m = new_metric(spec, cfg)
            rng = Rng(14 + ci)
            try:
                warm = spec.gen(rng, cfg, 3)
                batch = spec.gen(rng, cfg, 3)
            except Exception:  # noqa: BLE001
                continue
            codes = set()
            for k in type(m).__mro__:
                if k.__module__.startswith("torcheval") and k.__name__ != "Metric":
                    for v in vars(k).values():
                        f = getattr(v, "__wrapped__", v)
                        if isinstance(f, types.FunctionType):
                            codes.add(f.__code__)
            events = []
            # wrap the check helpers visible from the class module and from the functional modules it imports
            mods = {sys.modules[type(m).__module__]}
            for v in list(vars(sys.modules[type(m).__module__]).values()):
                mod = getattr(v, "__module__", None)
                if isinstance(v, types.FunctionType) and mod and mod.startswith("torcheval") and mod in sys.modules:
                    mods.add(sys.modules[mod])
            patched = []
            def wrap(fn, name):
                def w(*a, **kw):
                    events.append(("check", name))
                    return fn(*a, **kw)
                return w
            for mod in mods:
                for name, v in list(vars(mod).items()):
                    if isinstance(v, types.FunctionType) and "check" in name:
                        patched.append((mod, name, v))
                        setattr(mod, name, wrap(v, name))
            try:
                warm.apply(m)          # one valid update first: lazily shaped states exist afterwards
                events.clear()
                prev = [snapshot(m), {k: repr(v) for k, v in vars(m).items() if isinstance(v, (int, float, str, bool, type(None)))}]
                def changed():
                    cur = [snapshot(m), {k: repr(v) for k, v in vars(m).items() if isinstance(v, (int, float, str, bool, type(None)))}]
                    if not snap_equal(prev[0], cur[0]) or prev[1] != cur[1]:
                        prev[0], prev[1] = cur
                        return True
                    return False
                def tracer(frame, event, arg):
                    if frame.f_code not in codes:
                        return None
                    if event in ("line", "return"):
                        sys.settrace(None)
                        try:
                            if changed():
                                events.append(("write", frame.f_lineno))
                        finally:
                            sys.settrace(tracer)
                    return tracer
                for attempt in range(4):       # a valid batch may leave the state as it is (Max, retained top-k): try again
                    events.clear()
                    sys.settrace(tracer)
                    try:
                        batch.apply(m)
                    finally:
                        sys.settrace(None)
                    if any(e[0] == "write" for e in events):
                        break
                    batch = spec.gen(rng, cfg, 5)
            except Exception:  # noqa: BLE001
                sys.settrace(None)
                events = None
            finally:
                for mod, name, v in patched:
                    setattr(mod, name, v)
            if events is None:
                continue
            fw = next((i for i, e in enumerate(events) if e[0] == "write"), None)
            later = [e[1] for e in events[fw + 1:] if e[0] == "check"] if fw is not None else []
            rows.append((spec.name, ci, bool(later), events[fw][1] if fw is not None else None, later))
    return rows


def crosscheck(rep):
    """static table vs observed order on valid updates: the static rule must not MISS a validation that runs
    after a state write (soundness direction); a static `true` that no valid run exhibits is conservative."""
    static = dict(facts())
    dyn = dynamic_facts()
    missed, confirmed, conservative = [], 0, set()
    seen_true = {n for n, ci, late, _, _ in dyn if late}
    for n, ci, late, line, names in dyn:
        rep.case(nontrivial_key=("atomicity-dynamic", n, ci, late))
        if late and not static.get(n, False):
            missed.append((n, ci, line, names))
        else:
            confirmed += 1
    for n, a in static.items():
        if a and n not in seen_true:
            conservative.add(n)
    rep.count("atomicity-dynamic:runs", len(dyn))
    rep.count("atomicity-dynamic:check-after-write", sum(1 for r in dyn if r[2]))
    rep.notes.append(f"atomicity cross-check: {len(dyn)} traced update() runs, order of checks and first state write agrees with the static table in {confirmed}; "
                     f"static `true` without an observed late check on a valid run (conservative): {sorted(conservative)}")
    for n, ci, line, names in missed:
        rep.broke("atomicity-translator", f"{n} (config {ci}): the check(s) {names} ran after the first state change (line {line}) "
                                          f"but the static table says no validation follows a write", {"class": n, "config": ci, "line": line, "checks": names})
    return dyn


def generate(rep=None):
    rows = facts()
    out = ["/- GENERATED by harness/translators/atomicity.py from /repo's working tree — do not edit. -/",
           "namespace TE.Gen", "", "/-- (class, some validation can still run after update() has written state) -/",
           "def validationAfterWrite : List (String × Bool) := ["]
    out.append(",\n".join(f'  ("{n}", {"true" if a else "false"})' for n, a in rows))
    out += ["]", "", "end TE.Gen", ""]
    p = LEAN / "TE" / "Gen" / "Atomicity.lean"
    new = "\n".join(out)
    if not p.exists() or p.read_text() != new:
        p.write_text(new)
    if rep is not None:
        rep.notes.append(f"atomicity translator: validation after first state write in update(): {[n for n, a in rows if a]}")
    return rows


if __name__ == "__main__":
    print([r for r in generate() if r[1]])
