"""(T) effects translator: for every registry class the effect programs of merge_state /
compute / update on the object's states (TE.Heap.Eff), classified statically from the AST
("static first") and cross-checked / completed dynamically on the real objects (storage
identity after merge, state identity across compute) ("dynamic second").
Regenerates lean/TE/Gen/Effects.lean on every run."""
from __future__ import annotations
import ast
import torch
from ..common import LEAN, Rng, Report
from ..registry import SPECS, new_metric, fresh_cfg
from ..engine import fed, gen_stream
from .states import class_methods

VIEW_METHODS = {"to", "detach", "squeeze", "unsqueeze", "reshape", "view", "contiguous", "type", "float", "double", "long", "int", "T", "t", "flatten", "cpu"}
INPLACE_METHODS = {"append", "extend", "insert", "add_", "sub_", "mul_", "div_", "copy_", "zero_", "fill_", "clamp_", "scatter_", "index_add_", "put_", "masked_fill_", "update", "pop", "clear"}


def strip_views(e):
    """peel alias-preserving wrappers; returns the innermost expression."""
    while True:
        if isinstance(e, ast.Call) and isinstance(e.func, ast.Attribute) and e.func.attr in VIEW_METHODS:
            e = e.func.value
        elif isinstance(e, ast.Attribute) and e.attr in ("T", "real", "data"):
            e = e.value
        elif isinstance(e, ast.Subscript):
            e = e.value
        else:
            return e


def classify_rhs(e, foreign: set, self_name="self"):
    """'fresh' | 'own' | 'foreign'"""
    e = strip_views(e)
    if isinstance(e, ast.Attribute) and isinstance(e.value, ast.Name):
        if e.value.id in foreign:
            return "foreign"
        if e.value.id == self_name:
            return "own"
    if isinstance(e, ast.Name) and e.id in foreign:
        return "foreign"
    return "fresh"


def method_effects(cls, entry: str, registered: set):
    meths = class_methods(cls)
    effs, unresolved = [], False
    seen = set()

    def visit(name, foreign):
        nonlocal unresolved
        if name in seen or name not in meths:
            return
        seen.add(name)
        fn = meths[name]
        params = {a.arg for a in fn.args.args + fn.args.kwonlyargs if a.arg != "self"}
        foreign = set(foreign) | (params if name == entry else set())
        for node in ast.walk(fn):
            if isinstance(node, (ast.For, ast.comprehension)):
                it = node.iter
                tgt = node.target
                src = strip_views(it)
                if isinstance(src, ast.Name) and src.id in foreign and isinstance(tgt, ast.Name):
                    foreign.add(tgt.id)
        for node in ast.walk(fn):
            if isinstance(node, ast.Assign):
                for t in node.targets:
                    for tt in (t.elts if isinstance(t, ast.Tuple) else [t]):
                        handle_target(tt, node.value, foreign, aug=False)
            elif isinstance(node, ast.AugAssign):
                handle_target(node.target, node.value, foreign, aug=True)
            elif isinstance(node, ast.Call):
                f = node.func
                if isinstance(f, ast.Attribute) and f.attr in INPLACE_METHODS:
                    base = strip_views(f.value)
                    if isinstance(base, ast.Attribute) and isinstance(base.value, ast.Name):
                        if base.value.id == "self" and base.attr in registered:
                            effs.append(("inplace", base.attr))
                        elif base.value.id in foreign:
                            effs.append(("inplaceOn", base.attr))
                    elif isinstance(base, ast.Name) and base.id in foreign and f.attr.endswith("_"):
                        effs.append(("inplaceOn", base.id))
                if isinstance(f, ast.Name) and f.id == "setattr":
                    unresolved = True
                if isinstance(f, ast.Attribute) and isinstance(f.value, ast.Name) and f.value.id == "self" and f.attr in meths and f.attr not in ("to",):
                    visit(f.attr, foreign)

    def handle_target(t, value, foreign, aug):
        inner = strip_views(t)
        sub = isinstance(t, ast.Subscript)
        if isinstance(inner, ast.Attribute) and isinstance(inner.value, ast.Name):
            owner, attr = inner.value.id, inner.attr
            if owner == "self" and attr in registered:
                if aug or sub:
                    effs.append(("inplace", attr))
                else:
                    k = classify_rhs(value, foreign)
                    effs.append(("rebindAlias", attr) if k == "foreign" else ("rebindFresh", attr))
            elif owner in foreign and (aug or sub):
                effs.append(("inplaceOn", attr))
        elif isinstance(inner, ast.Name) and inner.id in foreign and (aug or sub):
            effs.append(("inplaceOn", inner.id))

    visit(entry, set())
    return effs, unresolved


def storages(m):
    out = {}
    for name in m._state_name_to_default:
        v = getattr(m, name)
        ts = [v] if isinstance(v, torch.Tensor) else (list(v) if isinstance(v, list) else (list(v.values()) if isinstance(v, dict) else []))
        out[name] = {t.untyped_storage().data_ptr() for t in ts if isinstance(t, torch.Tensor) and t.numel() > 0}
    return out


def dynamic_facts(spec, rng):
    alias, rebinds = set(), set()
    for cfg0 in spec.configs:
        for tgt_batches in (0, 1):
            cfg = fresh_cfg(cfg0)
            srcs = [fed(spec, cfg, gen_stream(spec, cfg, rng, 2)) for _ in range(2)]
            tgt = fed(spec, cfg, gen_stream(spec, cfg, rng, tgt_batches))
            tgt.merge_state(srcs)
            ts = storages(tgt)
            for s in srcs:
                ss = storages(s)
                for a, ptrs in ts.items():
                    if any(ptrs & p for p in ss.values()):
                        alias.add(a)
            if not (spec.name == "FrechetAudioDistance"):
                ids0 = {n: id(getattr(tgt, n)) for n in tgt._state_name_to_default}
                try:
                    tgt.compute()
                except Exception:  # noqa: BLE001
                    pass
                for n, i in ids0.items():
                    if id(getattr(tgt, n)) != i and not isinstance(getattr(tgt, n), (int, float)):
                        rebinds.add(n)
    return sorted(alias), sorted(rebinds)


def facts():
    rng = Rng(987654321)
    rows = []
    for spec in SPECS:
        regs = set()
        for c in spec.configs:
            m = new_metric(spec, fresh_cfg(c))
            regs |= set(m._state_name_to_default)
        cls = type(m)
        merge, u1 = method_effects(cls, "merge_state", regs)
        compute, u2 = method_effects(cls, "compute", regs)
        update, u3 = method_effects(cls, "update", regs)
        alias, rebinds = dynamic_facts(spec, rng)
        rows.append({"name": spec.name, "merge": merge, "compute": compute, "update": update,
                     "dyn_alias": alias, "dyn_rebinds": rebinds, "unresolved_static": bool(u1 or u2 or u3)})
    return rows


def lean_eff(e):
    k, a = e
    if k == "rebindAlias":
        return f'.rebindAlias "{a}" 1000'
    if k == "inplaceOn":
        return ".inplaceOn 1000"
    return f'.{k} "{a}"'


def generate(rep: Report | None = None):
    rows = facts()
    out = ["/- GENERATED by harness/translators/effects.py from /repo's working tree — do not edit. -/",
           "import TE.Model.Heap", "namespace TE.Gen", "open TE.Heap", "",
           "structure ClassEffects where", "  name : String", "  merge : List Eff", "  compute : List Eff", "  update : List Eff",
           "  dynAliasAfterMerge : List String", "  dynComputeRebinds : List String", "",
           "def classEffects : List ClassEffects := ["]
    body = []
    ll = lambda xs: "[" + ", ".join(xs) + "]"
    for r in rows:
        body.append(f'  ⟨"{r["name"]}", {ll([lean_eff(e) for e in r["merge"]])}, {ll([lean_eff(e) for e in r["compute"]])}, '
                    f'{ll([lean_eff(e) for e in r["update"] if e[0] == "inplaceOn"])}, {ll([chr(34)+a+chr(34) for a in r["dyn_alias"]])}, {ll([chr(34)+a+chr(34) for a in r["dyn_rebinds"]])}⟩')
    out.append(",\n".join(body))
    out += ["]", "", "end TE.Gen", ""]
    p = LEAN / "TE" / "Gen" / "Effects.lean"
    new = "\n".join(out)
    if not p.exists() or p.read_text() != new:
        p.write_text(new)
    if rep is not None:
        bad = [r["name"] for r in rows if r["dyn_alias"] or r["dyn_rebinds"] or any(e[0] in ("rebindAlias", "inplaceOn") for e in r["merge"] + r["compute"])]
        rep.notes.append(f"effects translator: {len(rows)} classes; flagged: {bad}")
    return rows


if __name__ == "__main__":
    for r in generate():
        flagged = [e for e in r["merge"] + r["compute"] + r["update"] if e[0] in ("rebindAlias", "inplaceOn")] + [e for e in r["compute"]]
        if flagged or r["dyn_alias"] or r["dyn_rebinds"]:
            print(r["name"], "FLAG", flagged, r["dyn_alias"], r["dyn_rebinds"])
