"""(T) index-site translator of C14 (index-range safety).

Walks the AST of every module under <repo>/torcheval/metrics (functional/** and the class
files; metric.py, toolkit.py, synclib.py and __init__ files are not fed by user labels) and
lists every *index site*: a call of an index-taking torch kernel, or a subscript with a
non-constant, non-boolean index, whose index operand derives — by intra-function data flow —
from the function's parameters (or from an attribute of `self`).

For every site: file, function, line, kernel kind, the source operand of the index
expression, the bound it has to respect, and the GUARD that establishes the bound:
  explicitCheck   a value check on the same operand (`torch.max(x) >= n`, `torch.min(x) < 0`,
                  `(x < 0).any()` … with a `raise` in its body) that runs before the site,
                  in the function itself, in a `*_check` helper called before it, or in a
                  caller before the call (both sides have to be checked)
  byConstruction  every path from a parameter to the index passes through an index-producing
                  operation (argmax, argsort, sort/topk indices, searchsorted, arange, range,
                  nonzero, `% n`, `min(k, n)`, len) — or the index is a cursor attribute that
                  every method leaves reduced modulo the buffer size
  kernelRaises    the kernel itself is bounds-checked and raises a Python exception for every
                  out-of-range index (expected list below, VERIFIED by the empirical probe)
  none            nothing of the above

The behaviour of every kernel kind for indices -1, -C, -C-1, C, C+1, 2^31, -2^63 is observed
in a child process on the installed torch (`probe_kernels`) and written into the generated
file, so a torch upgrade that changes a kernel's behaviour changes TE/Gen/IndexSites.lean and
the `decide`d theorems of TE/Props/C14.lean.

A slice OBJECT (`w = slice(a, b)`; `buf[:, w]`, or `buf[:, slice(a, b)]`) is the slice it denotes (flow-sensitive:
a re-bound name, or a name that is a slice on one branch only, is an ordinary index again; the bounds' sources are those
at the point where the slice is built).

A PARAMETER of a private module-level helper whose every use is a direct call seen by this analysis (never an entry point, never
passed around as a value, never named outside the analysed files) is what its callers pass: when ALL call sites agree that the
argument is a boolean mask / the result of a sort or topk / a python list, dict or str, the parameter is one too (`inherited_param_facts`;
any disagreement, a default, `*args`, a stray reference ⇒ nothing is inherited). Its value-range guard comes from the call sites as before
(`established`, `constructed_via_callers`).

Regenerates lean/TE/Gen/IndexSites.lean on every run (`generate`)."""
from __future__ import annotations
import ast, copy, json, os, select, subprocess, sys, time
from dataclasses import dataclass, field
from pathlib import Path

try:
    from ..common import LEAN, REPO, VERIF
except ImportError:  # executed as a script by the probe child: no package context needed
    LEAN = REPO = VERIF = None

SKIP_FILES = {"metric.py", "toolkit.py", "synclib.py", "__init__.py", "state.py"}

# ------------------------------------------------------------------ kernel kinds

# kinds whose index operand is out of range ⇒ a Python exception (expectation; the probe decides)
EXPECTED_RAISING = ["scatter_", "scatter_add_", "index_add_", "gather", "one_hot", "index_select",
                    "slice_set", "topk", "split"]

# method / function name -> (kind, position of the index operand among the call's arguments
# when called as a method, … as a torch.<fn>(tensor, …), keyword name)
KERNEL_CALLS = {
    "scatter_": ("scatter_", 1, 2, "index"),
    "scatter_add_": ("scatter_add_", 1, 2, "index"),
    "scatter_add": ("scatter_add_", 1, 2, "index"),
    "scatter": ("scatter_", 1, 2, "index"),
    "index_add_": ("index_add_", 1, 2, "index"),
    "index_add": ("index_add_", 1, 2, "index"),
    "index_put_": ("index_put_", 0, 1, "indices"),
    "index_put": ("index_put_", 0, 1, "indices"),
    "gather": ("gather", 1, 2, "index"),
    "take_along_dim": ("take_along_dim", 0, 1, "indices"),
    "index_select": ("index_select", 1, 2, "index"),
    "one_hot": ("one_hot", None, 0, "tensor"),
    "bincount": ("bincount", None, 0, "input"),
    "histc": ("histc", None, 0, "input"),
    "sparse_coo_tensor": ("sparse_coo_tensor", None, 0, "indices"),
    "topk": ("topk", 0, 1, "k"),
    "split": ("split", 0, 1, "split_size_or_sections"),
}

# operations that *produce* valid indices of the tensor they are applied to
BYC_METHODS = {"argmax", "argmin", "argsort", "nonzero"}
BYC_FUNCS = {"argmax", "argmin", "argsort", "nonzero", "searchsorted", "arange", "range", "len", "enumerate", "min"}
PAIR_METHODS = {"sort": "sort.indices", "topk": "topk.indices", "max": "max.indices", "min": "min.indices"}
# value-preserving tensor methods: the result carries the (index) values of the receiver
PASS_METHODS = {"unsqueeze", "squeeze", "reshape", "view", "long", "int", "detach", "to", "flip", "clone", "type", "contiguous",
                "flatten", "t", "float", "double", "cpu", "expand", "repeat", "tolist", "item", "permute", "transpose", "T"}
BOOL_METHODS = {"ne", "eq", "gt", "lt", "ge", "le", "isnan", "isinf", "isfinite", "logical_and", "logical_or", "logical_not", "bool", "any", "all"}


@dataclass(frozen=True)
class Origin:
    """where the values of an expression come from: (root, chain of index-producing ops) pairs."""
    paths: frozenset = frozenset()         # {(root, (op, …))}
    is_bool: bool = False
    pair: str | None = None                # result of sort()/topk(): (values, indices)
    container: str | None = None           # "dict" | "list" | "str"

    def with_op(self, op):
        return Origin(frozenset((r, c + (op,)) for r, c in self.paths))

    def union(self, *others):
        p = set(self.paths)
        for o in others:
            p |= o.paths
        return Origin(frozenset(p))

    @property
    def raw_roots(self):
        return sorted({r for r, c in self.paths if not c})

    @property
    def constructed(self):
        return bool(self.paths) and all(c for r, c in self.paths)

    def describe(self):
        out = []
        for r, c in sorted(self.paths):
            out.append(r + "".join("." + o for o in c))
        return " | ".join(out) if out else "const"


CONST = Origin()


def src(node) -> str:
    try:
        s = ast.unparse(node)
    except Exception:  # noqa: BLE001
        s = "?"
    return " ".join(s.split())


@dataclass
class Site:
    file: str
    func: str
    line: int
    kind: str
    operand: str            # source text of the index operand
    source: str             # where it comes from (roots + constructing ops)
    bound: str
    guard: str = "none"
    guard_ref: str = ""
    raw_roots: list = field(default_factory=list)
    entries: list = field(default_factory=list)
    cls: str | None = None

    def key(self):
        return (self.file, self.func, self.kind, self.source)


# ------------------------------------------------------------------ per-function analysis

class FuncInfo:
    def __init__(self, module, node, cls=None):
        self.module, self.node, self.cls = module, node, cls
        self.name = node.name
        self.qual = f"{cls}.{node.name}" if cls else node.name
        self.params = [a.arg for a in node.args.posonlyargs + node.args.args + node.args.kwonlyargs]
        self.calls: list = []                                 # (callee name, node, line, arg origins, kwarg origins)
        self.checks: list[dict] = []                          # value checks that raise
        self.sites: list[Site] = []
        self.returns: Origin = CONST
        self.param_facts: dict = {}                           # param -> (is_bool, pair, container) agreed on by ALL call sites


class ModuleInfo:
    def __init__(self, path: Path, rel: str):
        self.path, self.rel = path, rel
        self.tree = ast.parse(path.read_text())
        self.funcs: dict[str, FuncInfo] = {}
        self.classes: dict[str, dict[str, FuncInfo]] = {}
        self.imports: dict[str, tuple[str, str]] = {}         # local name -> (module, name)
        self.cursor_attrs: dict[str, dict[str, str]] = {}     # class -> {attr: modulus}
        for n in self.tree.body:
            if isinstance(n, ast.ImportFrom) and n.module:
                for a in n.names:
                    self.imports[a.asname or a.name] = (n.module, a.name)
            elif isinstance(n, ast.FunctionDef):
                self.funcs[n.name] = FuncInfo(self, n)
            elif isinstance(n, ast.ClassDef):
                self.classes[n.name] = {m.name: FuncInfo(self, m, n.name) for m in n.body if isinstance(m, ast.FunctionDef)}


def is_const_index(ix) -> bool:
    if isinstance(ix, ast.Constant):
        return True
    if isinstance(ix, ast.UnaryOp) and isinstance(ix.operand, ast.Constant):
        return True
    if isinstance(ix, ast.Slice):
        return all(p is None or is_const_index(p) for p in (ix.lower, ix.upper, ix.step))
    if isinstance(ix, ast.Tuple):
        return all(is_const_index(e) for e in ix.elts)
    return False


ANNOT_PREFIX = ("Optional", "Union", "List", "Tuple", "Dict", "Iterable", "Sequence", "Callable", "Type", "tuple", "list", "dict",
                "type", "Literal", "Counter", "DefaultDict", "Deque", "Set", "set", "Generic", "TypeVar")


class Analyzer(ast.NodeVisitor):
    """one function: environment name -> Origin in statement order, sites, value checks, calls."""

    def __init__(self, fi: FuncInfo, summaries: dict, cursor: dict):
        self.fi = fi
        self.env: dict[str, Origin] = {}
        self.summaries = summaries
        self.cursor = cursor          # attr -> modulus text (for methods of a class with a modular cursor)
        self.slc: dict[str, ast.Slice] = {}   # local name -> the slice it was bound to (`w = slice(a, b)`), flow-sensitive like env
        for p in fi.params:
            if p != "self":
                ann = self._annotation(p)
                is_bool, pair, cont = fi.param_facts.get(p, (False, None, None))
                self.env[p] = Origin(frozenset({(p, ())}), is_bool=is_bool, pair=pair, container=ann or cont)

    def _annotation(self, p):
        for a in self.fi.node.args.posonlyargs + self.fi.node.args.args + self.fi.node.args.kwonlyargs:
            if a.arg == p and a.annotation is not None:
                t = src(a.annotation)
                if t.startswith(("str", "Sequence[str]")):
                    return "str"
                if t.startswith(("List", "list", "Sequence", "Iterable")) and "Tensor" not in t:
                    return "list"
                if t.startswith(("Dict", "dict", "Counter")):
                    return "dict"
        return None

    # ---------------------------------------------------------------- origins
    def origin(self, e) -> Origin:
        if e is None or isinstance(e, ast.Constant):
            return CONST
        if isinstance(e, ast.Name):
            return self.env.get(e.id, CONST)
        if isinstance(e, ast.Attribute):
            if isinstance(e.value, ast.Name) and e.value.id == "self":
                if e.attr in self.cursor:
                    return Origin(frozenset({(f"self.{e.attr}", ("mod",))}))
                return Origin(frozenset({(f"self.{e.attr}", ())}))
            if e.attr in ("indices",):
                o = self.origin(e.value)
                return o.with_op(o.pair) if o.pair else o
            if e.attr in ("values",):
                o = self.origin(e.value)
                return Origin(o.paths)
            if e.attr in ("shape", "ndim", "dtype", "device"):
                return self.origin(e.value).with_op("shape") if e.attr == "shape" else CONST
            return Origin(self.origin(e.value).paths)
        if isinstance(e, (ast.Compare,)):
            return Origin(self.origin(e.left).union(*[self.origin(c) for c in e.comparators]).paths, is_bool=True)
        if isinstance(e, ast.BoolOp):
            return Origin(CONST.union(*[self.origin(v) for v in e.values]).paths, is_bool=True)
        if isinstance(e, ast.UnaryOp):
            o = self.origin(e.operand)
            return Origin(o.paths, is_bool=o.is_bool or isinstance(e.op, ast.Not))
        if isinstance(e, ast.BinOp):
            l, r = self.origin(e.left), self.origin(e.right)
            if isinstance(e.op, ast.Mod):
                return l.union(r).with_op("mod")
            if "dict" in (l.container, r.container):
                return Origin(l.union(r).paths, container="dict")
            return Origin(l.union(r).paths, is_bool=l.is_bool and r.is_bool and isinstance(e.op, (ast.BitAnd, ast.BitOr, ast.BitXor)))
        if isinstance(e, (ast.Tuple, ast.List)):
            return Origin(CONST.union(*[self.origin(x) for x in e.elts]).paths, container="list" if isinstance(e, ast.List) else None)
        if isinstance(e, (ast.ListComp, ast.GeneratorExp)):
            return Origin(self.origin(e.elt).paths, container="list")
        if isinstance(e, (ast.Dict, ast.DictComp)):
            return Origin(container="dict")
        if isinstance(e, ast.IfExp):
            return self.origin(e.body).union(self.origin(e.orelse))
        if isinstance(e, ast.Subscript):
            base = self.origin(e.value)
            if base.pair and isinstance(e.slice, ast.Constant) and e.slice.value == 1:
                return Origin(base.paths).with_op(base.pair)
            if base.pair and isinstance(e.slice, ast.Constant) and e.slice.value == 0:
                return Origin(base.paths)
            return Origin(base.paths, is_bool=base.is_bool)
        if isinstance(e, ast.Starred):
            return self.origin(e.value)
        if isinstance(e, ast.Call):
            return self.call_origin(e)
        return CONST

    def call_origin(self, e: ast.Call) -> Origin:
        f = e.func
        args = list(e.args) + [k.value for k in e.keywords]
        if isinstance(f, ast.Attribute):
            name = f.attr
            is_torch = isinstance(f.value, ast.Name) and f.value.id in ("torch", "F", "np", "math")
            if is_torch:
                ao = CONST.union(*[self.origin(a) for a in args])
                if name in BYC_FUNCS:
                    return ao.with_op(name)
                if name in PAIR_METHODS:
                    return Origin(ao.paths, pair=PAIR_METHODS[name])
                if name in BOOL_METHODS:
                    return Origin(ao.paths, is_bool=True)
                if name in ("zeros", "ones", "zeros_like", "ones_like", "empty", "full", "tensor", "Size", "linspace"):
                    return CONST
                if name == "where" and len(e.args) == 3:
                    # the result's VALUES are those of the two branches; the condition only selects
                    return self.origin(e.args[1]).union(self.origin(e.args[2]))
                if name in ("pad", "flip", "roll", "cat", "stack", "vstack", "hstack", "concatenate") and e.args:
                    first = self.origin(e.args[0])
                    return Origin(ao.paths, is_bool=first.is_bool)
                return Origin(ao.paths)
            base = self.origin(f.value)
            if name in BYC_METHODS:
                return Origin(base.paths).with_op(name)
            if name in PAIR_METHODS and (e.keywords or e.args):
                return Origin(base.paths, pair=PAIR_METHODS[name])
            if name in BOOL_METHODS:
                return Origin(base.union(*[self.origin(a) for a in args]).paths, is_bool=True)
            if name == "split" and not args:
                return Origin(base.paths, container="list")
            if name in ("new_zeros", "new_ones", "new_tensor", "new_empty", "new_full"):
                return CONST
            if name in PASS_METHODS:
                return Origin(base.paths, is_bool=base.is_bool)
            if name in ("sum", "cumsum", "mean", "size", "numel", "dim"):
                return Origin(base.paths).with_op("shape") if name in ("size", "numel", "dim") else Origin(base.paths)
            if isinstance(f.value, ast.Name) and f.value.id == "self" and self.fi.cls:
                s = self.summaries.get((self.fi.module.rel, f"{self.fi.cls}.{name}"))
                if s is not None:
                    return s
            return Origin(base.union(*[self.origin(a) for a in args]).paths)
        if isinstance(f, ast.Name):
            name = f.id
            ao = CONST.union(*[self.origin(a) for a in args])
            if name in BYC_FUNCS:
                return ao.with_op(name)
            if name in ("Counter", "counter", "dict", "defaultdict"):
                return Origin(ao.paths, container="dict")
            if name in ("list", "sorted", "tuple"):
                return Origin(ao.paths, container="list")
            if name in ("deepcopy", "int", "float", "abs", "max", "sum"):
                return Origin(ao.paths)
            s = self.summaries.get((self.fi.module.rel, name))
            if s is None and name in self.fi.module.imports:
                s = self.summaries.get(("*", name))
            if s is not None:
                # the callee's return value: its own constructing ops applied to our arguments
                ops = {c for r, c in s.paths}
                if ops and all(ops):
                    out = CONST
                    for c in ops:
                        o = ao
                        for op in c:
                            o = o.with_op(op)
                        out = out.union(o)
                    return Origin(out.paths, pair=s.pair, container=s.container)
                return Origin(ao.paths, pair=s.pair, container=s.container)
            return Origin(ao.paths)
        return CONST

    # ---------------------------------------------------------------- statements
    def slice_object(self, e):
        """`slice(b)` / `slice(a, b)` / `slice(a, b, c)` -> the ast.Slice it denotes | None"""
        if isinstance(e, ast.Call) and isinstance(e.func, ast.Name) and e.func.id == "slice" and "slice" not in self.env \
                and not e.keywords and 1 <= len(e.args) <= 3 and not any(isinstance(a, ast.Starred) for a in e.args):
            def part(a):
                if isinstance(a, ast.Constant) and a.value is None:
                    return None
                c = copy.copy(a)
                c._origin = self.origin(a)      # noqa: SLF001 — where the bound comes from WHEN THE SLICE IS BUILT (not when it is used)
                return c
            parts = [part(a) for a in e.args]
            lo, hi, st = (None, parts[0], None) if len(parts) == 1 else (parts + [None])[:3]
            return ast.Slice(lower=lo, upper=hi, step=st)
        return None

    @staticmethod
    def same_slice(x: ast.Slice, y: ast.Slice) -> bool:
        if x is y:
            return True
        if ast.dump(x) != ast.dump(y):
            return False
        return all(getattr(p, "_origin", None) == getattr(q_, "_origin", None) for p, q_ in ((x.lower, y.lower), (x.upper, y.upper), (x.step, y.step)))

    def as_slice(self, ix):
        """an index element that is a slice OBJECT (a local bound to `slice(…)`, or the call itself) is the slice it denotes"""
        if isinstance(ix, ast.Name) and self.slc.get(ix.id) is not None:
            return self.slc[ix.id]
        return self.slice_object(ix) or ix

    @staticmethod
    def merge_slc(a: dict, enva: dict, b: dict, envb: dict) -> dict:
        """after a fork: the same slice on both sides survives; a slice bound on one side survives only if the name has NO
        binding at all on the other side (it is then unbound there); anything else is unknown (None: an ordinary index)"""
        out = {}
        for k in set(a) | set(b):
            if k in a and k in b:
                x, y = a[k], b[k]
                out[k] = x if x is not None and y is not None and Analyzer.same_slice(x, y) else None
            elif k in a:
                out[k] = a[k] if k not in envb else None
            else:
                out[k] = b[k] if k not in enva else None
        return out

    def assign(self, target, o: Origin):
        if isinstance(target, ast.Name):
            self.env[target.id] = o
            if target.id in self.slc:
                self.slc[target.id] = None      # re-bound: no longer (known to be) a slice
        elif isinstance(target, (ast.Tuple, ast.List)):
            if o.pair and len(target.elts) == 2:
                self.assign(target.elts[0], Origin(o.paths))
                self.assign(target.elts[1], Origin(o.paths).with_op(o.pair))
            else:
                for t in target.elts:
                    self.assign(t, Origin(o.paths))

    def run(self):
        self.block(self.fi.node.body)
        return self

    def store_into(self, target, value):
        """`c[key] = v` / `c[key] += v` on a dict-like local: keys and values become contents of `c`."""
        if isinstance(target, ast.Subscript) and isinstance(target.value, ast.Name):
            cur = self.env.get(target.value.id)
            if cur is not None and cur.container == "dict":
                add = self.origin(target.slice).union(self.origin(value))
                self.env[target.value.id] = Origin(cur.paths | add.paths, container="dict")

    @staticmethod
    def merge_env(a: dict, b: dict) -> dict:
        out = {}
        for k in set(a) | set(b):
            x, y = a.get(k), b.get(k)
            if x is None or y is None:
                out[k] = x if y is None else y
            elif x == y:
                out[k] = x
            else:
                out[k] = Origin(x.paths | y.paths, is_bool=x.is_bool and y.is_bool, pair=x.pair if x.pair == y.pair else None,
                                container=x.container if x.container == y.container else None)
        return out

    def block(self, stmts):
        for s in stmts:
            self.stmt(s)

    def stmt(self, s):
        if isinstance(s, ast.Assign):
            self.scan(s.value)
            o = self.origin(s.value)
            so = self.slice_object(s.value)
            for t in s.targets:
                self.scan_target(t, "set")
                self.assign(t, o)
                self.store_into(t, s.value)
                if so is not None and isinstance(t, ast.Name):
                    self.slc[t.id] = so
        elif isinstance(s, ast.AnnAssign):
            if s.value is not None:
                self.scan(s.value)
                o = self.origin(s.value)
                if src(s.annotation).startswith(("Counter", "Dict", "dict")):
                    o = Origin(container="dict")
                self.assign(s.target, o)
        elif isinstance(s, ast.AugAssign):
            self.scan(s.value)
            self.scan_target(s.target, "aug")
            self.store_into(s.target, s.value)
            if isinstance(s.target, ast.Name):
                if s.target.id in self.slc:
                    self.slc[s.target.id] = None
                cur = self.env.get(s.target.id, CONST)
                o = cur.union(self.origin(s.value))
                self.env[s.target.id] = o.with_op("mod") if isinstance(s.op, ast.Mod) else Origin(o.paths, container=cur.container)
        elif isinstance(s, ast.For):
            self.scan(s.iter)
            it = self.origin(s.iter)
            if isinstance(s.iter, ast.Call) and isinstance(s.iter.func, ast.Name) and s.iter.func.id == "zip":
                for t, a in zip(s.target.elts if isinstance(s.target, ast.Tuple) else [s.target], s.iter.args):
                    self.assign(t, Origin(self.origin(a).paths))
            elif isinstance(s.iter, ast.Call) and isinstance(s.iter.func, ast.Name) and s.iter.func.id == "enumerate" and isinstance(s.target, ast.Tuple):
                self.assign(s.target.elts[0], Origin(self.origin(s.iter.args[0]).paths).with_op("enumerate"))
                self.assign(s.target.elts[1], Origin(self.origin(s.iter.args[0]).paths))
            else:
                self.assign(s.target, Origin(it.paths))
            before, sbefore = dict(self.env), dict(self.slc)
            self.block(s.body); self.slc = self.merge_slc(sbefore, before, self.slc, self.env)
            self.block(s.body); self.block(s.orelse)
            self.slc = self.merge_slc(sbefore, before, self.slc, self.env)
            self.env = self.merge_env(before, self.env)
        elif isinstance(s, ast.While):
            before, sbefore = dict(self.env), dict(self.slc)
            self.scan(s.test); self.block(s.body); self.slc = self.merge_slc(sbefore, before, self.slc, self.env)
            self.block(s.body); self.block(s.orelse)
            self.slc = self.merge_slc(sbefore, before, self.slc, self.env)
            self.env = self.merge_env(before, self.env)
        elif isinstance(s, ast.If):
            self.scan(s.test)
            self.note_check(s)
            before, sbefore = dict(self.env), dict(self.slc)
            self.block(s.body)
            after_body, safter_body = self.env, self.slc
            self.env, self.slc = dict(before), dict(sbefore)
            self.block(s.orelse)
            self.slc = self.merge_slc(safter_body, after_body, self.slc, self.env)
            self.env = self.merge_env(after_body, self.env)
        elif isinstance(s, (ast.With,)):
            self.block(s.body)
        elif isinstance(s, ast.Try):
            self.block(s.body)
            for h in s.handlers:
                self.block(h.body)
            self.block(s.orelse); self.block(s.finalbody)
        elif isinstance(s, ast.Return):
            if s.value is not None:
                self.scan(s.value)
                o = self.origin(s.value)
                self.fi.returns = Origin(self.fi.returns.union(o).paths, pair=o.pair or self.fi.returns.pair,
                                         container=o.container or self.fi.returns.container)
        elif isinstance(s, ast.Expr):
            self.scan(s.value)
        elif isinstance(s, (ast.Raise, ast.Assert)):
            pass

    # ---------------------------------------------------------------- value checks
    def note_check(self, s: ast.If):
        if not any(isinstance(x, ast.Raise) for b in s.body for x in ast.walk(b)):
            return
        for cmp_ in [x for x in ast.walk(s.test) if isinstance(x, ast.Compare)]:
            sides = [cmp_.left] + cmp_.comparators
            for i, side in enumerate(sides):
                v = self.value_reduction(side)
                if v is None:
                    continue
                other = sides[1 - i] if len(sides) == 2 else None
                op = cmp_.ops[0]
                if i == 1:   # flip
                    op = {ast.Lt: ast.Gt, ast.Gt: ast.Lt, ast.LtE: ast.GtE, ast.GtE: ast.LtE}.get(type(op), type(op))()
                zero = isinstance(other, ast.Constant) and other.value in (0, 0.0)
                if isinstance(op, (ast.Lt, ast.LtE)) and zero:
                    side_name = "lower"
                elif isinstance(op, (ast.Gt, ast.GtE)):
                    side_name = "upper"
                elif isinstance(op, (ast.Lt, ast.LtE)):
                    side_name = "lower"
                else:
                    continue
                for root in v:
                    self.fi.checks.append({"root": root, "side": side_name, "line": s.lineno, "text": src(cmp_), "bound": src(other) if other is not None else ""})

    def value_reduction(self, e):
        """roots r such that `e` is a reduction of the *values* of r: r.min(), r.max(), torch.max(r),
        torch.min(r), (r < c).any() …; for scalar parameters (k, num_classes) the name itself."""
        if isinstance(e, ast.Call):
            f = e.func
            if isinstance(f, ast.Attribute) and f.attr in ("min", "max", "amin", "amax"):
                if isinstance(f.value, ast.Name) and f.value.id == "torch":
                    o = CONST.union(*[self.origin(a) for a in e.args])
                else:
                    o = self.origin(f.value)
                return o.raw_roots or None
            if isinstance(f, ast.Name) and f.id in ("int", "float") and e.args:
                return self.value_reduction(e.args[0])
        if isinstance(e, ast.Name) and e.id in self.fi.params:
            return [e.id]
        if isinstance(e, ast.Attribute) and isinstance(e.value, ast.Name) and e.value.id == "self":
            return [f"self.{e.attr}"]
        return None

    # ---------------------------------------------------------------- sites
    def add(self, node, kind, operand, bound):
        o = getattr(operand, "_origin", None) or self.origin(operand)
        if o.is_bool or not o.paths:
            return
        self.fi.sites.append(Site(self.fi.module.rel, self.fi.qual, node.lineno, kind, src(operand)[:80], o.describe(), bound[:80],
                                  raw_roots=o.raw_roots, cls=self.fi.cls))
        self.fi.sites[-1]._origin = o     # noqa: SLF001

    def scan_target(self, t, mode):
        """subscripts in store position: x[idx] = … / x[idx] += …"""
        if isinstance(t, ast.Subscript):
            self.subscript(t, mode)
            self.scan(t.value)
            self.scan_index_exprs(t.slice)
        elif isinstance(t, (ast.Tuple, ast.List)):
            for x in t.elts:
                self.scan_target(x, mode)

    def scan_index_exprs(self, ix):
        for x in ast.walk(ix):
            if isinstance(x, (ast.Call, ast.Subscript)):
                self.scan(x)
                break

    def scan(self, e):
        """every kernel call / loading subscript inside the expression `e` (outermost first)."""
        if e is None:
            return
        for node in ast.walk(e):
            if isinstance(node, ast.Call):
                self.call_site(node)
            elif isinstance(node, ast.Subscript) and isinstance(node.ctx, ast.Load):
                self.subscript(node, "get")

    def call_site(self, c: ast.Call):
        f = c.func
        name = f.attr if isinstance(f, ast.Attribute) else (f.id if isinstance(f, ast.Name) else None)
        if name is None:
            return
        self.fi.calls.append((name, c, c.lineno, [self.origin(a) for a in c.args], {k.arg: self.origin(k.value) for k in c.keywords if k.arg}))
        if name not in KERNEL_CALLS:
            return
        kind, mpos, fpos, kw = KERNEL_CALLS[name]
        as_function = isinstance(f, ast.Attribute) and isinstance(f.value, ast.Name) and f.value.id in ("torch", "F")
        if isinstance(f, ast.Name):
            as_function = True
        pos = fpos if as_function else mpos
        operand = None
        for k in c.keywords:
            if k.arg == kw or (kind == "topk" and k.arg == "k"):
                operand = k.value
        if operand is None and pos is not None and pos < len(c.args):
            operand = c.args[pos]
        if operand is None:
            return
        receiver = None if as_function else f.value
        if kind == "split":
            if self.origin(receiver).container == "str" if receiver is not None else False:
                return
        if kind in ("one_hot",):
            bound = src(c.args[1]) if len(c.args) > 1 else next((src(k.value) for k in c.keywords if k.arg == "num_classes"), "max+1")
        elif kind == "histc":
            bound = next((src(k.value) for k in c.keywords if k.arg == "bins"), src(c.args[1]) if len(c.args) > 1 else "100")
        elif kind == "sparse_coo_tensor":
            bound = src(c.args[2]) if len(c.args) > 2 else next((src(k.value) for k in c.keywords if k.arg == "size"), "inferred")
        elif kind == "bincount":
            bound = "grows"
        elif kind in ("topk", "split"):
            bound = f"{src(receiver if receiver is not None else c.args[0])}.shape[dim]"
        else:
            base = receiver if receiver is not None else (c.args[0] if c.args else None)
            dim = c.args[0] if (not as_function and c.args) else (c.args[1] if len(c.args) > 1 else None)
            dimt = next((src(k.value) for k in c.keywords if k.arg == "dim"), src(dim) if dim is not None else "0")
            bound = f"{src(base)}.shape[{dimt}]"
        self.add(c, kind, operand, bound)

    def subscript(self, node: ast.Subscript, mode: str):
        if is_const_index(node.slice):
            return
        text = src(node)
        if text.startswith(ANNOT_PREFIX) and isinstance(node.value, ast.Name) and node.value.id[0].isupper() or text.startswith(("tuple[", "list[", "dict[", "type[")):
            return
        base = self.origin(node.value)
        if base.container == "dict":
            return
        elts = [self.as_slice(x) for x in (node.slice.elts if isinstance(node.slice, ast.Tuple) else [node.slice])]
        for pos, ix in enumerate(elts):
            if is_const_index(ix):
                continue
            dim = pos if not any(isinstance(x, ast.Constant) and x.value is None for x in elts[:pos]) else "?"
            if isinstance(ix, ast.Slice):
                if mode == "get":
                    continue       # slice reads clamp to the tensor's extent (probe: slice_get)
                for part in (ix.lower, ix.upper):
                    if part is not None and not is_const_index(part):
                        self.add(node, "slice_set", part, f"{src(node.value)}.shape[{dim}]")
                continue
            pyl = base.container in ("list", "str") or self.is_pylist(node.value)
            kind = ("pylist_" if pyl else "index_") + mode
            bound = f"len({src(node.value)})" if pyl else f"{src(node.value)}.shape[{dim}]"
            self.add(node, kind, ix, bound)

    def is_pylist(self, base) -> bool:
        """`dp[i][j]`: a subscript of a python list of lists; `self.topk[i]`: a list state."""
        if isinstance(base, ast.Subscript):
            return self.origin(base.value).container == "list" or self.is_pylist(base.value)
        if isinstance(base, ast.Attribute) and isinstance(base.value, ast.Name) and base.value.id in ("self", "m", "metric"):
            return base.attr in self.fi.module.__dict__.get("list_states", {}).get(self.fi.cls, set())
        return False


# ------------------------------------------------------------------ whole-package analysis

def list_states_of(cls_node: ast.ClassDef) -> set:
    """attributes registered with a list default: `self._add_state("x", [])` / `[… for …]`."""
    out = set()
    for n in ast.walk(cls_node):
        if isinstance(n, ast.Call) and isinstance(n.func, ast.Attribute) and n.func.attr == "_add_state" and len(n.args) >= 2:
            if isinstance(n.args[1], (ast.List, ast.ListComp)) and isinstance(n.args[0], ast.Constant):
                out.add(n.args[0].value)
    return out


def cursor_attrs_of(cls_node: ast.ClassDef) -> dict:
    """plain attributes that every assigning method leaves as `… % m`, `%= m` or the constant 0."""
    last: dict[str, list] = {}
    for m in cls_node.body:
        if not isinstance(m, ast.FunctionDef):
            continue
        per: dict[str, ast.AST] = {}
        for s in ast.walk(m):
            t = None
            if isinstance(s, ast.Assign) and len(s.targets) == 1:
                t = s.targets[0]
            elif isinstance(s, ast.AugAssign):
                t = s.target
            if isinstance(t, ast.Attribute) and isinstance(t.value, ast.Name) and t.value.id == "self":
                cur = per.get(t.attr)
                if cur is None or s.lineno >= cur.lineno:
                    per[t.attr] = s
        for a, s in per.items():
            last.setdefault(a, []).append(s)
    out = {}
    for a, stmts in last.items():
        mods = []
        ok = True
        for s in stmts:
            if isinstance(s, ast.AugAssign) and isinstance(s.op, ast.Mod):
                mods.append(src(s.value))
            elif isinstance(s, ast.Assign) and isinstance(s.value, ast.BinOp) and isinstance(s.value.op, ast.Mod):
                mods.append(src(s.value.right))
            elif isinstance(s, ast.Assign) and isinstance(s.value, ast.Constant) and s.value.value == 0:
                pass
            else:
                ok = False
        if ok and mods:
            out[a] = mods[0]
    return out


def load_modules(repo: Path) -> list[ModuleInfo]:
    root = repo / "torcheval" / "metrics"
    mods = []
    for p in sorted(root.rglob("*.py")):
        if p.name in SKIP_FILES:
            continue
        rel = str(p.relative_to(repo))
        try:
            mods.append(ModuleInfo(p, rel))
        except SyntaxError:
            continue
    for m in mods:
        m.list_states = {}
        for n in m.tree.body:
            if isinstance(n, ast.ClassDef):
                m.list_states[n.name] = list_states_of(n)
                m.cursor_attrs[n.name] = cursor_attrs_of(n)
    return mods


def unanalysed_text(repo: Path, mods) -> str:
    """source of every python file of the package that `load_modules` does not analyse (they may name a helper too)."""
    seen = {m.path for m in mods}
    out = []
    for p in sorted((repo / "torcheval").rglob("*.py")):
        if p not in seen:
            try:
                out.append(p.read_text())
            except OSError:
                pass
    return "\n".join(out)


def inherited_param_facts(mods, all_funcs, outside: str) -> dict:
    """id(helper) -> {param: (is_bool, pair, container)} for the private module-level helpers all of whose uses are direct calls
    recorded by the analysis, where ALL call sites agree on that property of the actual argument. Conservative everywhere else:
    an entry point, a method, a helper that is referenced other than as the callee of a recorded call (passed as a value, called
    in a nested function / assert / decorator, reached as `mod.helper`, named in a file outside the analysis, defined twice),
    a call with `*args` / `**kwargs`, a parameter left to its default at some call site — nothing is inherited."""
    by_module = {m.rel: m for m in mods}
    by_name: dict[str, list] = {}
    for fi in all_funcs:
        if not fi.cls:
            by_name.setdefault(fi.name, []).append(fi)
    cand = {id(fi): fi for fi in all_funcs
            if not fi.cls and fi.name.startswith("_") and not is_entry(fi) and fi.module.funcs.get(fi.name) is fi
            and fi.node.args.vararg is None and fi.node.args.kwarg is None}
    names = {fi.name for fi in cand.values()}
    # definitions: a name bound more than once at module level (a second `def`, an assignment, a class) is not ours
    for m in mods:
        bound: dict[str, int] = {}
        for n in ast.walk(m.tree):
            if isinstance(n, (ast.FunctionDef, ast.AsyncFunctionDef, ast.ClassDef)) and n.name in names:
                bound[n.name] = bound.get(n.name, 0) + 1
            elif isinstance(n, ast.Name) and isinstance(n.ctx, (ast.Store, ast.Del)) and n.id in names:
                bound[n.id] = bound.get(n.id, 0) + 2
            elif isinstance(n, ast.arg) and n.arg in names:
                bound[n.arg] = bound.get(n.arg, 0) + 2
        for name, k in bound.items():
            if k > 1 or name not in m.funcs:
                for fi in list(cand.values()):
                    if fi.name == name and (fi.module is m or name in m.imports):
                        cand.pop(id(fi), None)
    import re
    for fi in list(cand.values()):
        if re.search(r"\b%s\b" % re.escape(fi.name), outside):
            cand.pop(id(fi), None)
    # recorded direct calls
    sites: dict[int, list] = {}
    callee_nodes: set = set()
    for fi in all_funcs:
        for name, node, line, aos, kos in fi.calls:
            if isinstance(node.func, ast.Name) and name in names:
                g = resolve(fi, name, by_module, by_name)
                if g is not None and id(g) in cand and g is not fi:
                    sites.setdefault(id(g), []).append((node, aos, kos))
                    callee_nodes.add(id(node.func))
    # every other mention of the name (load of the bare name, `x.<name>`) makes the helper escape
    for m in mods:
        for n in ast.walk(m.tree):
            if isinstance(n, ast.Attribute) and n.attr in names:
                for fi in list(cand.values()):
                    if fi.name == n.attr:
                        cand.pop(id(fi), None)
            elif isinstance(n, ast.Name) and n.id in names and isinstance(n.ctx, ast.Load) and id(n) not in callee_nodes:
                for fi in list(cand.values()):
                    if fi.name == n.id and (fi.module is m or n.id in m.imports):
                        cand.pop(id(fi), None)
    out: dict[int, dict] = {}
    for gid, g in cand.items():
        cs = sites.get(gid, [])
        if not cs or any(isinstance(a, ast.Starred) for node, _, _ in cs for a in node.args) \
                or any(k.arg is None for node, _, _ in cs for k in node.keywords):
            continue
        facts = {}
        for i, p in enumerate(g.params):
            actual = [kos[p] if p in kos else (aos[i] if i < len(aos) else None) for _, aos, kos in cs]
            if any(a is None for a in actual):
                continue
            is_bool = all(a.is_bool and a.paths for a in actual)
            pair = actual[0].pair if all(a.pair == actual[0].pair for a in actual) else None
            cont = actual[0].container if all(a.container == actual[0].container for a in actual) else None
            if is_bool or pair or cont:
                facts[p] = (is_bool, pair, cont)
        if facts:
            out[gid] = facts
    return out


def analyse(repo: Path):
    mods = load_modules(repo)
    all_funcs: list[FuncInfo] = []
    for m in mods:
        all_funcs += list(m.funcs.values())
        for c in m.classes.values():
            all_funcs += list(c.values())
    outside = unanalysed_text(repo, mods)
    # two passes: function summaries (what a helper returns) feed the second pass; more while the properties that the parameters
    # of private helpers inherit from their call sites still change (each round is derived from a sound one, so every round is sound)
    summaries: dict = {}
    facts: dict = {}
    for it in range(6):
        for fi in all_funcs:
            fi.sites, fi.calls, fi.checks, fi.returns = [], [], [], CONST
            fi.param_facts = facts.get(id(fi), {})
            cursor = fi.module.cursor_attrs.get(fi.cls, {}) if fi.cls else {}
            Analyzer(fi, summaries, cursor).run()
        summaries = {}
        for fi in all_funcs:
            summaries[(fi.module.rel, fi.qual)] = fi.returns
            if not fi.cls:
                summaries[("*", fi.name)] = fi.returns
        new_facts = inherited_param_facts(mods, all_funcs, outside)
        if it >= 1 and new_facts == facts:
            break
        if it == 5:
            # no fixpoint within the budget: fall back to the analysis without inherited properties
            new_facts = {}
        facts = new_facts
    return mods, all_funcs


def resolve(fi: FuncInfo, name: str, by_module: dict, by_name: dict):
    """callee FuncInfo of a call `name(...)` / `self.name(...)` made inside `fi`."""
    m = fi.module
    if fi.cls and name in m.classes.get(fi.cls, {}):
        return m.classes[fi.cls][name]
    if name in m.funcs:
        return m.funcs[name]
    if name in m.imports:
        mod, orig = m.imports[name]
        for rel, mi in by_module.items():
            if rel[:-3].replace("/", ".").endswith(mod) and orig in mi.funcs:
                return mi.funcs[orig]
        c = by_name.get(orig, [])
        if len(c) == 1:
            return c[0]
    return None


def is_entry(fi: FuncInfo) -> bool:
    """user-callable: public functional, or update/compute/merge_state of a class."""
    if fi.cls:
        return fi.name in ("update", "compute", "merge_state")
    return not fi.name.startswith("_") and "/functional/" in fi.module.rel


FULL = frozenset({"lower", "upper"})


def classify(mods, all_funcs):
    by_module = {m.rel: m for m in mods}
    by_name: dict[str, list] = {}
    for fi in all_funcs:
        if not fi.cls:
            by_name.setdefault(fi.name, []).append(fi)
    callees: dict[int, list] = {}
    callers: dict[int, list] = {}
    for fi in all_funcs:
        for name, node, line, aos, kos in fi.calls:
            g = resolve(fi, name, by_module, by_name)
            if g is not None and g is not fi:
                callees.setdefault(id(fi), []).append((g, line, node))
                callers.setdefault(id(g), []).append((fi, line, node, aos, kos))

    def own_checks(fi: FuncInfo, line: int):
        """value checks that have run when control reaches `line` of `fi`: the function's own and those
        of the `*check*` helpers (two levels) it has called before; parameter names are matched by name."""
        out = [dict(c, where=f"{fi.module.rel.replace('torcheval/metrics/', '')}:{fi.qual}:{c['line']}") for c in fi.checks if c["line"] < line]
        for g, l, _ in callees.get(id(fi), []):
            if l < line and "check" in g.name:
                for h in [g] + [x for x, _, _ in callees.get(id(g), []) if "check" in x.name]:
                    out += [dict(c, where=f"{h.module.rel.replace('torcheval/metrics/', '')}:{h.qual}:{c['line']}") for c in h.checks]
        return out

    def actual_arg(callee: FuncInfo, param: str, node: ast.Call, aos, kos):
        """origin of the actual argument bound to `param` at a call (None: not passed → default)."""
        params = [p for p in callee.params if p != "self"]
        if param in kos:
            return kos[param]
        if param in params:
            i = params.index(param)
            if i < len(aos):
                return aos[i]
        return None

    def established(fi: FuncInfo, line: int, root: str, depth=0, seen=None):
        """(sides of `root`'s value range established before `line`, references)."""
        seen = seen if seen is not None else set()
        key = (id(fi), line, root)
        if key in seen or depth > 5:
            return set(), []
        seen = seen | {key}
        cb = [c for c in own_checks(fi, line) if c["root"] == root]
        sides = {c["side"] for c in cb}
        refs = sorted({c["where"] for c in cb})
        if sides >= FULL or is_entry(fi) or root.startswith("self.") or root not in fi.params:
            return sides, refs
        cs = callers.get(id(fi), [])
        if not cs:
            return sides, refs
        common, crefs = None, []
        for c, l, node, aos, kos in cs:
            ao = actual_arg(fi, root, node, aos, kos)
            if ao is None or not ao.paths:
                got, r = set(FULL), [f"constant argument at {c.qual}:{l}"]
            elif ao.constructed:
                got, r = set(FULL), [f"argument produced by {','.join(sorted({x[-1] for _, x in ao.paths}))} at {c.qual}:{l}"]
            else:
                got, r = set(FULL), []
                for r2 in ao.raw_roots:
                    g2, rr = established(c, l, r2, depth + 1, seen)
                    got &= g2; r += rr
            common = got if common is None else (common & got)
            crefs += r
        return sides | (common or set()), refs + sorted(set(crefs))

    def constructed_via_callers(fi: FuncInfo, root: str) -> str | None:
        """a raw parameter of a private helper whose every caller passes a constant or a constructed index."""
        if is_entry(fi) or root not in fi.params:
            return None
        cs = callers.get(id(fi), [])
        if not cs:
            return None
        how = []
        for c, l, node, aos, kos in cs:
            ao = actual_arg(fi, root, node, aos, kos)
            if ao is None or not ao.paths:
                how.append(f"constant at {c.qual}:{l}")
            elif ao.constructed:
                how.append(f"{','.join(sorted({x[-1] for _, x in ao.paths}))} at {c.qual}:{l}")
            else:
                return None
        return "; ".join(how)

    def entries_of(fi: FuncInfo, seen=None):
        seen = seen if seen is not None else set()
        if id(fi) in seen:
            return set()
        seen.add(id(fi))
        out = set()
        if is_entry(fi):
            out.add(fi.qual)
        for c, *_ in callers.get(id(fi), []):
            out |= entries_of(c, seen)
        return out

    sites: list[Site] = []
    for fi in all_funcs:
        ent = sorted(entries_of(fi))
        for s in fi.sites:
            o: Origin = s._origin     # noqa: SLF001
            s.entries = ent
            raw = o.raw_roots
            via = {r: constructed_via_callers(fi, r) for r in raw}
            raw = [r for r in raw if via[r] is None]
            s.raw_roots = raw
            if not raw:
                ops = sorted({c[-1] for r, c in o.paths if c})
                s.guard = "byConstruction"
                s.guard_ref = ("index produced by " + ",".join(ops) if ops else "") + ("; " if ops and any(via.values()) else "") + \
                    "; ".join(f"`{r}`: {v}" for r, v in via.items() if v)
            else:
                est = {r: established(fi, s.line, r) for r in raw}
                if all(est[r][0] >= FULL for r in raw):
                    refs = sorted({w for r in raw for w in est[r][1]})
                    s.guard, s.guard_ref = "explicitCheck", "; ".join(refs)
                elif s.kind in EXPECTED_RAISING:
                    s.guard, s.guard_ref = "kernelRaises", f"torch `{s.kind}` raises on out-of-range indices (probe)"
                else:
                    partial = sorted({f"{side} of `{r}` only ({'; '.join(est[r][1])})" for r in raw for side in est[r][0]})
                    s.guard = "none"
                    s.guard_ref = "; ".join(partial) if partial else "no value check on " + ",".join(f"`{r}`" for r in raw)
            s.guard_ref = s.guard_ref[:240]
            sites.append(s)
    # one row per (file, function, line, kind, operand): a loop body is analysed twice (the second pass
    # sees the values of the first iteration) — keep the row that knows the most sources
    best: dict = {}
    for s in sites:
        k = (s.file, s.func, s.line, s.kind, s.operand)
        if k not in best or len(s.source) > len(best[k].source) or (s.guard == "none" and best[k].guard != "none"):
            best[k] = s
    return sorted(best.values(), key=lambda s: (s.file, s.line, s.kind, s.operand))


# ------------------------------------------------------------------ empirical kernel probe

PROBE_FAULTS = ["-1", "-C", "-C-1", "C", "C+1", "2^31", "-2^63"]

PROBE_CHILD = r'''
import json, resource, sys
resource.setrlimit(resource.RLIMIT_AS, (6 << 30, 6 << 30))
import torch, torch.nn.functional as F
torch.set_num_threads(1)
C = 3
VAL = {"-1": -1, "-C": -C, "-C-1": -C - 1, "C": C, "C+1": C + 1, "2^31": 2 ** 31, "-2^63": -2 ** 63}
base = lambda: torch.tensor([10., 20., 30.])
I = lambda v: torch.tensor([0, v, 1], dtype=torch.int64)
def scatter_(v): return torch.zeros(C).scatter_(0, I(v), 1, reduce="add")
def scatter_add_(v): return torch.zeros(C).scatter_add_(0, I(v), torch.ones(3))
def index_add_(v): return torch.zeros(C).index_add_(0, I(v), torch.ones(3))
def index_put_(v): return torch.zeros(C).index_put_((I(v),), torch.ones(3), accumulate=True)
def gather(v): return base().gather(0, I(v))
def take_along_dim(v): return torch.take_along_dim(base(), I(v), 0)
def index_select(v): return base().index_select(0, I(v))
def one_hot(v): return F.one_hot(I(v), C).sum(0)
def bincount(v): return torch.bincount(I(v), minlength=C)
def histc(v): return torch.histc(I(v).double(), bins=C, min=0, max=C)
def sparse_coo_tensor(v): return torch.sparse_coo_tensor(torch.vstack((I(v), torch.tensor([0, 1, 1]))), torch.ones(3), torch.Size([C, C])).to_dense().sum(1)
def index_get(v): return base()[I(v)]
def index_set(v):
    x = torch.zeros(C); x[I(v)] = 1.0; return x
def index_aug(v):
    x = torch.zeros(3, C); x[range(3), I(v)] += 1; return x.sum(0)
def int_get(v): return base()[v]
def slice_set(v):
    # a 2-column block written at the NON-NEGATIVE start |v| - (1 if v < 0 else 0)  (C-1: partially outside, C…: outside);
    # negative slice bounds follow Python slice semantics and are not produced by sums of shapes / cursors
    x = torch.zeros(2, C); n = 2
    a = min(abs(v) - (1 if v < 0 else 0) + (C - 1 if -C <= v < 0 else 0), 2 ** 62)
    x[:, a:a + n] = torch.ones(2, n); return x.sum(0)
def slice_get(v): return base()[1:v]
def pylist_get(v): return torch.tensor(float([10., 20., 30.][v]))
def pylist_set(v):
    l = [0., 0., 0.]; l[v] = 1.0; return torch.tensor(l)
def topk(v): return base().topk(v).indices
def split(v): return torch.cat([t.sum().reshape(1) for t in base().split([1, v])])
# the two kinds that may touch memory outside their buffers come last, so they cannot disturb the others
KINDS = [scatter_, scatter_add_, index_add_, index_put_, gather, index_select, one_hot, bincount, histc,
         index_get, index_set, index_aug, int_get, slice_set, slice_get, pylist_get, pylist_set, topk, split,
         take_along_dim, sparse_coo_tensor]
def ref(f, v):
    """what `wrap` (index v+C) and `drop` (element removed: index replaced by a duplicate-free in-range
    computation) would give, for the kinds where that is meaningful."""
    out = {}
    try:
        if -C <= v < 0: out["wraps"] = f(v + C)
    except Exception: pass
    return out
def main():
    start = int(sys.argv[1]) if len(sys.argv) > 1 else 0
    jobs = [(f, k) for f in KINDS for k in VAL]
    if start == 0:
        # searchsorted on non-finite values: the result stays inside [0, len]  (first: the unchecked kinds at the
        # end of the list may corrupt this process)
        t = torch.tensor([0., .5, 1.])
        r = torch.searchsorted(t, torch.tensor([float("nan"), float("inf"), -float("inf")]), right=True).tolist()
        print(json.dumps({"searchsorted": r}), flush=True)
    for i in range(start, len(jobs)):
        f, k = jobs[i]; v = VAL[k]
        print(json.dumps({"start": i, "kind": f.__name__, "fault": k}), flush=True)
        if f.__name__ == "bincount" and v > 1000:
            res = "skipped(grows)"
        else:
            try:
                r = f(v)
                if isinstance(r, torch.Tensor) and r.numel() > 64:
                    res = "returned(large)"
                else:
                    lst = r.tolist() if isinstance(r, torch.Tensor) else r
                    res = "returned:" + json.dumps(lst)
                    w = ref(f, v)
                    if "wraps" in w and isinstance(r, torch.Tensor) and w["wraps"].shape == r.shape and torch.equal(w["wraps"], r):
                        res = "wraps"
            except Exception as e:
                res = "raises:" + type(e).__name__
        print(json.dumps({"done": i, "kind": f.__name__, "fault": k, "res": res}), flush=True)
    print(json.dumps({"finished": len(jobs)}), flush=True)
main()
'''

# what each kind does with an in-range-free index when it neither raises nor wraps
DROP_RESULT = {"histc": "[1.0, 1.0, 0.0]", "slice_get": None}


def probe_kernels(timeout=60.0) -> dict:
    """kind -> {fault: outcome}; outcomes: raises:<Exc> | wraps | returned:<json> | crash:<rc> | hang."""
    env = dict(os.environ, PYTHONWARNINGS="ignore")
    res: dict[str, dict] = {}
    extra = {}
    start = 0
    t0 = time.time()
    while True:
        p = subprocess.Popen([sys.executable, "-c", PROBE_CHILD, str(start)], env=env, stdout=subprocess.PIPE, stderr=subprocess.DEVNULL, text=True)
        inflight, finished = None, False
        while True:
            r, _, _ = select.select([p.stdout], [], [], 1.0)
            if time.time() - t0 > timeout:
                p.kill()
                if inflight:
                    res.setdefault(inflight["kind"], {})[inflight["fault"]] = "hang"
                return {"kinds": res, **extra}
            if not r:
                if p.poll() is not None:
                    break
                continue
            line = p.stdout.readline()
            if not line:
                if p.poll() is not None:
                    break
                continue
            try:
                d = json.loads(line)
            except json.JSONDecodeError:
                continue
            if "start" in d:
                inflight = d
            elif "done" in d:
                res.setdefault(d["kind"], {})[d["fault"]] = d["res"]
                start = d["done"] + 1
                inflight = None
            elif "searchsorted" in d:
                extra["searchsorted"] = d["searchsorted"]
            elif "finished" in d:
                finished = True
        rc = p.wait()
        if finished:
            break
        if inflight is not None:
            res.setdefault(inflight["kind"], {})[inflight["fault"]] = f"crash:{rc}"
            start = inflight["start"] + 1
        else:
            break
    return {"kinds": res, **extra}


def behaviour_of(kind: str, out: dict) -> str:
    """raises | wraps | drops | grows | unchecked, from the per-fault observations."""
    vals = [out.get(f, "missing") for f in PROBE_FAULTS]
    if all(v.startswith("raises:") for v in vals):
        return "raises"
    neg_in = [out.get("-1", ""), out.get("-C", "")]
    rest = [out.get(f, "") for f in PROBE_FAULTS if f not in ("-1", "-C")]
    if all(v == "wraps" for v in neg_in) and all(v.startswith("raises:") for v in rest):
        return "wraps"
    if kind == "histc" and all(v == "returned:[1.0, 1.0, 0.0]" for v in vals if v != out.get("C")) and out.get("C") == "returned:[1.0, 1.0, 1.0]":
        return "drops"          # out-of-range values are ignored; the value `max` itself falls into the last bin
    if kind == "slice_get" and all(v.startswith("returned:") or v == "wraps" for v in vals):
        return "clamps"
    if kind == "bincount" and all(out.get(f, "").startswith("raises:") for f in ("-1", "-C", "-C-1", "-2^63")):
        return "grows"          # negative raises; a large value allocates max+1 bins (by design)
    if kind == "topk" and all(out.get(f, "").startswith("raises:") for f in PROBE_FAULTS if f != "C") and out.get("C") == "returned:[2, 1, 0]":
        return "raises"         # k = C (all elements) is in range; k < 0 and k > C raise
    return "unchecked"


# ------------------------------------------------------------------ Lean output

def lstr(s: str) -> str:
    return '"' + s.replace("\\", "\\\\").replace('"', '\\"').replace("\n", " ") + '"'


def render(sites: list[Site], probe: dict) -> str:
    kinds = probe.get("kinds", {})
    out = ["/- GENERATED by harness/translators/indexsites.py from /repo's working tree and the installed torch — do not edit. -/",
           "import TE.Model.Index", "namespace TE.Gen", "open TE.Index", "",
           "/-- (kernel kind, observed behaviour, observations for the indices -1, -C, -C-1, C, C+1, 2^31, -2^63 on a size-C dimension) -/",
           "def kernelBehaviour : List (String × Behaviour × String) := ["]
    rows, other = [], []
    for k in sorted(kinds):
        b = behaviour_of(k, kinds[k])
        detail = "; ".join(f"{f}: {kinds[k].get(f, 'missing')}" for f in PROBE_FAULTS)
        if b in ("raises", "wraps", "drops", "unchecked"):
            rows.append(f"  ({lstr(k)}, Behaviour.{b}, {lstr(detail)})")
        else:
            other.append(f"  ({lstr(k)}, {lstr(b)}, {lstr(detail)})")
    out.append(",\n".join(rows))
    out += ["]", "", "/-- kinds that do not address a fixed buffer: `bincount` grows its output to max+1 (negative values raise),",
            "    a slice READ clamps to the tensor's extent -/",
            "def otherKernels : List (String × String × String) := [", ",\n".join(other), "]", "", "/-- kinds that raised a Python exception for EVERY out-of-range index of the probe -/",
            "def raisingKinds : List String := [" + ", ".join(lstr(k) for k in sorted(kinds) if behaviour_of(k, kinds[k]) == "raises") + "]", "",
            f"/-- `torch.searchsorted([0, .5, 1], [nan, inf, -inf], right=True)` -/",
            "def searchsortedNonFinite : List Nat := [" + ", ".join(str(x) for x in probe.get("searchsorted", [])) + "]", "",
            "def indexSites : List IndexSite := ["]
    rows = []
    for s in sites:
        rows.append("  { file := %s, func := %s, line := %d, kind := %s,\n    operand := %s, source := %s, rawRoots := %s, bound := %s,\n    guard := Guard.%s, guardRef := %s,\n    entries := [%s] }" % (
            lstr(s.file.replace("torcheval/metrics/", "")), lstr(s.func), s.line, lstr(s.kind), lstr(s.operand), lstr(s.source), lstr(",".join(s.raw_roots)), lstr(s.bound),
            s.guard, lstr(s.guard_ref), ", ".join(lstr(e) for e in s.entries)))
    out.append(",\n".join(rows))
    out += ["]", "", "end TE.Gen", ""]
    return "\n".join(out)


def facts(repo: Path | None = None):
    repo = Path(repo) if repo is not None else REPO
    mods, funcs = analyse(repo)
    return classify(mods, funcs)


def entry_roots(sites: list[Site]) -> dict:
    """entry point -> {"label": {root: kinds}, "score": {root: kinds}, "k": {root: kinds}}:
    label  = raw (unconstructed) roots of index operands: user values that reach a kernel as indices
    score  = roots that reach a kernel only through `searchsorted` (threshold bucketing → histc / index)
    k      = roots of a `topk` operand."""
    out: dict = {}
    for s in sites:
        o = getattr(s, "_origin", None)
        for e in s.entries:
            d = out.setdefault(e, {"label": {}, "score": {}, "k": {}})
            if s.kind == "topk":
                for r in ([x for x, _ in o.paths] if o else s.raw_roots):
                    d["k"].setdefault(r, set()).add(s.kind)
                continue
            for r in s.raw_roots:
                d["label"].setdefault(r, set()).add(s.kind)
            if o is not None:
                for r, chain in o.paths:
                    if "searchsorted" in chain:
                        d["score"].setdefault(r, set()).add(s.kind)
    return out


_PROBE_CACHE: dict | None = None


def generate(rep=None, repo: Path | None = None):
    global _PROBE_CACHE
    sites = facts(repo)
    if _PROBE_CACHE is None:
        _PROBE_CACHE = probe_kernels()
    probe = _PROBE_CACHE
    text = render(sites, probe)
    p = LEAN / "TE" / "Gen" / "IndexSites.lean"
    if not p.exists() or p.read_text() != text:
        p.write_text(text)
    if rep is not None:
        by_guard: dict = {}
        for s in sites:
            by_guard[s.guard] = by_guard.get(s.guard, 0) + 1
            rep.count(f"site:{s.kind}:{s.guard}")
        rep.notes.append(f"index-site translator: {len(sites)} sites {by_guard}; kernel probe: "
                         + ", ".join(f"{k}={behaviour_of(k, v)}" for k, v in sorted(probe.get('kinds', {}).items())))
    return sites, probe


if __name__ == "__main__":
    ss, pr = generate()
    for s in ss:
        print(f"{s.file.replace('torcheval/metrics/', '')}:{s.line} {s.func} [{s.kind}] {s.operand!r} <- {s.source}  bound={s.bound}  guard={s.guard} ({s.guard_ref[:70]}) entries={s.entries[:3]}")
    print(len(ss), "sites")
    for k, v in sorted(pr["kinds"].items()):
        print(k, behaviour_of(k, v), v)
