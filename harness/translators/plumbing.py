"""(T) plumbing translator: a small SYMBOLIC EXECUTOR for the bodies of update() / merge_state() /
compute() of every registry class.  It runs the Python AST of the method (self-method calls are
inlined, `.to()/.clone()/.detach()` are identities, `for metric in metrics` is unrolled over two
symbolic source metrics, every `if` forks a path) over symbolic terms and reads off, per registered
state,

  * how update() accumulates it   : add | max | min | append  of a term that does not mention the
                                    object's own state (an output of the functional helper, an argument)
  * how merge_state() folds it    : add | max | min of the SAME state of each source, in order, or
                                    "append torch.cat(source.state, d) when source.<guard> is non-empty"
  * how compute() reads it        : as such (numeric states) / only through torch.cat(state, d) and
                                    emptiness tests (list states)

A class whose three methods have this normal form gets a `ClassPlumb` row in
lean/TE/Gen/Plumbing.lean; TE.Props.C01_Plumb proves, for EVERY well-formed row (TE.Plumb.WF, a
decidable predicate) and every history of updates / merges / resets, that the object's state content
and result equal those of a single instance fed the surviving batches in order, and `decide`s that
every generated row is well-formed.  A class outside the normal form is listed with the reason
(`unsupported`); the list is pinned by a theorem, so a class that leaves the normal form breaks an
obligation.  The symbolic facts are cross-checked dynamically (`crosscheck`) by executing the
extracted plumbing with the real functional helpers next to the real class.
Regenerates lean/TE/Gen/Plumbing.lean on every run.

Second part of the file (`XExec` and below): the classes outside that first normal form.  A row is a list of FACTS
(TE/Model/Plumb.lean): `num` / `lst` as above plus `adopt` (the scalar->vector adoption branch of MeanSquaredError /
R2Score, in update AND merge_state), `task` (`for i in range(self.num_tasks): self.f[i] += ...`, BinaryBinnedAUPRC),
`der` / `const` (PeakSignalNoiseRatio: `data_range = max_target - min_target` recomputed after every accumulation;
states nobody writes), a row MODE (one row per branch of `if self.<constructor flag>:`), `cmp` (AUC compacts its own
lists at the start of merge_state), a cat dimension that is a constant state (Cat), `welford` (Covariance: one joint
combine method, checked against the Chan template, called by update and by merge_state per source) and `topk`
(RetrievalPrecision / RetrievalRecall: per-query retained lists, described as the code is — merge_state does not
re-prune).  `Exec` itself is unchanged (translators/winplumb.py subclasses it); the five windowed classes keep the
analysis of the first part (`analyse_basic`)."""
from __future__ import annotations
import ast, inspect, textwrap
from ..common import LEAN, Report
from ..registry import SPECS, new_metric, fresh_cfg
from .states import class_methods

IDENT_METHODS = {"to", "clone", "detach", "contiguous", "cpu"}


class Unsupported(Exception):
    pass


def st(owner, f):
    return ("st", owner, f)


def mentions(term, pred):
    if pred(term):
        return True
    if isinstance(term, tuple):
        return any(mentions(t, pred) for t in term)
    return False


def own_state(term):
    return isinstance(term, tuple) and len(term) == 3 and term[0] == "st" and term[1] == "self"


class Env:
    def __init__(self, states, list_states, state0, locals_=None, conds=None, checks=None, alias=None):
        self.states = states              # set of registered state names
        self.list_states = list_states    # subset holding python lists
        self.state = dict(state0)         # field -> term (current value of self.<field>)
        self.locals = dict(locals_ or {})
        self.conds = list(conds or [])
        self.checks = list(checks or [])  # helper calls made for their validation effect
        self.alias = dict(alias or {})    # local name -> own list state it aliases

    def fork(self):
        return Env(self.states, self.list_states, self.state, self.locals, self.conds, self.checks, self.alias)


class Exec:
    def __init__(self, cls, states, list_states, metrics_param=None, n_src=2):
        self.cls = cls
        self.meths = class_methods(cls)
        import sys
        self.globs = {}
        for k in reversed(cls.__mro__):
            if k.__module__.startswith("torcheval") and k.__module__ in sys.modules:
                self.globs.update(vars(sys.modules[k.__module__]))
        self.states, self.list_states = set(states), set(list_states)
        self.metrics_param = metrics_param
        self.n_src = n_src
        self.depth = 0

    # ---------------------------------------------------------------- expressions
    def ev(self, e, env: Env):
        if isinstance(e, ast.Constant):
            return ("const", repr(e.value))
        if isinstance(e, ast.Name):
            if e.id in env.locals:
                return env.locals[e.id]
            if e.id in self.globs:
                v = self.globs[e.id]
                if isinstance(v, (str, int, float, bool, type(None))):
                    return ("const", repr(v))
                if isinstance(v, (tuple, list)) and all(isinstance(x, (str, int, float, bool, type(None))) for x in v):
                    return ("tuple",) + tuple(("const", repr(x)) for x in v)
            return ("glob", e.id)
        if isinstance(e, ast.Attribute):
            if isinstance(e.value, ast.Name) and e.value.id == "self":
                if e.attr in self.states:
                    return env.state[e.attr]
                return ("cfg", e.attr)
            base = self.ev(e.value, env)
            if base[0] == "obj":
                if e.attr in self.states:
                    return st(base[1], e.attr)
                return ("ocfg", base[1], e.attr)
            if base[0] == "glob":
                return ("glob", base[1] + "." + e.attr)
            return ("attr", base, e.attr)
        if isinstance(e, ast.Tuple) or isinstance(e, ast.List):
            return ("tuple" if isinstance(e, ast.Tuple) else "list",) + tuple(self.ev(x, env) for x in e.elts)
        if isinstance(e, ast.BinOp):
            a, b = self.ev(e.left, env), self.ev(e.right, env)
            if isinstance(e.op, ast.Add):
                return ("add", a, b)
            return ("bin", type(e.op).__name__, a, b)
        if isinstance(e, ast.UnaryOp):
            v = self.ev(e.operand, env)
            if isinstance(e.op, ast.Not):
                return self.neg(self.truth(v))
            if isinstance(e.op, ast.USub) and v[0] == "const":
                return ("const", repr(-eval(v[1])))
            return ("un", type(e.op).__name__, v)
        if isinstance(e, ast.Compare):
            left = self.ev(e.left, env)
            if len(e.ops) != 1:
                raise Unsupported("chained comparison")
            right = self.ev(e.comparators[0], env)
            op = type(e.ops[0]).__name__
            # emptiness tests on lists
            if left[0] == "len" and right == ("const", "0") and op in ("Eq", "NotEq", "Gt"):
                ne = ("nonempty", left[1])
                return self.neg(ne) if op == "Eq" else ne
            if right == ("list",) and op in ("Eq", "NotEq"):
                ne = ("nonempty", left)
                return self.neg(ne) if op == "Eq" else ne
            if op in ("Is", "IsNot") and right == ("const", "None"):
                c = ("isnone", left)
                return c if op == "Is" else self.neg(c)
            return ("cmp", op, left, right)
        if isinstance(e, ast.BoolOp):
            vals = [self.truth(self.ev(v, env)) for v in e.values]
            return ("and" if isinstance(e.op, ast.And) else "or",) + tuple(vals)
        if isinstance(e, ast.Subscript):
            base = self.ev(e.value, env)
            return ("idx", base, ("src", ast.unparse(e.slice)))
        if isinstance(e, ast.IfExp):
            return ("ite", self.truth(self.ev(e.test, env)), self.ev(e.body, env), self.ev(e.orelse, env))
        if isinstance(e, ast.JoinedStr):
            return ("const", "fstring")
        if isinstance(e, ast.Call):
            return self.call(e, env)
        if isinstance(e, ast.Starred):
            return ("star", self.ev(e.value, env))
        if isinstance(e, (ast.ListComp, ast.GeneratorExp)) and len(e.generators) == 1 and not e.generators[0].ifs \
                and isinstance(e.generators[0].target, ast.Name) and not e.generators[0].is_async:
            it = self.ev(e.generators[0].iter, env)
            if it[0] in ("tuple", "list") and all(x[0] == "const" for x in it[1:]):
                tgt = e.generators[0].target.id
                saved = env.locals.get(tgt, None)
                items = []
                for x in it[1:]:
                    env.locals[tgt] = x
                    items.append(self.ev(e.elt, env))
                if saved is None:
                    env.locals.pop(tgt, None)
                else:
                    env.locals[tgt] = saved
                return ("list",) + tuple(items)
            raise Unsupported("comprehension over a non-constant sequence")
        if isinstance(e, (ast.ListComp, ast.GeneratorExp, ast.DictComp, ast.SetComp, ast.Lambda)):
            raise Unsupported("comprehension")
        raise Unsupported("expression " + type(e).__name__)

    @staticmethod
    def neg(c):
        if isinstance(c, tuple) and c and c[0] == "not":
            return c[1]
        return ("not", c)

    def truth(self, v):
        """truthiness of a term used as a condition."""
        if v[0] in ("nonempty", "not", "isnone", "cmp", "and", "or"):
            return v
        if self.is_listy(v):
            return ("nonempty", v)
        return ("truthy", v)

    def is_listy(self, v):
        if v[0] == "st" and v[2] in self.list_states:
            return True
        return v[0] in ("app", "list")

    def const_int(self, t, default=None):
        if t is None:
            return default
        if t[0] == "const":
            try:
                return int(eval(t[1]))
            except Exception:  # noqa: BLE001
                pass
        return t

    def call(self, e: ast.Call, env: Env):
        f = e.func
        if any(k.arg is None for k in e.keywords):
            raise Unsupported("** arguments")
        # `list(metrics)` / `tuple(metrics)`: materialising the iterable of sources (so that it can be walked twice) is the
        # identity on the symbolic sources
        if isinstance(f, ast.Name) and f.id in ("list", "tuple") and len(e.args) == 1 and not e.keywords:
            a0 = self.ev(e.args[0], env)
            if a0 == ("metrics",):
                return a0
        # method calls
        if isinstance(f, ast.Attribute):
            # self.method(...)  -> inline
            if isinstance(f.value, ast.Name) and f.value.id == "self" and f.attr in self.meths and f.attr not in self.states:
                return self.inline(f.attr, e, env)
            if f.attr in ("append", "extend"):
                field = self.own_list_field(f.value, env)
                if field is not None:
                    if len(e.args) != 1:
                        raise Unsupported("append arity")
                    x = self.ev(e.args[0], env)
                    if f.attr == "extend":
                        raise Unsupported("list.extend on a state")
                    env.state[field] = ("app", env.state[field], x)
                    return ("const", "None")
            recv = self.ev(f.value, env)
            if f.attr in IDENT_METHODS:
                return recv
            if recv[0] == "glob":      # module function, e.g. torch.cat
                return self.fcall(recv[1] + "." + f.attr, e, env)
            args = tuple(self.ev(a, env) for a in e.args)
            kw = tuple(sorted((k.arg, self.ev(k.value, env)) for k in e.keywords))
            return ("mcall", f.attr, recv, args, kw)
        if isinstance(f, ast.Name):
            return self.fcall(f.id, e, env)
        raise Unsupported("call target")

    def fcall(self, name, e, env):
        args = []
        for a in e.args:
            v = self.ev(a, env)
            if v[0] == "star" and v[1][0] in ("tuple", "list"):
                args += list(v[1][1:])
            else:
                args.append(v)
        kw = {k.arg: self.ev(k.value, env) for k in e.keywords}
        if name == "torch.cat":
            lst = args[0] if args else kw.get("tensors")
            dim = args[1] if len(args) > 1 else kw.get("dim")
            return ("cat", lst, self.const_int(dim, 0))
        if name in ("torch.max", "torch.maximum", "max") and len(args) == 2 and not kw:
            return ("max", args[0], args[1])
        if name in ("torch.min", "torch.minimum", "min") and len(args) == 2 and not kw:
            return ("min", args[0], args[1])
        if name == "len" and len(args) == 1:
            return ("len", args[0])
        if name == "getattr" and len(args) == 2 and args[1][0] == "const" and isinstance(eval(args[1][1]), str):
            return self.ev(ast.Attribute(value=e.args[0], attr=eval(args[1][1]), ctx=ast.Load()), env)
        if name == "setattr" and len(args) == 3 and isinstance(e.args[0], ast.Name) and e.args[0].id == "self" and args[1][0] == "const":
            self.assign(ast.Attribute(value=ast.Name(id="self", ctx=ast.Load()), attr=eval(args[1][1]), ctx=ast.Store()), args[2], env)
            return ("const", "None")
        if name in ("isinstance",):
            return ("truthy", ("call", name, tuple(args), ()))
        return ("call", name, tuple(args), tuple(sorted(kw.items())))

    def own_list_field(self, recv_ast, env):
        if isinstance(recv_ast, ast.Attribute) and isinstance(recv_ast.value, ast.Name) and recv_ast.value.id == "self" \
                and recv_ast.attr in self.list_states:
            return recv_ast.attr
        if isinstance(recv_ast, ast.Name) and recv_ast.id in env.alias:
            return env.alias[recv_ast.id]
        if isinstance(recv_ast, ast.Call) and isinstance(recv_ast.func, ast.Name) and recv_ast.func.id == "getattr" and len(recv_ast.args) == 2 \
                and isinstance(recv_ast.args[0], ast.Name) and recv_ast.args[0].id == "self":
            try:
                n = self.ev(recv_ast.args[1], env)
            except Unsupported:
                return None
            if n[0] == "const" and isinstance(eval(n[1]), str) and eval(n[1]) in self.list_states:
                return eval(n[1])
        return None

    def bind_params(self, fn, e, env):
        params = [a.arg for a in fn.args.args][1:]
        if fn.args.vararg or fn.args.kwarg:
            raise Unsupported("varargs method")
        bound = {}
        defaults = fn.args.defaults
        for p_, d in zip(params[len(params) - len(defaults):], defaults):
            bound[p_] = self.ev(d, env)
        pos = []
        for a in e.args:
            v = self.ev(a, env)
            if v[0] == "star":
                inner = v[1]
                rest = len(params) - len(pos) - sum(1 for k in e.keywords if k.arg in params)
                if inner[0] in ("tuple", "list"):
                    pos += list(inner[1:])
                else:
                    pos += [("out", inner, i) for i in range(rest)]
            else:
                pos.append(v)
        for p_, v in zip(params, pos):
            bound[p_] = v
        for k in e.keywords:
            bound[k.arg] = self.ev(k.value, env)
        for a, d in zip(fn.args.kwonlyargs, fn.args.kw_defaults):
            if a.arg not in bound and d is not None:
                bound[a.arg] = self.ev(d, env)
        return bound

    def inline_paths(self, name, e, env):
        """-> list of (env, return value term) for self.<name>(...) (raising paths keep their outcome)."""
        if self.depth > 3:
            raise Unsupported("inlining depth")
        fn = self.meths[name]
        bound = self.bind_params(fn, e, env)
        saved, saved_alias = env.locals, env.alias
        env.locals, env.alias = bound, {}
        self.depth += 1
        try:
            outs = self.block(fn.body, env)
        finally:
            self.depth -= 1
        res = []
        for en, oc in outs:
            en.locals, en.alias = dict(saved), dict(saved_alias)
            if oc is None:
                res.append((en, None, ("const", "None")))
            elif oc[0] == "return":
                res.append((en, None, oc[1]))
            else:
                res.append((en, oc, None))
        return res

    def inline(self, name, e, env):
        n_conds, state0 = len(env.conds), dict(env.state)
        outs = self.inline_paths(name, e, env.fork() if True else env)
        if len(outs) > 1 and all(oc is None and en.state == state0 for en, oc, _ in outs):
            # a pure helper method with several returns: its value is a conditional term
            def combine(paths):
                if len(paths) == 1 and not paths[0][0]:
                    return paths[0][1]
                if any(not cs for cs, _ in paths):
                    raise Unsupported(f"self.{name}(): paths do not partition")
                c = paths[0][0][0]
                pos = [(cs[1:], v) for cs, v in paths if cs[0] == c]
                neg = [(cs[1:], v) for cs, v in paths if cs[0] == self.neg(c)]
                if len(pos) + len(neg) != len(paths) or not pos or not neg:
                    raise Unsupported(f"self.{name}(): paths do not partition")
                return ("ite", c, combine(pos), combine(neg))
            val = combine([(en.conds[n_conds:], v) for en, _, v in outs])
            for en, _, _ in outs:
                env.checks = en.checks if len(en.checks) > len(env.checks) else env.checks
            return val
        if len(outs) != 1 or outs[0][1] is not None:
            raise Unsupported(f"self.{name}() forks or raises in expression position")
        en, _, val = outs[0]
        if en is not env:
            env.state, env.conds, env.checks, env.locals, env.alias = en.state, en.conds, en.checks, en.locals, en.alias
        return val

    # ---------------------------------------------------------------- statements
    def block(self, stmts, env: Env):
        """-> list of (env, outcome); outcome None = fell through."""
        live = [env]
        done = []
        for s in stmts:
            nxt = []
            for en in live:
                for en2, oc in self.stmt(s, en):
                    (nxt if oc is None else done).append((en2, oc) if oc is not None else en2)
            live = nxt
            if not live:
                break
            if len(live) + len(done) > 64:
                raise Unsupported("too many paths")
        return [(en, None) for en in live] + done

    def assign(self, target, val, env, val_ast=None):
        if isinstance(target, ast.Name):
            env.locals[target.id] = val
            env.alias.pop(target.id, None)
            if val_ast is not None:
                f = self.own_list_field(val_ast, env)
                if f is not None:
                    env.alias[target.id] = f
            return
        if isinstance(target, ast.Attribute) and isinstance(target.value, ast.Name) and target.value.id == "self":
            if target.attr in self.states:
                env.state[target.attr] = val
            else:
                env.locals["self." + target.attr] = val
                raise Unsupported(f"writes plain attribute self.{target.attr}")
            return
        if isinstance(target, (ast.Tuple, ast.List)):
            for i, t in enumerate(target.elts):
                if val[0] in ("tuple", "list") and len(val) - 1 == len(target.elts):
                    self.assign(t, val[1 + i], env)
                else:
                    self.assign(t, ("out", val, i), env)
            return
        if isinstance(target, ast.Subscript):
            raise Unsupported("subscript assignment")
        raise Unsupported("assignment target")

    def stmt(self, s, env: Env):
        if isinstance(s, ast.Expr):
            if isinstance(s.value, ast.Constant):
                return [(env, None)]
            c = s.value
            if isinstance(c, ast.Call) and isinstance(c.func, ast.Attribute) and isinstance(c.func.value, ast.Name) \
                    and c.func.value.id == "self" and c.func.attr in self.meths and c.func.attr not in self.states:
                return [(en, oc) for en, oc, _ in self.inline_paths(c.func.attr, c, env)]
            v = self.ev(s.value, env)
            if v[0] == "call":
                env.checks.append(v)
            return [(env, None)]
        if isinstance(s, ast.Assign):
            if len(s.targets) != 1:
                raise Unsupported("multiple assignment targets")
            v = self.ev(s.value, env)
            self.assign(s.targets[0], v, env, s.value)
            return [(env, None)]
        if isinstance(s, ast.AnnAssign):
            if s.value is None:
                return [(env, None)]
            self.assign(s.target, self.ev(s.value, env), env, s.value)
            return [(env, None)]
        if isinstance(s, ast.AugAssign):
            cur = self.ev(s.target, env)
            v = self.ev(s.value, env)
            if isinstance(s.op, ast.Add):
                new = ("add", cur, v)
            else:
                new = ("bin", type(s.op).__name__, cur, v)
            self.assign(s.target, new, env)
            return [(env, None)]
        if isinstance(s, ast.Return):
            return [(env, ("return", self.ev(s.value, env) if s.value is not None else ("const", "None")))]
        if isinstance(s, ast.Raise):
            name = "?"
            if isinstance(s.exc, ast.Call) and isinstance(s.exc.func, ast.Name):
                name = s.exc.func.id
            elif isinstance(s.exc, ast.Name):
                name = s.exc.id
            return [(env, ("raise", name))]
        if isinstance(s, ast.Pass):
            return [(env, None)]
        if isinstance(s, ast.Assert):
            env.checks.append(("assert", ("src", ast.unparse(s.test))))
            return [(env, None)]
        if isinstance(s, ast.With):
            return self.block(s.body, env)
        if isinstance(s, ast.If):
            c = self.truth(self.ev(s.test, env))
            a, b = env, env.fork()
            a.conds.append(c)
            b.conds.append(self.neg(c))
            return self.block(s.body, a) + self.block(s.orelse, b)
        if isinstance(s, ast.For):
            it = self.ev(s.iter, env)
            if it[0] in ("tuple", "list") and all(x[0] == "const" for x in it[1:]) and not s.orelse and isinstance(s.target, ast.Name):
                live, done = [env], []
                for x in it[1:]:
                    nxt = []
                    for en in live:
                        en.locals[s.target.id] = x
                        for en2, oc in self.block(s.body, en):
                            if oc is None or oc == ("continue",):
                                nxt.append(en2)
                            else:
                                done.append((en2, None if oc == ("break",) else oc))
                    live = nxt
                return [(en, None) for en in live] + done
            if it[0] != "metrics" or s.orelse:
                raise Unsupported("loop other than `for m in metrics`")
            live, done = [env], []
            for k in range(self.n_src):
                nxt = []
                for en in live:
                    self.assign(s.target, ("obj", f"m{k + 1}"), en)
                    for en2, oc in self.block(s.body, en):
                        if oc is None or oc == ("continue",):
                            nxt.append(en2)
                        elif oc == ("break",):
                            done.append((en2, ("brk",)))
                        else:
                            done.append((en2, oc))
                live = nxt
            out = [(en, None) for en in live]
            for en2, oc in done:
                out.append((en2, None if oc == ("brk",) else oc))
            return out
        if isinstance(s, ast.Continue):
            return [(env, ("continue",))]
        if isinstance(s, ast.Break):
            return [(env, ("break",))]
        raise Unsupported("statement " + type(s).__name__)

    # ---------------------------------------------------------------- entry
    def run(self, name):
        fn = self.meths[name]
        params = [a.arg for a in fn.args.args][1:] + [a.arg for a in fn.args.kwonlyargs]
        state0 = {f: st("self", f) for f in self.states}
        env = Env(self.states, self.list_states, state0)
        for p in params:
            env.locals[p] = ("metrics",) if (name == "merge_state" and p == params[0]) else ("arg", p)
        return self.block(fn.body, env)


# -------------------------------------------------------------------- normal forms

def strip_acc(term, field, ops):
    """term = op(st self field, X) or op(X, st self field) with X free of own state -> (op, X)."""
    if term == st("self", field):
        return ("same", None)
    if term[0] in ops and len(term) == 3:
        a, b = term[1], term[2]
        if a == st("self", field) and not mentions(b, own_state):
            return (term[0], b)
        if b == st("self", field) and not mentions(a, own_state) and term[0] != "app":
            return (term[0], a)
    return None


def show(t):
    if not isinstance(t, tuple):
        return str(t)
    k = t[0]
    if k == "st":
        return f"{t[1]}.{t[2]}"
    if k in ("arg", "cfg", "glob"):
        return {"arg": "", "cfg": "self.", "glob": ""}[k] + t[1]
    if k == "const":
        return t[1]
    if k == "src":
        return t[1]
    if k == "out":
        return f"{show(t[1])}[{t[2]}]"
    if k == "call":
        a = [show(x) for x in t[2]] + [f"{n}={show(v)}" for n, v in t[3]]
        return f"{t[1]}({', '.join(a)})"
    if k == "mcall":
        a = [show(x) for x in t[3]] + [f"{n}={show(v)}" for n, v in t[4]]
        return f"{show(t[2])}.{t[1]}({', '.join(a)})"
    if k == "cat":
        return f"cat({show(t[1])}, {show(t[2]) if isinstance(t[2], tuple) else t[2]})"
    return k + "(" + ", ".join(show(x) for x in t[1:]) + ")"


def norm_update(ex: Exec):
    outs = ex.run("update")
    ok = [(en, oc) for en, oc in outs if oc is None or oc[0] == "return"]
    if not ok:
        raise Unsupported("update never returns")
    per_field = {}
    for en, _ in ok:
        for f in sorted(ex.states):
            r = strip_acc(en.state[f], f, ("add", "max", "min", "app"))
            if r is None:
                raise Unsupported(f"update of {f} is not `state op= term`: {show(en.state[f])[:80]}")
            per_field.setdefault(f, set()).add(r[0])
    ops = {}
    srcs = {}
    for f, s in per_field.items():
        s2 = s - {"same"}
        if len(s2) > 1:
            raise Unsupported(f"update of {f} uses different operations on different paths")
        if "same" in s and s2:
            raise Unsupported(f"update of {f} is conditional")
        ops[f] = next(iter(s2)) if s2 else "same"
    for f in ops:
        terms = sorted({show(strip_acc(en.state[f], f, ("add", "max", "min", "app"))[1]) for en, _ in ok if ops[f] != "same"})
        srcs[f] = " | ".join(terms)
    raises = sorted({oc[1] for _, oc in outs if oc is not None and oc[0] == "raise"})
    checks = sorted({show(c) for en, _ in ok for c in en.checks})
    return ops, srcs, {"paths": len(ok), "raises": raises, "checks": checks}


def norm_merge(ex: Exec):
    outs = ex.run("merge_state")
    if any(oc is not None and oc[0] == "raise" for _, oc in outs):
        raise Unsupported("merge_state raises on some path")
    res = {}
    n = ex.n_src
    srcs = [f"m{k + 1}" for k in range(n)]
    for f in sorted(ex.states):
        if f in ex.list_states:
            # every path: appended cats of exactly the sources whose guard is non-empty
            guard = dim = src = None
            for en, _ in outs:
                ne = {}
                for c in en.conds:
                    neg = c[0] == "not"
                    c2 = c[1] if neg else c
                    if c2[0] == "nonempty" and c2[1][0] == "st" and c2[1][1] in srcs:
                        if guard not in (None, c2[1][2]):
                            raise Unsupported(f"merge of {f}: guards on different states")
                        guard = c2[1][2]
                        ne[c2[1][1]] = not neg
                    else:
                        raise Unsupported(f"merge path condition {show(c2)[:60]}")
                t = en.state[f]
                items = []
                while t[0] == "app":
                    items.append(t[2])
                    t = t[1]
                if t != st("self", f):
                    raise Unsupported(f"merge rebinds list state {f}")
                items.reverse()
                want = [m for m in srcs if ne.get(m, None)]
                if any(m not in ne for m in srcs):
                    if ne:
                        raise Unsupported(f"merge of {f}: a source is not guarded on some path")
                    want = None
                got = []
                for it in items:
                    if it[0] != "cat" or it[1][0] != "st" or it[1][1] not in srcs:
                        raise Unsupported(f"merge appends {show(it)[:60]} to {f}")
                    if not isinstance(it[2], int):
                        raise Unsupported(f"merge of {f}: non-constant cat dim {show(it[2])}")
                    if dim not in (None, it[2]) or src not in (None, it[1][2]):
                        raise Unsupported(f"merge of {f}: sources differ in dim / state")
                    dim, src = it[2], it[1][2]
                    got.append(it[1][1])
                if want is None:
                    if got != srcs:
                        raise Unsupported(f"merge of {f}: unguarded append does not cover the sources in order")
                elif got != want:
                    raise Unsupported(f"merge of {f}: appended sources {got} on the path where {want} are non-empty")
            if src is None:
                raise Unsupported(f"merge never appends to {f}")
            res[f] = ("catAppend", src, guard if guard is not None else "", dim)
        else:
            if len(outs) != 1:
                pass
            forms = set()
            for en, _ in outs:
                t = en.state[f]
                chain = []
                op = None
                while t != st("self", f):
                    if t[0] not in ("add", "max", "min") or len(t) != 3:
                        raise Unsupported(f"merge of {f} is not a fold: {show(t)[:80]}")
                    if op not in (None, t[0]):
                        raise Unsupported(f"merge of {f} mixes operations")
                    op = t[0]
                    a, b = t[1], t[2]
                    if b[0] == "st" and b[1] in srcs:
                        chain.append(b)
                        t = a
                    elif a[0] == "st" and a[1] in srcs and (b == st("self", f) or b[0] in ("add", "max", "min")):
                        chain.append(a)
                        t = b
                    else:
                        raise Unsupported(f"merge of {f} is not a fold over the sources: {show(t)[:80]}")
                chain.reverse()
                if [c[1] for c in chain] != srcs:
                    raise Unsupported(f"merge of {f} folds sources {[c[1] for c in chain]}")
                fs = {c[2] for c in chain}
                if len(fs) != 1:
                    raise Unsupported(f"merge of {f} reads different states of different sources")
                forms.add((op, fs.pop()))
            if len(forms) != 1:
                raise Unsupported(f"merge of {f} differs between paths")
            op, src = forms.pop()
            res[f] = (op, src, "", 0)
    return res


def reads_of(term, field, ctx=None, acc=None):
    """contexts in which st(self, field) occurs in a term: ('cat', d) | 'len' | 'raw'."""
    if acc is None:
        acc = []
    if term == st("self", field):
        acc.append(ctx or "raw")
        return acc
    if isinstance(term, tuple) and term:
        if term[0] == "cat" and term[1] == st("self", field):
            acc.append(("cat", term[2]))
            return acc
        if term[0] in ("nonempty", "len") and term[1] == st("self", field):
            acc.append("len")
            return acc
        for t in term:
            reads_of(t, field, None, acc)
    return acc


def norm_compute(ex: Exec):
    outs = ex.run("compute")
    reads = {f: [] for f in ex.states}
    descr = []
    for en, oc in outs:
        for f in ex.states:
            if en.state[f] != st("self", f):
                raise Unsupported(f"compute writes state {f}")
            for c in en.conds:
                reads_of(c, f, None, reads[f])
            if oc is not None and oc[0] == "return":
                reads_of(oc[1], f, None, reads[f])
            for c in en.checks:
                reads_of(c, f, None, reads[f])
        conds = " and ".join(show(c) for c in en.conds) or "always"
        if oc is None:
            descr.append((conds, "return", "None"))
        elif oc[0] == "raise":
            descr.append((conds, "raise", oc[1]))
        else:
            descr.append((conds, "return", show(oc[1])))
    return reads, descr


def default_is_unit(v, op):
    import torch
    u = {"add": 0.0, "max": float("-inf"), "min": float("inf")}[op]
    if isinstance(v, torch.Tensor):
        return bool(torch.all(v == u)) if v.numel() else True
    if isinstance(v, (int, float)) and not isinstance(v, bool):
        return float(v) == u
    return False


# ==================================================================== extended executor / normal forms
#
# What the classes outside the first normal form need (each is a FACT of the row, see TE/Model/Plumb.lean):
#   * mode        : `if self.<flag>:` on a constructor flag -> one row per branch (PeakSignalNoiseRatio.auto_range)
#   * adopt       : `if self.G.ndim == 0 and X.ndim == 1: self.f = X  else: self.f += X`   (MeanSquaredError, R2Score)
#   * task        : `for i in range(self.num_tasks): self.f[i] += helper(args[i])`          (BinaryBinnedAUPRC)
#   * der / const : `self.d = self.a - self.b` recomputed after the accumulation; states nobody writes
# Refactorings that must not change the row: module-level helper functions of the class's own module are inlined,
# `*a, b = helper(...)`, loops over literal tuples / zip(...) of them are unrolled, a condition already decided on the
# path is not forked again, `getattr/setattr(self, <name>)` with a name known on the path; a local that holds a state
# OBJECT (`cs = (self.a, self.b)`; `for c, d in zip(cs, helper(x)): c[i] += d` = the unrolled `self.a[i] += helper(x)[0];
# self.b[i] += helper(x)[1]`, the helper's tuple length read off its source: `own_field`, `result_arity`); a list
# comprehension over unrollable items / over `range(n)` = the append loop with a pure element (`comprehension`).

def _is(t, k):
    return isinstance(t, tuple) and len(t) > 0 and t[0] == k


def cfg_only(t):
    """a condition that only reads the configuration (plain attributes of self) and constants."""
    def ok(x):
        if not isinstance(x, tuple):
            return True
        if x[0] in ("cfg", "const"):
            return True
        if x[0] in ("truthy", "not", "cmp", "and", "or", "isnone", "bin", "un"):
            return all(ok(y) for y in x[1:])
        return False
    return ok(t) and mentions(t, lambda x: _is(x, "cfg"))


class XExec(Exec):
    def __init__(self, cls, states, list_states, metrics_param=None, n_src=2, mode=None):
        super().__init__(cls, states, list_states, metrics_param, n_src)
        self.mode = dict(mode or {})          # cfg-only condition -> bool (the row's mode)
        self.cfg_conds = set()                # cfg-only conditions met (candidates for a mode split)
        self.loops = []                       # active `for i in range(n)` loops: (id, n)
        self.nloops = 0
        self.own_modules = {k.__module__ for k in cls.__mro__ if k.__module__.startswith("torcheval")}
        self._fn_cache = {}

    # ---- conditions
    def decide(self, c, env):
        """True / False if the path (or the row's mode) already decides the condition, else None."""
        if c in env.conds:
            return True
        if self.neg(c) in env.conds:
            return False
        neg = _is(c, "not")
        p = c[1] if neg else c
        if cfg_only(p):
            self.cfg_conds.add(p)
            if p in self.mode:
                return self.mode[p] != neg
        return None

    # ---- expressions
    def ev(self, e, env: Env):
        if isinstance(e, ast.Subscript):
            base = self.ev(e.value, env)
            sl = e.slice
            if isinstance(sl, ast.Name) and (_is(env.locals.get(sl.id), "loopvar") or
                                             (_is(env.locals.get(sl.id), "const") and _is(base, "st") and base[2] in self.list_states)):
                return ("idx", base, env.locals[sl.id])
            if isinstance(sl, ast.Constant) and isinstance(sl.value, int) and not isinstance(sl.value, bool):
                i = sl.value
                if base[0] in ("tuple", "list") and 0 <= i < len(base) - 1:
                    return base[1 + i]
                if base[0] == "outs" and i >= 0:
                    return ("out", base[1], base[2] + i)
            return ("idx", base, ("src", ast.unparse(sl)))
        if isinstance(e, ast.IfExp):
            c = self.truth(self.ev(e.test, env))
            d = self.decide(c, env)
            if d is not None:
                return self.ev(e.body if d else e.orelse, env)
            return ("ite", c, self.ev(e.body, env), self.ev(e.orelse, env))
        if isinstance(e, ast.BinOp) and isinstance(e.op, ast.Add):
            a, b = self.ev(e.left, env), self.ev(e.right, env)
            if _is(a, "list") and _is(b, "list"):
                return a + b[1:]                      # [x] + [y, z]
            return ("add", a, b)
        if isinstance(e, ast.ListComp) and len(e.generators) == 1 and not e.generators[0].ifs and isinstance(e.generators[0].target, ast.Name) \
                and not e.generators[0].is_async and self.ev(e.generators[0].iter, env) == ("metrics",):
            tgt = e.generators[0].target.id
            saved = env.locals.get(tgt)
            items = []
            for k in range(self.n_src):
                env.locals[tgt] = ("obj", f"m{k + 1}")
                items.append(self.ev(e.elt, env))
            if saved is None:
                env.locals.pop(tgt, None)
            else:
                env.locals[tgt] = saved
            return ("list",) + tuple(items)           # [f(m) for m in metrics], in the order of the sources
        if isinstance(e, ast.JoinedStr):
            parts = []
            for v in e.values:
                if isinstance(v, ast.Constant):
                    parts.append(str(v.value))
                    continue
                t = self.ev(v.value, env) if isinstance(v, ast.FormattedValue) and v.format_spec is None and v.conversion == -1 else None
                if t is not None and t[0] == "const" and isinstance(eval(t[1]), (str, int)) and not isinstance(eval(t[1]), bool):
                    parts.append(str(eval(t[1])))
                else:
                    return ("fstr", ast.unparse(e))
            return ("const", repr("".join(parts)))
        if isinstance(e, (ast.ListComp, ast.GeneratorExp)) and len(e.generators) == 1 and not e.generators[0].ifs \
                and not e.generators[0].is_async:
            r = self.comprehension(e, env)
            if r is not None:
                return r
        return super().ev(e, env)

    def comprehension(self, e, env):
        """`[elt for x in <unrollable items>]` -> the list of the elements; `[elt for i in range(n)]` with a symbolic n
        -> ("listcomp", n, loop, elt for a generic i): the append loop `for i in range(n): r.append(elt)` written as an
        expression (a private method called in `elt` is inlined as everywhere).  The element must be pure: it leaves
        every state alone and does not fork."""
        g = e.generators[0]
        it = self.ev(g.iter, env)
        if it[0] == "metrics":
            return None
        items = self.loop_items(it)
        generic = items is None and it[0] == "call" and it[1] == "range" and len(it[2]) == 1 and not it[3] and isinstance(g.target, ast.Name)
        if items is None and not generic:
            return None
        names = [n.id for n in ast.walk(g.target) if isinstance(n, ast.Name)]
        saved = {n: env.locals.get(n) for n in names}
        state0, conds0 = dict(env.state), list(env.conds)

        def elt():
            v = self.ev(e.elt, env)
            if env.state != state0 or env.conds != conds0:
                raise Unsupported("comprehension whose element writes a state or forks")
            return v
        try:
            if generic:
                k = self.nloops
                self.nloops += 1
                env.locals[g.target.id] = ("loopvar", k)
                self.loops.append((k, it[2][0]))
                try:
                    res = ("listcomp", it[2][0], k, elt())
                finally:
                    self.loops.pop()
            else:
                out = []
                for x in items:
                    self.assign(g.target, x, env)
                    out.append(elt())
                res = ("list",) + tuple(out)
        finally:
            for n, v in saved.items():
                if v is None:
                    env.locals.pop(n, None)
                else:
                    env.locals[n] = v
        return res

    def call(self, e: ast.Call, env: Env):
        f = e.func
        # in-place tensor methods on a registered state: `self.f.add_(x)` is `self.f += x`; any other is refused
        if isinstance(f, ast.Attribute) and f.attr.endswith("_") and not f.attr.endswith("__"):
            fld = self.own_field(f.value, env)
            if fld is not None and fld not in self.list_states:
                if f.attr == "add_" and len(e.args) == 1 and not e.keywords:
                    env.state[fld] = ("add", env.state[fld], self.ev(e.args[0], env))
                    return env.state[fld]
                raise Unsupported(f"in-place method .{f.attr}() on state {fld}")
        return super().call(e, env)

    def fcall(self, name, e, env):
        if name in ("torch.zeros_like", "torch.ones_like", "torch.empty_like") and len(e.args) == 1:
            # depends on the SHAPE / dtype of its argument only: not a read of the value of a state
            return ("call", name, (("shapeof", show(self.ev(e.args[0], env))),), ())
        v = self.globs.get(name) if "." not in name else None
        if inspect.isfunction(v) and getattr(v, "__module__", None) in self.own_modules:
            r = self.try_inline_function(v, e, env)
            if r is not None:
                return r
        return super().fcall(name, e, env)

    def try_inline_function(self, v, e, env):
        """a function of the class's own module with one path that ends in `return <expr>` and touches nothing."""
        try:
            fn = self._fn_cache.get(v)
            if fn is None:
                fn = ast.parse(textwrap.dedent(inspect.getsource(v))).body[0]
                fn.args.args.insert(0, ast.arg(arg="__no_self__"))
                self._fn_cache[v] = fn
            if not isinstance(fn, ast.FunctionDef) or self.depth > 3:
                return None
            en = env.fork()
            bound = self.bind_params(fn, e, en)
            en.locals, en.alias = bound, {}
            self.depth += 1
            try:
                outs = self.block(fn.body, en)
            finally:
                self.depth -= 1
        except (Unsupported, OSError, TypeError, SyntaxError):
            return None
        if len(outs) != 1 or outs[0][1] is None or outs[0][1][0] != "return":
            return None
        en2, oc = outs[0]
        if en2.state != env.state or en2.conds != env.conds:
            return None
        return oc[1]

    def own_field(self, node, env):
        if isinstance(node, ast.Attribute) and isinstance(node.value, ast.Name) and node.value.id == "self":
            return node.attr if node.attr in self.states else None
        if isinstance(node, ast.Name) and node.id != "self":
            # a local that holds the OBJECT of a registered state (`c = self.f`, an element of `(self.f, self.g)`
            # reached by unpacking / a loop over the tuple): writing through it writes the state, as long as the
            # state has not been touched since the local was bound (same term = same object)
            t = env.locals.get(node.id)
            if own_state(t) and t[2] in self.states and env.state.get(t[2]) == t:
                return t[2]
            return None
        if isinstance(node, ast.Call) and isinstance(node.func, ast.Name) and node.func.id == "getattr" and len(node.args) == 2 \
                and isinstance(node.args[0], ast.Name) and node.args[0].id == "self":
            try:
                n = self.ev(node.args[1], env)
            except Unsupported:
                return None
            if n[0] == "const" and isinstance(eval(n[1]), str) and eval(n[1]) in self.states:
                return eval(n[1])
        return None

    # ---- statements
    def assign(self, target, val, env, val_ast=None):
        if isinstance(target, ast.Subscript):
            f = self.own_field(target.value, env)
            if f is not None and f in self.list_states:
                idx = env.locals.get(target.slice.id) if isinstance(target.slice, ast.Name) else \
                    ("const", repr(target.slice.value)) if isinstance(target.slice, ast.Constant) else None
                ok = _is(idx, "const") or (self.loops and idx == ("loopvar", self.loops[-1][0]))
                if not ok or _is(env.state[f], "rowset"):
                    raise Unsupported(f"write to an entry of list state {f} that is not `self.{f}[i] = ...` for the loop index / a constant")
                env.state[f] = ("rowset", env.state[f], idx, val)
                return
        if isinstance(target, ast.Subscript) and self.loops:
            f = self.own_field(target.value, env)
            if f is not None and f not in self.list_states:
                k, n = self.loops[-1]
                idx = env.locals.get(target.slice.id) if isinstance(target.slice, ast.Name) else None
                cur = env.state[f]
                if idx == ("loopvar", k) and val[0] in ("add", "max", "min") and len(val) == 3 \
                        and val[1] == ("idx", cur, idx) and not mentions(val[2], own_state) and not _is(cur, "tmap"):
                    env.state[f] = ("tmap", n, val[0], cur, val[2], k)
                    return
                raise Unsupported(f"row write to {f} that is not `self.{f}[i] op= term` under `for i in range(..)`")
        return super().assign(target, val, env, val_ast)

    def assign_star(self, target, val, env):
        elts = target.elts
        j = next(i for i, t in enumerate(elts) if isinstance(t, ast.Starred))
        n = len(elts)
        if val[0] in ("tuple", "list"):
            items = list(val[1:])
            m = len(items) - (n - 1)
            if m < 0:
                raise Unsupported("starred assignment: too few values")
            for i, t in enumerate(elts):
                if i < j:
                    self.assign(t, items[i], env)
                elif i == j:
                    self.assign(t.value, ("list",) + tuple(items[j:j + m]), env)
                else:
                    self.assign(t, items[len(items) - (n - i)], env)
            return
        for i, t in enumerate(elts):
            if i < j:
                self.assign(t, ("out", val, i), env)
            elif i == j:
                self.assign(t.value, ("outs", val, j, n - 1 - j), env)
            else:
                self.assign(t, ("out", val, i - n), env)

    def result_arity(self, term):
        """term = a call of a module-level function (plain or torch.jit.script'ed) visible from the class's module:
        the length of the tuple it returns, read off its SOURCE (every `return` is a tuple display of that length;
        failing that, for a scripted function, the `-> tuple[a, b, c]` annotation), else None."""
        if not (_is(term, "call") and isinstance(term[1], str)) or "." in term[1]:
            return None
        key = ("arity", term[1])
        if key in self._fn_cache:
            return self._fn_cache[key]
        res = None
        try:
            import sys
            v = self.globs.get(term[1])
            scripted = False
            if inspect.isfunction(v):
                mod, fname = v.__module__, v.__name__
            elif isinstance(getattr(v, "qualified_name", None), str):          # torch.jit.ScriptFunction
                scripted = True
                qn = v.qualified_name
                qn = qn[len("__torch__."):] if qn.startswith("__torch__.") else qn
                mod, _, fname = qn.rpartition(".")
            else:
                mod = fname = None
            module = sys.modules.get(mod) if mod else None
            if module is not None and mod.startswith("torcheval"):
                tree = ast.parse(inspect.getsource(module))
                defs = [n for n in tree.body if isinstance(n, ast.FunctionDef) and n.name == fname]
                if len(defs) == 1:
                    fn = defs[0]
                    rets, stack = [], list(fn.body)
                    while stack:
                        n = stack.pop()
                        if isinstance(n, (ast.FunctionDef, ast.AsyncFunctionDef, ast.Lambda, ast.ClassDef)):
                            continue
                        if isinstance(n, ast.Return):
                            rets.append(n.value)
                        stack.extend(ast.iter_child_nodes(n))
                    lens = {len(r.elts) if isinstance(r, ast.Tuple) and not any(isinstance(x, ast.Starred) for x in r.elts) else None for r in rets}
                    if len(lens) == 1 and None not in lens:
                        res = lens.pop()
                    elif scripted:                       # TorchScript enforces the declared return type
                        a = fn.returns
                        if isinstance(a, ast.Subscript) and isinstance(a.value, ast.Name) and a.value.id in ("tuple", "Tuple") \
                                and isinstance(a.slice, ast.Tuple) and not any(isinstance(x, ast.Constant) and x.value is Ellipsis for x in a.slice.elts):
                            res = len(a.slice.elts)
        except (OSError, TypeError, SyntaxError):
            res = None
        self._fn_cache[key] = res
        return res

    def loop_items(self, it):
        """the items of a loop that can be unrolled, or None."""
        if it[0] in ("tuple", "list"):
            return list(it[1:])
        if it[0] == "call" and it[1] == "zip" and not it[3] and it[2]:
            cols = it[2]
            # a column may also be the (not unpacked) result of a helper whose source returns a tuple of a fixed
            # length: `zip((self.a, self.b), helper(x))` pairs self.a with helper(x)[0], self.b with helper(x)[1]
            arity = {c: self.result_arity(c) for c in cols if c[0] == "call"}
            if any(c[0] not in ("tuple", "list", "outs") and arity.get(c) is None for c in cols):
                return None
            known = [len(c) - 1 for c in cols if c[0] in ("tuple", "list")] + [a for a in arity.values() if a is not None]
            if not known:
                return None

            def el(c, i):
                if c[0] in ("tuple", "list"):
                    return c[1 + i]
                return ("out", c, i) if c[0] == "call" else ("out", c[1], c[2] + i)
            return [("tuple",) + tuple(el(c, i) for c in cols) for i in range(min(known))]
        if it[0] == "call" and it[1] == "range" and len(it[2]) == 1 and not it[3] and it[2][0][0] == "const":
            try:
                return [("const", repr(i)) for i in range(int(eval(it[2][0][1])))]
            except Exception:  # noqa: BLE001
                return None
        return None

    def unroll(self, s, items, env):
        live, done = [env], []
        for x in items:
            nxt = []
            for en in live:
                self.assign(s.target, x, en)
                for en2, oc in self.block(s.body, en):
                    if oc is None or oc == ("continue",):
                        nxt.append(en2)
                    else:
                        done.append((en2, None if oc == ("break",) else oc))
            live = nxt
        return [(en, None) for en in live] + done

    def range_loop(self, s, n, env):
        """`for i in range(n)` with a symbolic n: the body is run ONCE for a generic i.  Sound for what is read off
        it because (checked here) the body has one path, leaves only at its end, changes registered states only by
        `self.f[i] op= term` (-> ("tmap", n, op, before, term, loop)) and the terms do not use a local carried from
        one iteration to the next."""
        if not isinstance(s.target, ast.Name):
            raise Unsupported("row loop target")
        k = self.nloops
        self.nloops += 1
        assigned = set()
        for node in ast.walk(ast.Module(body=s.body, type_ignores=[])):
            if isinstance(node, (ast.Break, ast.Return)):
                raise Unsupported("`for i in range(..)` loop leaves early")
            tg = node.targets if isinstance(node, ast.Assign) else [node.target] if isinstance(node, (ast.AugAssign, ast.AnnAssign)) else []
            for t in tg:
                for tt in (t.elts if isinstance(t, (ast.Tuple, ast.List)) else [t]):
                    tt = tt.value if isinstance(tt, ast.Starred) else tt
                    if isinstance(tt, ast.Name):
                        assigned.add(tt.id)
        init = {nme: env.locals.get(nme, ("const", "None")) for nme in assigned}
        for nme in assigned:
            env.locals[nme] = ("undef", k, nme)
        env.locals[s.target.id] = ("loopvar", k)
        before = dict(env.state)
        n_conds = len(env.conds)
        self.loops.append((k, n))
        try:
            outs = self.block(s.body, env)
        finally:
            self.loops.pop()
        if any(oc is not None and oc != ("continue",) for _, oc in outs) or len(outs) > 2:
            raise Unsupported(f"fork or exit inside `for i in range({show(n)})`")
        guard = None
        if len(outs) == 2:
            # `if <guard(i)>: <row update>` — one path does the update, the other leaves every state alone
            (e1, _), (e2, _) = outs
            c1, c2 = e1.conds[n_conds:], e2.conds[n_conds:]
            if len(c1) != 1 or len(c2) != 1 or c2[0] != self.neg(c1[0]):
                raise Unsupported(f"fork inside `for i in range({show(n)})` that is not one row guard")
            idle = [e for e in (e1, e2) if all(e.state[f] == before[f] for f in self.states)]
            if len(idle) != 1:
                raise Unsupported(f"both branches of the row guard of `for i in range({show(n)})` change a state")
            en = e2 if idle[0] is e1 else e1
            guard = en.conds[n_conds]
            en.conds = en.conds[:n_conds]
        else:
            en = outs[0][0]

        def carried(x):
            return isinstance(x, tuple) and len(x) == 3 and x[0] == "undef" and x[1] == k
        for f in sorted(self.states):
            t = en.state[f]
            if t == before[f]:
                continue
            if _is(t, "rowset") and t[1] == before[f] and t[2] == ("loopvar", k):
                if mentions(t[3], carried):
                    raise Unsupported(f"row loop carries a local into the update of {f}")
                en.state[f] = ("rowloop", n, k, guard, before[f], t[3])
                continue
            if guard is not None or not (_is(t, "tmap") and t[5] == k and t[3] == before[f]):
                raise Unsupported(f"`for i in range({show(n)})` changes {f} other than row by row")
            if mentions(t[4], carried):
                raise Unsupported(f"row loop carries a local into the update of {f}")
        # a local carried through the loop: afterwards an opaque function of its value before the loop and of what
        # the body adds (both kept inside the term, so that a read of a state in either stays visible)
        for nme in assigned:
            en.locals[nme] = ("loopres", k, nme, n, init[nme], en.locals.get(nme, ("const", "None")))
        en.locals[s.target.id] = ("after", k, s.target.id)
        return [(en, None)]

    def stmt(self, s, env: Env):
        if isinstance(s, ast.If):
            c = self.truth(self.ev(s.test, env))
            d = self.decide(c, env)
            if d is not None:
                return self.block(s.body if d else s.orelse, env)
            a, b = env, env.fork()
            a.conds.append(c)
            b.conds.append(self.neg(c))
            return self.block(s.body, a) + self.block(s.orelse, b)
        if isinstance(s, ast.For) and not s.orelse:
            it = self.ev(s.iter, env)
            if it[0] == "metrics":
                return super().stmt(s, env)
            items = self.loop_items(it)
            if items is not None:
                return self.unroll(s, items, env)
            if it[0] == "call" and it[1] == "range" and len(it[2]) == 1 and not it[3]:
                return self.range_loop(s, it[2][0], env)
            raise Unsupported("loop over " + show(it)[:50])
        if isinstance(s, ast.Assign) and len(s.targets) == 1 and isinstance(s.targets[0], (ast.Tuple, ast.List)) \
                and any(isinstance(t, ast.Starred) for t in s.targets[0].elts):
            self.assign_star(s.targets[0], self.ev(s.value, env), env)
            return [(env, None)]
        if isinstance(s, ast.Expr) and self.loops and isinstance(s.value, ast.Call) and isinstance(s.value.func, ast.Attribute) \
                and isinstance(s.value.func.value, ast.Name) and s.value.func.value.id != "self":
            v = self.ev(s.value, env)
            if _is(v, "mcall"):
                env.checks.append(v)        # e.g. result.append(f(self.state[i])): keep what it reads visible
            return [(env, None)]
        return super().stmt(s, env)


def adopt_shape(c):
    """c == (self.<G>.ndim == 0 and <X>.ndim == 1), literally  ->  (G, X)."""
    if not (_is(c, "and") and len(c) == 3):
        return None

    def ndim_is(t, k):
        if _is(t, "cmp") and t[1] == "Eq" and t[3] == ("const", str(k)) and _is(t[2], "attr") and t[2][2] == "ndim":
            return t[2][1]
        return None
    g, x = ndim_is(c[1], 0), ndim_is(c[2], 1)
    if g is None or x is None or not own_state(g) or mentions(x, own_state):
        return None
    return g[2], x


def classify(term, f):
    """how a path leaves state f: ("same",) | (op, X) | ("set", X) | ("tmap", op, X, n) | None."""
    r = strip_acc(term, f, ("add", "max", "min", "app"))
    if r is not None:
        return ("same",) if r[0] == "same" else (r[0], r[1])
    if _is(term, "tmap") and term[3] == st("self", f) and not mentions(term[4], own_state):
        return ("tmap", term[2], term[4], term[1])
    if not mentions(term, own_state):
        return ("set", term)
    return None


def derived_form(state, f, fields):
    """state[f] == state[a] - state[b] for two other states a, b  ->  (a, b)."""
    t = state[f]
    if _is(t, "bin") and t[1] == "Sub" and len(t) == 4:
        for a in fields:
            for b in fields:
                if a != b and f not in (a, b) and t[2] == state[a] and t[3] == state[b]:
                    return (a, b)
    return None


def _adoption_conds(paths):
    found = {}
    for en in paths:
        for c in en.conds:
            p = c[1] if _is(c, "not") else c
            a = adopt_shape(p)
            if a is not None:
                found[p] = a
    return found


def _resolve(paths, fields, what):
    """common part of update / one-source merge: per field the operation, the summand(s), adoption, derivation.
    paths: environments of the paths that return normally."""
    aconds = _adoption_conds(paths)
    if len(aconds) > 1:
        raise Unsupported(f"{what}: several adoption tests")
    C = next(iter(aconds), None)
    if C is not None:
        pos = [en for en in paths if C in en.conds]
        neg = [en for en in paths if ("not", C) in en.conds]
        if len(pos) + len(neg) != len(paths) or not pos or not neg:
            raise Unsupported(f"{what}: a path does not decide the adoption test")
    res = {}
    for f in fields:
        recs = []
        for en in paths:
            r = classify(en.state[f], f)
            if r is None:
                d = derived_form(en.state, f, fields)
                r = ("der",) + d if d is not None else None
            if r is None:
                raise Unsupported(f"{what} of {f} is not `state op= term`: {show(en.state[f])[:80]}")
            recs.append((en, r))
        kinds = {r[0] for _, r in recs}
        out = {"op": None, "adopt": None, "task": None, "X": [], "der": None}
        if kinds == {"same"}:
            out["op"] = "same"
        elif "der" in kinds:
            ab = {r[1:] for _, r in recs if r[0] == "der"}
            if len(ab) != 1 or not kinds <= {"der", "same"}:
                raise Unsupported(f"{what} of {f}: derived on some paths only / from different states")
            a, b = next(iter(ab))
            # a path that does not recompute must not have touched a or b
            fresh = all(r[0] == "der" or (en.state[a] == st("self", a) and en.state[b] == st("self", b)) for en, r in recs)
            out["op"], out["der"] = "der", (a, b, fresh)
        elif "set" in kinds:
            if C is None:
                raise Unsupported(f"{what} overwrites {f}: {show(recs[0][1][1])[:60]}")
            pk = {r[0] for en, r in recs if en in pos}
            nk = {r[0] for en, r in recs if en in neg}
            if pk != {"set"} or nk != {"add"}:
                raise Unsupported(f"{what} of {f}: the adoption test does not choose between `=` and `+=` ({sorted(pk)} / {sorted(nk)})")
            px = {r[1] for en, r in recs if en in pos}
            nx = {r[1] for en, r in recs if en in neg}
            if px != nx:
                raise Unsupported(f"{what} of {f}: adopted value and summand differ")
            out["op"], out["adopt"], out["X"] = "add", aconds[C][0], sorted(px, key=show)
        else:
            ops = kinds - {"same"}
            if len(ops) > 1:
                raise Unsupported(f"{what} of {f} uses different operations on different paths")
            if "same" in kinds:
                raise Unsupported(f"{what} of {f} is conditional")
            k = next(iter(ops))
            if k == "tmap":
                opn = {(r[1], r[3]) for _, r in recs}
                if len(opn) != 1:
                    raise Unsupported(f"{what} of {f}: row loops differ between paths")
                out["op"], out["task"] = next(iter(opn))
                out["X"] = sorted({r[2] for _, r in recs}, key=show)
            else:
                out["op"] = k
                out["X"] = sorted({r[1] for _, r in recs}, key=show)
        res[f] = out
    if C is not None:
        G, X = aconds[C]
        if res[G]["adopt"] != G or X not in res[G]["X"]:
            raise Unsupported(f"{what}: the adoption test reads {show(X)[:40]}, which is not the summand of {G}")
    return res, C


def x_update(ex: XExec):
    outs = ex.run("update")
    ok = [en for en, oc in outs if oc is None or oc[0] == "return"]
    if not ok:
        raise Unsupported("update never returns")
    res, _ = _resolve(ok, sorted(ex.states), "update")
    info = {"paths": len(ok), "raises": sorted({oc[1] for _, oc in outs if oc is not None and oc[0] == "raise"}),
            "checks": sorted({show(c) for en in ok for c in en.checks})}
    return res, info


def subst(t, m):
    if not isinstance(t, tuple):
        return t
    if t in m:
        return m[t]
    return tuple(subst(x, m) for x in t)


def fold_chain(t, f, srcs):
    """t = op(..op(op(self.f, m1.g), m2.g)..)  ->  (op, g)."""
    chain, op = [], None
    while t != st("self", f):
        if not isinstance(t, tuple) or t[0] not in ("add", "max", "min") or len(t) != 3:
            return None
        if op not in (None, t[0]):
            raise Unsupported(f"merge of {f} mixes operations")
        op = t[0]
        a, b = t[1], t[2]
        if _is(b, "st") and b[1] in srcs:
            chain.append(b)
            t = a
        elif _is(a, "st") and a[1] in srcs and (b == st("self", f) or b[0] in ("add", "max", "min")):
            chain.append(a)
            t = b
        else:
            return None
    chain.reverse()
    if [c[1] for c in chain] != srcs:
        raise Unsupported(f"merge of {f} folds sources {[c[1] for c in chain]}")
    fs = {c[2] for c in chain}
    if len(fs) != 1:
        raise Unsupported(f"merge of {f} reads different states of different sources")
    return op, fs.pop()


def x_merge(mk):
    """mk(n) -> a fresh XExec with n symbolic sources.  Numeric / derived / constant states; list states are read by
    `norm_merge`."""
    def paths(n):
        ex = mk(n)
        outs = ex.run("merge_state")
        if any(oc is not None and oc[0] == "raise" for _, oc in outs):
            raise Unsupported("merge_state raises on some path")
        return ex, [en for en, _ in outs]
    ex2, p2 = paths(2)
    fields = sorted(ex2.states - ex2.list_states)
    allf = sorted(ex2.states)
    srcs = ["m1", "m2"]
    res = {}
    if not _adoption_conds(p2):
        for f in fields:
            forms = set()
            for en in p2:
                t = en.state[f]
                if t == st("self", f):
                    forms.add(("same",))
                    continue
                c = fold_chain(t, f, srcs)
                if c is not None:
                    forms.add(("fold",) + c)
                    continue
                d = derived_form(en.state, f, allf)
                if d is not None:
                    forms.add(("der",) + d)
                    continue
                raise Unsupported(f"merge of {f} is not a fold over the sources: {show(t)[:80]}")
            if len(forms) != 1:
                raise Unsupported(f"merge of {f} differs between paths")
            res[f] = next(iter(forms))
        # derived states: recomputed once after the loop (also without a source) or inside it?
        if any(r[0] == "der" for r in res.values()):
            _, p0 = paths(0)
            for f, r in list(res.items()):
                if r[0] == "der":
                    at_end = all(derived_form(en.state, f, allf) == r[1:3] for en in p0)
                    res[f] = r + (at_end,)
        return res
    # ---- adoption: read the one-source step, then check that two sources are the step twice
    if ex2.list_states:
        raise Unsupported("adoption branch in a class with list states")
    ex1, p1 = paths(1)
    step, C = _resolve(p1, fields, "merge_state")
    if C is None:
        raise Unsupported("merge_state: adoption test only with two sources")
    G = _adoption_conds(p1)[C][0]
    Gsrc = _adoption_conds(p1)[C][1]
    for f in fields:
        r = step[f]
        if r["op"] == "same":
            res[f] = ("same",)
            continue
        if r["op"] not in ("add", "max", "min") or len(r["X"]) != 1 or not (_is(r["X"][0], "st") and r["X"][0][1] == "m1"):
            raise Unsupported(f"merge of {f} is not `state op= source.state`")
        res[f] = ("fold", r["op"], r["X"][0][2]) + ((("adopt", G, Gsrc[2] if _is(Gsrc, "st") and Gsrc[1] == "m1" else "?"),) if r["adopt"] else ())
    # expected paths for two sources = the step composed with itself
    def norm(en):
        return (tuple(en.conds), tuple((f, en.state[f]) for f in fields))
    expected = set()
    for a in p1:
        m = {st("self", f): a.state[f] for f in fields}
        m.update({st("m1", f): st("m2", f) for f in allf})
        for b in p1:
            conds, dead = list(a.conds), False
            for c in b.conds:
                c2 = subst(c, m)
                if c2 in conds:
                    continue
                if Exec.neg(c2) in conds:
                    dead = True
                    break
                conds.append(c2)
            if not dead:
                expected.add((tuple(conds), tuple((f, subst(b.state[f], m)) for f in fields)))
    if expected != {norm(en) for en in p2}:
        raise Unsupported("merge_state with two sources is not its one-source step applied twice")
    return res


def cond_holds(c, m):
    """evaluate a cfg-only condition on a constructed object (None = cannot tell)."""
    try:
        def val(t):
            if t[0] == "cfg":
                return getattr(m, t[1])
            if t[0] == "const":
                return eval(t[1])
            if t[0] == "bin":
                a, b = val(t[2]), val(t[3])
                return {"Sub": a - b, "Add": a + b, "Mult": a * b, "FloorDiv": a // b if b else None}[t[1]]
            raise KeyError(t[0])

        def tr(t):
            if t[0] == "truthy":
                return bool(val(t[1]))
            if t[0] == "not":
                return not tr(t[1])
            if t[0] == "isnone":
                return val(t[1]) is None
            if t[0] == "and":
                return all(tr(x) for x in t[1:])
            if t[0] == "or":
                return any(tr(x) for x in t[1:])
            if t[0] == "cmp":
                a, b = val(t[2]), val(t[3])
                return {"Eq": a == b, "NotEq": a != b, "Lt": a < b, "LtE": a <= b, "Gt": a > b, "GtE": a >= b,
                        "Is": a is b, "IsNot": a is not b}[t[1]]
            raise KeyError(t[0])
        return tr(c), val
    except Exception:  # noqa: BLE001
        return None, None


def mode_holds(mode, m):
    for c, want in mode.items():
        got, _ = cond_holds(c, m)
        if got is None or got != want:
            return False
    return True


def mode_str(mode):
    def sh(c):
        return show(c[1]) if _is(c, "truthy") else "(" + show(c) + ")"
    return " and ".join((sh(c) if v else "not " + sh(c)) for c, v in sorted(mode.items(), key=lambda kv: show(kv[0])))


def analyse_mode(spec, cls, regs, lists, defaults, objs, mode):
    """one plumbing row for the configurations in which `mode` holds; -> (row, cfg-only conditions met)."""
    row = {"name": spec.name, "states": sorted(regs), "lists": sorted(lists), "unsupported": None, "fields": [], "compute": [],
           "update_info": {}, "mode": mode_str(mode), "mode_terms": dict(mode)}
    seen = set()

    def mk(n=2):
        ex = XExec(cls, regs, lists, n_src=n, mode=mode)
        made.append(ex)
        return ex
    made = []
    try:
        ex = mk()
        for need in ("update", "merge_state", "compute"):
            if need not in ex.meths:
                raise Unsupported(f"no {need}() in a torcheval class")
        upd, uinfo = x_update(ex)
        num = x_merge(mk)
        reads, descr = norm_compute(mk())
        row["compute"], row["update_info"] = descr, uinfo
        lst_m = x_merge_lists(mk, lists) if lists else {}
        mine = [m for m in objs if mode_holds(mode, m)]
        for f in sorted(regs):
            u = upd[f]
            usrc = " | ".join(show(x) for x in u["X"])
            if f in lists:
                if u["op"] != "app":
                    raise Unsupported(f"list state {f} is not appended to by update ({u['op']})")
                src, guard, dim, cgs, cdim = lst_m[f]
                dims = sorted({_dim_of(r[1], ["self"]) for r in reads[f] if isinstance(r, tuple)}, key=str)
                if any(d is None for d in dims):
                    raise Unsupported(f"compute concatenates {f} along a non-constant dim")
                raw = sum(1 for r in reads[f] if r == "raw")
                extra = {"cmp": (cgs, cdim)} if cgs is not None else {}
                row["fields"].append({"kind": "lst", "name": f, "src": src, "guard": guard, "dim": dim, "readDims": dims, "raw": raw, "usrc": usrc, **extra})
                continue
            m = num[f]
            if u["op"] == "same" and m[0] == "same":
                row["fields"].append({"kind": "const", "name": f, "usrc": ""})
                continue
            if u["op"] == "der" or m[0] == "der":
                ua = u["der"] if u["op"] == "der" else None
                ma = m[1:] if m[0] == "der" else None
                if (ua is None and u["op"] != "same") or (ma is None and m[0] != "same"):
                    raise Unsupported(f"{f} is derived in one of update / merge_state and accumulated in the other")
                a, b = (ua or ma)[0], (ua or ma)[1]
                if ua is not None and ma is not None and (ua[0], ua[1]) != (ma[0], ma[1]):
                    raise Unsupported(f"{f} is derived from different states in update and merge_state")
                row["fields"].append({"kind": "der", "name": f, "a": a, "b": b, "inUpd": bool(ua and ua[2]), "inMrg": ma is not None,
                                      "atEnd": bool(ma and ma[2]), "usrc": ""})
                continue
            if u["op"] not in ("add", "max", "min"):
                raise Unsupported(f"numeric state {f}: update is `{u['op']}`")
            if m[0] != "fold":
                raise Unsupported(f"numeric state {f}: update accumulates, merge_state is `{m[0]}`")
            du = all(default_is_unit(v, u["op"]) for v in defaults[f])
            fld = {"kind": "num", "name": f, "upd": u["op"], "mrg": m[1], "src": m[2], "usrc": usrc, "du": du}
            madopt = m[3] if len(m) > 3 else None
            if u["adopt"] or madopt:
                fld["adopt"] = (u["adopt"] or "", (madopt[1] if madopt[1] == madopt[2] else f"{madopt[1]} / source {madopt[2]}") if madopt else "")
            if u["task"] is not None:
                rows_ok = bool(mine)
                for o in mine:
                    _, val = cond_holds(("truthy", ("const", "1")), o)
                    try:
                        n = val(u["task"])
                        d = o._state_name_to_default[f]
                        rows_ok = rows_ok and hasattr(d, "shape") and len(d.shape) >= 1 and int(d.shape[0]) == int(n)
                    except Exception:  # noqa: BLE001
                        rows_ok = False
                fld["task"] = (show(u["task"]), show(u["task"]) if rows_ok else "first dimension of the default")
            row["fields"].append(fld)
    except Unsupported as e:
        row["unsupported"] = str(e)
        row["fields"] = []
    except RecursionError:
        row["unsupported"] = "recursion"
        row["fields"] = []
    for ex in made:
        seen |= ex.cfg_conds
    return row, seen


def _own_guard(c, lists):
    """c == self.g1 [and self.g2 ...] (non-emptiness of own list states) -> [g1, g2, ...]."""
    parts = list(c[1:]) if _is(c, "and") else [c]
    gs = []
    for p_ in parts:
        if _is(p_, "nonempty") and own_state(p_[1]) and p_[1][2] in lists:
            gs.append(p_[1][2])
        else:
            return None
    return gs


def _dim_of(d, srcs_or_self):
    """a cat dimension: an int, or the constant state <D> of the object the list belongs to -> ("st", D)."""
    if isinstance(d, int):
        return d
    if _is(d, "st") and d[1] in srcs_or_self:
        return ("st", d[2])
    return None


def x_merge_lists(mk, lists):
    """the list states of merge_state (two symbolic sources): on every path the object's own list (possibly compacted
    first: `self.f = [torch.cat(self.f, d)]` under `if self.g1 and self.g2`), then `torch.cat(source.f, d)` of exactly
    the sources whose guard list is non-empty, in order.  -> f -> (src, guard, dim, compaction guards | None, its dim)"""
    ex = mk(2)
    outs = ex.run("merge_state")
    if any(oc is not None and oc[0] == "raise" for _, oc in outs):
        raise Unsupported("merge_state raises on some path")
    srcs = ["m1", "m2"]
    res = {}
    for f in sorted(lists):
        guard = dim = src = cgs = cdim = None
        for en, _ in outs:
            ne, compacted = {}, False
            for c in en.conds:
                neg = _is(c, "not")
                c2 = c[1] if neg else c
                og = _own_guard(c2, lists)
                if og is not None:
                    if cgs not in (None, og):
                        raise Unsupported(f"merge of {f}: compaction under different guards")
                    cgs, compacted = og, not neg
                elif _is(c2, "nonempty") and _is(c2[1], "st") and c2[1][1] in srcs:
                    if guard not in (None, c2[1][2]):
                        raise Unsupported(f"merge of {f}: guards on different states")
                    guard = c2[1][2]
                    ne[c2[1][1]] = not neg
                else:
                    raise Unsupported(f"merge path condition {show(c2)[:60]}")
            t = en.state[f]
            items = []
            while _is(t, "app"):
                items.append(t[2])
                t = t[1]
            if t == st("self", f):
                base_compact = False
            elif _is(t, "list") and len(t) == 2 and _is(t[1], "cat") and t[1][1] == st("self", f) and _dim_of(t[1][2], ["self"]) is not None:
                base_compact = True
                if cdim not in (None, _dim_of(t[1][2], ["self"])):
                    raise Unsupported(f"merge of {f}: compaction along different dims")
                cdim = _dim_of(t[1][2], ["self"])
            else:
                raise Unsupported(f"merge rebinds list state {f}")
            if base_compact != compacted:
                raise Unsupported(f"merge of {f}: the compaction of the own list does not follow its guard")
            items.reverse()
            want = [m for m in srcs if ne.get(m, None)]
            if any(m not in ne for m in srcs):
                if ne:
                    raise Unsupported(f"merge of {f}: a source is not guarded on some path")
                want = None
            got = []
            for it in items:
                if not _is(it, "cat") or not _is(it[1], "st") or it[1][1] not in srcs:
                    raise Unsupported(f"merge appends {show(it)[:60]} to {f}")
                d = _dim_of(it[2], [it[1][1]])
                if d is None:
                    raise Unsupported(f"merge of {f}: non-constant cat dim {show(it[2])}")
                if dim not in (None, d) or src not in (None, it[1][2]):
                    raise Unsupported(f"merge of {f}: sources differ in dim / state")
                dim, src = d, it[1][2]
                got.append(it[1][1])
            if want is None:
                if got != srcs:
                    raise Unsupported(f"merge of {f}: unguarded append does not cover the sources in order")
            elif got != want:
                raise Unsupported(f"merge of {f}: appended sources {got} on the path where {want} are non-empty")
        if src is None:
            raise Unsupported(f"merge never appends to {f}")
        res[f] = (src, guard if guard is not None else "", dim, cgs if cdim is not None else None, cdim)
    return res


# -------------------------------------------------------------------- joint (Welford / Chan) accumulators

class JExec(XExec):
    """XExec that does NOT inline the joint combine method: `self.<combine>(a, b, c)` is recorded as an event."""
    def __init__(self, *a, combine=None, **k):
        super().__init__(*a, **k)
        self.combine = combine

    def _joint(self, c, env):
        fn = self.meths[self.combine]
        bound = self.bind_params(fn, c, env)
        env.checks.append(("joint", tuple(sorted(bound.items()))))

    def stmt(self, s, env):
        if isinstance(s, ast.Expr) and isinstance(s.value, ast.Call) and isinstance(s.value.func, ast.Attribute) \
                and isinstance(s.value.func.value, ast.Name) and s.value.func.value.id == "self" and s.value.func.attr == self.combine:
            self._joint(s.value, env)
            return [(env, None)]
        return super().stmt(s, env)


def _called_methods(fn):
    out = []
    for node in ast.walk(fn):
        if isinstance(node, ast.Call) and isinstance(node.func, ast.Attribute) and isinstance(node.func.value, ast.Name) \
                and node.func.value.id == "self":
            out.append(node.func.attr)
    return out


def chan_template(N, S, Q, n, s_, q_):
    """the states after the general branch of the Chan / Welford combine, literally as cov.py writes it (the two
    commutative spellings of `n * self.n` and `self.n + n` are accepted)."""
    sN, sS, sQ = st("self", N), st("self", S), st("self", Q)
    delta = ("bin", "Sub", ("bin", "Div", sS, sN), ("bin", "Div", s_, n))
    outer = ("call", "torch.outer", (delta, delta), ())
    outs = []
    for prod in (("bin", "Mult", n, sN), ("bin", "Mult", sN, n)):
        for tot in (("add", sN, n), ("add", n, sN)):
            outs.append({N: ("add", sN, n), S: ("add", sS, s_),
                         Q: ("add", sQ, ("add", q_, ("bin", "Div", ("bin", "Mult", outer, prod), tot)))})
    return outs


def analyse_welford(spec, cls, regs, lists, objs):
    """a class whose states are updated only JOINTLY by one combine method that update() calls with the statistics of
    the batch and merge_state() calls with the states of every source in order (Covariance).  -> row | None"""
    if lists or len(regs) != 3:
        return None
    ex0 = XExec(cls, regs, lists)
    if not all(k in ex0.meths for k in ("update", "merge_state", "compute")):
        return None
    common = [m for m in _called_methods(ex0.meths["update"]) if m in _called_methods(ex0.meths["merge_state"])
              and m in ex0.meths and m not in regs]
    if len(set(common)) != 1:
        return None
    comb = common[0]
    row = {"name": spec.name, "states": sorted(regs), "lists": [], "unsupported": None, "fields": [], "compute": [], "update_info": {},
           "mode": "", "mode_terms": {}}
    try:
        fn = ex0.meths[comb]
        params = [a.arg for a in fn.args.args][1:]
        if len(params) != 3 or fn.args.kwonlyargs or fn.args.vararg or fn.args.kwarg:
            raise Unsupported(f"joint combine {comb}() does not take three statistics")
        # (i) the body of the combine, run on symbolic parameters
        ex = XExec(cls, regs, lists)
        env = Env(ex.states, ex.list_states, {f: st("self", f) for f in ex.states})
        for p_ in params:
            env.locals[p_] = ("arg", p_)
        outs = ex.block(fn.body, env)
        if any(oc is not None and oc[0] not in ("return",) for _, oc in outs) or len(outs) != 3:
            raise Unsupported(f"{comb}() is not the three-branch combine (empty batch / empty state / general)")
        noop = [en for en, _ in outs if all(en.state[f] == st("self", f) for f in regs)]
        adopt = [en for en, _ in outs if all(_is(en.state[f], "arg") for f in regs)]
        gen = [en for en, _ in outs if en not in noop and en not in adopt]
        if len(noop) != 1 or len(adopt) != 1 or len(gen) != 1:
            raise Unsupported(f"{comb}() is not the three-branch combine (empty batch / empty state / general)")
        role = {adopt[0].state[f][1]: f for f in regs}           # parameter -> state it fills
        if sorted(role) != sorted(params):
            raise Unsupported(f"{comb}(): the empty-state branch does not adopt every statistic")
        # which parameter is the count: the one both emptiness tests read
        c_noop = noop[0].conds
        if len(c_noop) != 1 or not (_is(c_noop[0], "cmp") and c_noop[0][1] == "Eq" and _is(c_noop[0][2], "arg") and c_noop[0][3] == ("const", "0")):
            raise Unsupported(f"{comb}(): the first branch is not `if <count> == 0: return`")
        n_par = c_noop[0][2][1]
        N = role[n_par]
        if adopt[0].conds != [("not", c_noop[0]), ("cmp", "Eq", st("self", N), ("const", "0"))]:
            raise Unsupported(f"{comb}(): the second branch is not `elif self.{N} == 0`")
        # the general branch: which of the other two is the plain sum, which carries the correction
        others = [p_ for p_ in params if p_ != n_par]
        chan, S, Q = False, role[others[0]], role[others[1]]
        for s_par, q_par in (others, others[::-1]):
            for tmpl in chan_template(N, role[s_par], role[q_par], ("arg", n_par), ("arg", s_par), ("arg", q_par)):
                if all(gen[0].state[f] == tmpl[f] for f in regs):
                    chan, S, Q = True, role[s_par], role[q_par]
        # (ii) update() and merge_state() call it, and do nothing else to the states
        def calls(name, n_src):
            jx = JExec(cls, regs, lists, n_src=n_src, combine=comb)
            po = jx.run(name)
            ok = [en for en, oc in po if oc is None or oc[0] == "return"]
            if len(ok) != 1 or any(ok[0].state[f] != st("self", f) for f in regs):
                raise Unsupported(f"{name}() does more to the states than calling {comb}()")
            return [dict(c[1]) for c in ok[0].checks if _is(c, "joint")]
        cu = calls("update", 2)
        same = len(cu) == 1 and not any(mentions(v, own_state) for v in cu[0].values())
        cm = calls("merge_state", 2)
        args_ok = len(cm) == 2 and all(cm[k] == {p_: st(f"m{k + 1}", role[p_]) for p_ in params} for k in range(2))
        _, descr = norm_compute(XExec(cls, regs, lists))
        row["compute"] = descr
        row["fields"] = [{"kind": "welford", "name": N, "n": N, "sum": S, "ss": Q, "combine": comb, "same": same, "args": args_ok, "chan": chan,
                          "usrc": " ; ".join(f"{role[p_]} <- {show(cu[0][p_])}" for p_ in params) if cu else ""}]
        return row
    except Unsupported as e:
        row["unsupported"] = f"joint combine {comb}(): {e}"
        return row


# -------------------------------------------------------------------- per-query retained top-k lists (Retrieval*)

def _match_sel(val, vals, i):
    """val == get_topk(torch.cat([self.<vals>[i], X]), K)[0]  ->  (T, X, K)."""
    if not (_is(val, "idx") and val[2] == ("src", "0") and _is(val[1], "call") and len(val[1][2]) == 2 and not val[1][3]):
        return None
    T = val[1]
    c, K = T[2]
    if not (_is(c, "cat") and c[2] == 0 and _is(c[1], "list") and len(c[1]) == 3 and c[1][1] == ("idx", st("self", vals), i)):
        return None
    X = c[1][2]
    if mentions(X, own_state) or mentions(K, own_state):
        return None
    return T, X, K


def _match_gather(val, labels, i, T):
    """val == torch.cat([self.<labels>[i], Y]).gather(dim=-1, index=T[1])  ->  Y."""
    if not (_is(val, "mcall") and val[1] == "gather" and val[3] == () and val[4] == (("dim", ("const", "-1")), ("index", ("idx", T, ("src", "1"))))):
        return None
    c = val[2]
    if not (_is(c, "cat") and c[2] == 0 and _is(c[1], "list") and len(c[1]) == 3 and c[1][1] == ("idx", st("self", labels), i)):
        return None
    return None if mentions(c[1][2], own_state) else c[1][2]


def analyse_topk(spec, cls, regs, lists, objs):
    """two per-query list states (scores, labels) that update() extends and PRUNES per query
    (`get_topk(cat([state[i], x_i]), k)`, labels gathered by the same indices) and merge_state() concatenates per
    query.  The row describes the code as it is (merge does not prune).  -> row | None"""
    if regs != lists or len(regs) != 2:
        return None
    row = {"name": spec.name, "states": sorted(regs), "lists": sorted(lists), "unsupported": None, "fields": [], "compute": [], "update_info": {},
           "mode": "", "mode_terms": {}}
    try:
        ex = XExec(cls, regs, lists)
        outs = ex.run("update")
    except Unsupported:
        return None
    ok = [en for en, oc in outs if oc is None or oc[0] == "return"]
    if not any(_is(en.state[f], "rowset") or _is(en.state[f], "rowloop") for en in ok for f in regs):
        return None                       # not the shape of the retrieval classes: the generic reason stands
    try:
        facts = set()
        for en in ok:
            forms = {}
            for f in sorted(regs):
                t = en.state[f]
                if _is(t, "rowset") and t[1] == st("self", f) and _is(t[2], "const"):
                    forms[f] = (t[2], None, None, t[3])
                elif _is(t, "rowloop") and t[4] == st("self", f):
                    forms[f] = (("loopvar", t[2]), t[1], t[3], t[5])
                else:
                    raise Unsupported(f"update of {f} is not a per-query write: {show(t)[:70]}")
            idxs = {v[:3] for v in forms.values()}
            if len(idxs) != 1:
                raise Unsupported("update writes the two lists at different entries / under different guards")
            i, n, guard = next(iter(idxs))
            found = None
            for vals in sorted(regs):
                labels = next(x for x in regs if x != vals)
                m_ = _match_sel(forms[vals][3], vals, i)
                if m_ is not None and _match_gather(forms[labels][3], labels, i, m_[0]) is not None:
                    found = (vals, labels, m_[0][1], show(m_[2]))
            if found is None:
                raise Unsupported("update is not `state[i] = select(cat([state[i], batch rows of query i]), k)` with the labels gathered alongside")
            if guard is not None and mentions(guard, own_state):
                raise Unsupported("the row guard of update reads a state")
            facts.add(found + ((show(n), None) if n is not None else (None, tuple(en.conds))))
        loops = {f_[4] for f_ in facts if f_[4] is not None}
        if len({f_[:4] for f_ in facts}) != 1 or len(loops) != 1:
            raise Unsupported("update: paths disagree on the selection / the range of the query loop")
        vals, labels, sel, k = next(iter(facts))[:4]
        loop = next(iter(loops))
        nterm = next(en.state[vals][1] for en in ok if _is(en.state[vals], "rowloop"))
        for f_ in facts:
            # the path that writes entry 0 only must be the one-query configuration
            if f_[4] is None and ("cmp", "Eq", nterm, ("const", "1")) not in f_[5]:
                raise Unsupported("update writes entry 0 only, outside `if <number of queries> == 1`")
        # merge_state: per query, the own entry followed by the sources' entries, in order
        ex2 = XExec(cls, regs, lists, n_src=2)
        mo = ex2.run("merge_state")
        if len(mo) != 1 or (mo[0][1] is not None and mo[0][1][0] != "return") or mo[0][0].conds:
            raise Unsupported("merge_state forks or raises")
        mrg_prunes = False
        for f in sorted(regs):
            t = mo[0][0].state[f]
            lv = ("loopvar", t[2]) if _is(t, "rowloop") else None
            want = ("cat", ("list", ("idx", st("self", f), lv), ("idx", st("m1", f), lv), ("idx", st("m2", f), lv)), 0)
            if not (_is(t, "rowloop") and t[3] is None and t[4] == st("self", f) and t[5] == want):
                raise Unsupported(f"merge of {f} is not `state[i] = cat([state[i]] + [m.state[i] for m in metrics])` per query: {show(t)[:70]}")
            if show(t[1]) != loop:
                raise Unsupported(f"merge of {f} loops over range({show(t[1])}), update over range({loop})")
        rows_ok = bool(objs)
        for o in objs:
            _, val = cond_holds(("truthy", ("const", "1")), o)
            try:
                rows_ok = rows_ok and all(len(o._state_name_to_default[f]) == int(val(nterm)) for f in regs)
            except Exception:  # noqa: BLE001
                rows_ok = False
        row["fields"] = [{"kind": "topk", "name": vals, "vals": vals, "labels": labels, "k": k, "sel": sel, "loop": loop,
                          "rows": loop if rows_ok else "length of the default list", "updPrunes": True, "mrgPrunes": mrg_prunes, "usrc": ""}]
        return row
    except Unsupported as e:
        row["unsupported"] = str(e)
        return row


def analyse_basic(spec):
    """the first normal form only (kept for the windowed classes, whose rows belong to translators/winplumb.py)."""
    regs, lists = set(), set()
    defaults = {}
    for c in spec.configs:
        m = new_metric(spec, fresh_cfg(c))
        for k, v in m._state_name_to_default.items():
            regs.add(k)
            defaults.setdefault(k, []).append(v)
            if isinstance(v, list):
                lists.add(k)
    cls = type(m)
    row = {"name": spec.name, "states": sorted(regs), "lists": sorted(lists), "unsupported": None, "fields": [], "compute": [], "update_info": {},
           "mode": "", "mode_terms": {}}
    try:
        if any(isinstance(v, dict) for v in m._state_name_to_default.values()):
            raise Unsupported("dict-valued state")
        ex = Exec(cls, regs, lists)
        for need in ("update", "merge_state", "compute"):
            if need not in ex.meths:
                raise Unsupported(f"no {need}() in a torcheval class")
        uops, usrc, uinfo = norm_update(ex)
        mrg = norm_merge(Exec(cls, regs, lists))
        reads, descr = norm_compute(Exec(cls, regs, lists))
        row["compute"] = descr
        row["update_info"] = uinfo
        for f in sorted(regs):
            if f in lists:
                if uops[f] not in ("app",):
                    raise Unsupported(f"list state {f} is not appended to by update ({uops[f]})")
                op, src, guard, dim = mrg[f]
                dims = sorted({r[1] for r in reads[f] if isinstance(r, tuple)}, key=str)
                if any(not isinstance(d, int) for d in dims):
                    raise Unsupported(f"compute concatenates {f} along a non-constant dim")
                raw = sum(1 for r in reads[f] if r == "raw")
                row["fields"].append({"kind": "lst", "name": f, "src": src, "guard": guard, "dim": dim, "readDims": dims, "raw": raw, "usrc": usrc[f]})
            else:
                if uops[f] not in ("add", "max", "min"):
                    raise Unsupported(f"numeric state {f}: update is `{uops[f]}`")
                op, src, _, _ = mrg[f]
                du = all(default_is_unit(v, uops[f]) for v in defaults[f])
                row["fields"].append({"kind": "num", "name": f, "upd": uops[f], "mrg": op, "src": src, "usrc": usrc[f], "du": du})
    except Unsupported as e:
        row["unsupported"] = str(e)
        row["fields"] = []
    except RecursionError:
        row["unsupported"] = "recursion"
        row["fields"] = []
    return row


def analyse(spec):
    if spec.kind == "window":
        return [analyse_basic(spec)]
    regs, lists = set(), set()
    defaults = {}
    objs = []
    for c in spec.configs:
        m = new_metric(spec, fresh_cfg(c))
        objs.append(m)
        for k, v in m._state_name_to_default.items():
            regs.add(k)
            defaults.setdefault(k, []).append(v)
            if isinstance(v, list):
                lists.add(k)
    cls = type(m)
    if any(isinstance(v, dict) for v in m._state_name_to_default.values()):
        return [{"name": spec.name, "states": sorted(regs), "lists": sorted(lists), "unsupported": "dict-valued state", "fields": [],
                 "compute": [], "update_info": {}, "mode": "", "mode_terms": {}}]
    row, seen = analyse_mode(spec, cls, regs, lists, defaults, objs, {})
    if row["unsupported"] is not None:
        for special in (analyse_welford, analyse_topk):
            w = special(spec, cls, regs, lists, objs)
            if w is not None and w["unsupported"] is None:
                return [w]
            if w is not None and special is analyse_topk:
                return [w]            # the shape is that of the retrieval classes: report why it is not the normal form
    if row["unsupported"] is None or not seen or len(seen) > 2:
        return [row]
    # the methods branch on the configuration: one row per branch, if every branch has a normal form
    import itertools
    conds = sorted(seen, key=show)
    rows = []
    for vals in itertools.product([True, False], repeat=len(conds)):
        mode = dict(zip(conds, vals))
        if not any(mode_holds(mode, o) for o in objs):
            continue
        r, _ = analyse_mode(spec, cls, regs, lists, defaults, [o for o in objs if mode_holds(mode, o)], mode)
        if r["unsupported"] is not None:
            return [row]
        rows.append(r)
    return rows or [row]


def facts():
    return [row for spec in SPECS for row in analyse(spec)]


def q(s):
    return '"' + s.replace("\\", "\\\\").replace('"', '\\"') + '"'


def lean_int(i):
    return f"({i})" if i < 0 else str(i)


def lean_dim(d):
    """a concatenation dimension: an int literal, or ("st", name) = the value of a constant state."""
    if isinstance(d, tuple):
        return f"(.st {q(d[1])})"
    return f"(.lit {lean_int(d)})"


def generate(rep: Report | None = None):
    rows = facts()
    out = ["/- GENERATED by harness/translators/plumbing.py from /repo's working tree — do not edit. -/",
           "import TE.Model.Plumb", "namespace TE.Gen", "open TE.Plumb", "",
           "def classPlumb : List ClassPlumb := ["]
    body = []
    for r in rows:
        fs = []
        for f in r["fields"]:
            if f["kind"] == "num":
                fs.append(f'.num {q(f["name"])} .{f["upd"]} .{f["mrg"]} {q(f["src"])} {"true" if f["du"] else "false"}')
                if "adopt" in f:
                    fs.append(f'.adopt {q(f["name"])} {q(f["adopt"][0])} {q(f["adopt"][1])}')
                if "task" in f:
                    fs.append(f'.task {q(f["name"])} {q(f["task"][0])} {q(f["task"][1])}')
            elif f["kind"] == "der":
                b = lambda x: "true" if x else "false"
                fs.append(f'.der {q(f["name"])} {q(f["a"])} {q(f["b"])} {b(f["inUpd"])} {b(f["inMrg"])} {b(f["atEnd"])}')
            elif f["kind"] == "const":
                fs.append(f'.const {q(f["name"])}')
            elif f["kind"] == "topk":
                b = lambda x: "true" if x else "false"
                fs.append(f'.topk {q(f["vals"])} {q(f["labels"])} {q(f["k"])} {q(f["loop"])} {q(f["rows"])} {b(f["updPrunes"])} {b(f["mrgPrunes"])}')
            elif f["kind"] == "welford":
                b = lambda x: "true" if x else "false"
                fs.append(f'.welford {q(f["n"])} {q(f["sum"])} {q(f["ss"])} {b(f["same"])} {b(f["args"])} {b(f["chan"])}')
            else:
                fs.append(f'.lst {q(f["name"])} {q(f["src"])} {q(f["guard"])} {lean_dim(f["dim"])} [{", ".join(lean_dim(d) for d in f["readDims"])}] {f["raw"]}')
                if "cmp" in f:
                    fs.append(f'.cmp {q(f["name"])} [{", ".join(q(g) for g in f["cmp"][0])}] {lean_dim(f["cmp"][1])}')
        uns = "none" if r["unsupported"] is None else f'(some {q(r["unsupported"])})'
        body.append(f'  ⟨{q(r["name"])}, [{", ".join(fs)}], {uns}, {q(r.get("mode", ""))}⟩')
    out.append(",\n".join(body))
    out += ["]", "", "end TE.Gen", ""]
    p = LEAN / "TE" / "Gen" / "Plumbing.lean"
    new = "\n".join(out)
    if not p.exists() or p.read_text() != new:
        p.write_text(new)
    if rep is not None:
        sup = {r["name"] for r in rows if r["unsupported"] is None}
        rep.notes.append(f"plumbing translator: {len(sup)} of {len({r['name'] for r in rows})} classes in normal form ({len(rows)} rows); outside: "
                         + "; ".join(f"{r['name']} ({r['unsupported']})" for r in rows if r["unsupported"]))
    return rows



# -------------------------------------------------------------------- dynamic cross-check

def _op(op, a, b):
    import torch
    if op == "add":
        return a + b
    if isinstance(a, torch.Tensor) or isinstance(b, torch.Tensor):
        a = torch.as_tensor(a)
        b = torch.as_tensor(b)
        return torch.maximum(a, b) if op == "max" else torch.minimum(a, b)
    return max(a, b) if op == "max" else min(a, b)


def _same(a, b):
    import torch
    if isinstance(a, torch.Tensor) or isinstance(b, torch.Tensor):
        a, b = torch.as_tensor(a), torch.as_tensor(b)
        return a.shape == b.shape and bool(torch.equal(a.to(torch.float64), b.to(torch.float64)))
    if isinstance(a, list) and isinstance(b, list):
        return len(a) == len(b) and all(_same(x, y) for x, y in zip(a, b))
    return a == b


def _copy(v):
    import torch
    if isinstance(v, torch.Tensor):
        return v.detach().clone()
    if isinstance(v, list):
        return [_copy(x) for x in v]
    return v


def crosscheck(rep: Report, rows, rng):
    """run the extracted plumbing next to the real class: (a) merge_state of a target with three sources (one of
    them without updates) must leave every state at what the row's semantics (TE.Plumb.mrgSt) predicts from the
    states before the call; (b) an update() on an object with history must leave every numeric state at
    `upd(state before, state of a FRESH object after the same update)` (the contribution does not depend on the
    object's own state and the default is the operator's unit — for an adopting state this IS the claim "adoption =
    0 + v") and every list state one chunk longer; a derived state equals `a - b` of the states it is derived from
    after both; a constant state never moves.  A row with a mode is checked on the configurations of that mode."""
    import torch
    from ..registry import BY_NAME
    from ..engine import gen_stream, fed

    def expect_merge(row, f, before, sb, got_all):
        k = f["kind"]
        if k == "const":
            return before[f["name"]]
        if k == "der":
            if f["inMrg"] and (f["atEnd"] or sb):
                return got_all[f["a"]] - got_all[f["b"]]
            return before[f["name"]]
        exp = before[f["name"]]
        if k == "lst" and "cmp" in f and all(before[g] for g in f["cmp"][0]):
            d = f["cmp"][1]
            exp = [torch.cat(exp, before[d[1]] if isinstance(d, tuple) else d)]
        for t in sb:
            if k == "num":
                exp = _op(f["mrg"], exp, t[f["src"]])
            elif (t[f["guard"]] if f["guard"] else True):
                d = f["dim"]
                exp = exp + [torch.cat(t[f["src"]], t[d[1]] if isinstance(d, tuple) else d)]
        return exp

    def chan(a, b):
        """(n, sum, ss) combine, in the order of operations of the code."""
        if b[0] == 0:
            return a
        if a[0] == 0:
            return b
        delta = (a[1] / a[0]) - (b[1] / b[0])
        outer = torch.outer(delta, delta)
        return (a[0] + b[0], a[1] + b[1], a[2] + (b[2] + outer * (b[0] * a[0]) / (a[0] + b[0])))

    def close(a, b):
        if isinstance(a, torch.Tensor) or isinstance(b, torch.Tensor):
            a, b = torch.as_tensor(a, dtype=torch.float64), torch.as_tensor(b, dtype=torch.float64)
            return a.shape == b.shape and bool(torch.allclose(a, b, rtol=1e-5, atol=1e-6))
        return a == b

    for row in rows:
        if row["unsupported"] is not None:
            continue
        spec = BY_NAME[row["name"]]
        if row["fields"] and row["fields"][0]["kind"] == "topk":
            w = row["fields"][0]
            names = (w["vals"], w["labels"])

            def select(vs, ls, k):
                kk = vs.size(-1) if k is None else min(k, vs.size(-1))
                top = vs.topk(kk, dim=-1)
                return top[0], ls.gather(dim=-1, index=top[1])
            for cfg0 in spec.configs:
                for tgt_n in (0, 2):
                    cfg = fresh_cfg(cfg0)
                    tgt = fed(spec, cfg, gen_stream(spec, cfg, rng, tgt_n))
                    srcs = [fed(spec, cfg, gen_stream(spec, cfg, rng, n)) for n in rng.sample([0, 1, 2], 3)]
                    nq = len(getattr(tgt, names[0]))
                    exp = {n: [torch.cat([getattr(tgt, n)[i]] + [getattr(m, n)[i] for m in srcs]) for i in range(nq)] for n in names}
                    if w["mrgPrunes"]:
                        for i in range(nq):
                            exp[names[0]][i], exp[names[1]][i] = select(exp[names[0]][i], exp[names[1]][i], tgt.k)
                    tgt.merge_state(srcs)
                    rep.traces += 1
                    rep.count("plumbing:merge-crosscheck")
                    if not all(_same(exp[n], getattr(tgt, n)) for n in names):
                        rep.broke(f"plumbing:{row['name']}.merge_state", f"per-query lists after merge_state differ from what the row describes ({w})",
                                  {"class": row["name"], "field": w["vals"]})
                    b = gen_stream(spec, cfg, rng, 1)[0]
                    old = {n: _copy(getattr(tgt, n)) for n in names}
                    try:
                        b.apply(tgt)
                    except Exception:  # noqa: BLE001
                        continue
                    rep.count("plumbing:update-crosscheck")
                    xs, ys = b.args[0], b.args[1]
                    idx = b.args[2] if len(b.args) > 2 else b.kwargs.get("indexes")
                    good = True
                    for i in range(nq):
                        if nq == 1:
                            xi, yi = xs, ys
                        elif not bool((idx == i).any()):
                            good = good and _same(old[names[0]][i], getattr(tgt, names[0])[i]) and _same(old[names[1]][i], getattr(tgt, names[1])[i])
                            continue
                        else:
                            xi, yi = xs[idx == i], ys[idx == i]
                        ev, el = torch.cat([old[names[0]][i], xi]), torch.cat([old[names[1]][i], yi])
                        if w["updPrunes"]:
                            ev, el = select(ev, el, tgt.k)
                        good = good and _same(ev, getattr(tgt, names[0])[i]) and _same(el, getattr(tgt, names[1])[i])
                    if not good:
                        rep.broke(f"plumbing:{row['name']}.update", f"per-query lists after update differ from select(cat(entry, rows of the query)) ({w})",
                                  {"class": row["name"], "field": w["vals"]})
            continue
        if row["fields"] and row["fields"][0]["kind"] == "welford":
            w = row["fields"][0]
            names = (w["n"], w["sum"], w["ss"])
            for cfg0 in spec.configs:
                for tgt_n in (0, 2):
                    cfg = fresh_cfg(cfg0)
                    tgt = fed(spec, cfg, gen_stream(spec, cfg, rng, tgt_n))
                    srcs = [fed(spec, cfg, gen_stream(spec, cfg, rng, n)) for n in rng.sample([0, 1, 2], 3)]
                    exp = tuple(_copy(getattr(tgt, n)) for n in names)
                    for m in srcs:
                        exp = chan(exp, tuple(_copy(getattr(m, n)) for n in names))
                    tgt.merge_state(srcs)
                    rep.traces += 1
                    rep.count("plumbing:merge-crosscheck")
                    if not all(close(e, getattr(tgt, n)) for e, n in zip(exp, names)):
                        rep.broke(f"plumbing:{row['name']}.merge_state", f"states after merge_state differ from the fold of the joint combine "
                                  f"the row describes ({w})", {"class": row["name"], "field": w["n"]})
                    b = gen_stream(spec, cfg, rng, 1)[0]
                    fresh = new_metric(spec, cfg)
                    old = tuple(_copy(getattr(tgt, n)) for n in names)
                    try:
                        b.apply(tgt)
                        b.apply(fresh)
                    except Exception:  # noqa: BLE001
                        continue
                    rep.count("plumbing:update-crosscheck")
                    exp = chan(old, tuple(getattr(fresh, n) for n in names))
                    if not all(close(e, getattr(tgt, n)) for e, n in zip(exp, names)):
                        rep.broke(f"plumbing:{row['name']}.update", f"states after update differ from combine(state, statistics of the batch) ({w})",
                                  {"class": row["name"], "field": w["n"]})
            continue
        for cfg0 in spec.configs:
            if row.get("mode_terms") and not mode_holds(row["mode_terms"], new_metric(spec, fresh_cfg(cfg0))):
                continue
            for tgt_n in (0, 2):
                cfg = fresh_cfg(cfg0)
                tgt = fed(spec, cfg, gen_stream(spec, cfg, rng, tgt_n))
                srcs = [fed(spec, cfg, gen_stream(spec, cfg, rng, n)) for n in rng.sample([0, 1, 2], 3)]
                before = {f["name"]: _copy(getattr(tgt, f["name"])) for f in row["fields"]}
                sb = [{n: _copy(getattr(m, n)) for n in m._state_name_to_default} for m in srcs]
                tgt.merge_state(srcs)
                rep.traces += 1
                rep.count("plumbing:merge-crosscheck")
                got_all = {f["name"]: getattr(tgt, f["name"]) for f in row["fields"]}
                for f in row["fields"]:
                    exp = expect_merge(row, f, before, sb, got_all)
                    got = got_all[f["name"]]
                    if not _same(exp, got):
                        rep.broke(f"plumbing:{row['name']}.merge_state",
                                  f"state {f['name']} after merge_state differs from what the extracted plumbing row predicts "
                                  f"({f}); the translator misread the method", {"class": row["name"], "field": f["name"]})
                # (b) update on an object with history vs on a fresh object
                m = tgt
                b = gen_stream(spec, cfg, rng, 1)[0]
                fresh = new_metric(spec, cfg)
                old = {f["name"]: _copy(getattr(m, f["name"])) for f in row["fields"]}
                try:
                    b.apply(m)
                    b.apply(fresh)
                except Exception:  # noqa: BLE001
                    continue
                rep.count("plumbing:update-crosscheck")
                for f in row["fields"]:
                    got, x = getattr(m, f["name"]), getattr(fresh, f["name"])
                    if f["kind"] == "num":
                        ok = _same(_op(f["upd"], old[f["name"]], x), got)
                    elif f["kind"] == "const":
                        ok = _same(old[f["name"]], got)
                    elif f["kind"] == "der":
                        ok = _same(getattr(m, f["a"]) - getattr(m, f["b"]), got) if f["inUpd"] else _same(old[f["name"]], got)
                    else:
                        ok = len(x) == 1 and len(got) == len(old[f["name"]]) + 1 and _same(got[-1], x[0]) and _same(got[:-1], old[f["name"]])
                    if not ok:
                        rep.broke(f"plumbing:{row['name']}.update",
                                  f"state {f['name']} after update differs from what the extracted plumbing row predicts ({f})",
                                  {"class": row["name"], "field": f["name"]})

if __name__ == "__main__":
    for r in facts():
        if r["unsupported"]:
            print("UNSUPPORTED", r["name"], "--", r["unsupported"])
        else:
            print("OK", r["name"] + (f" [{r['mode']}]" if r.get("mode") else ""),
                  [{k: v for k, v in f.items() if k != "usrc"} if f["kind"] not in ("num", "lst") or "adopt" in f or "task" in f else
                   (f["name"], f.get("upd", "app"), f.get("mrg", "cat"), f["src"], f.get("guard"), f.get("dim"), f.get("readDims"), f.get("raw"))
                   for f in r["fields"]])
            for d in r["compute"]:
                print("      compute:", d)
            print("      update:", {f["name"]: f["usrc"] for f in r["fields"]}, r["update_info"])
