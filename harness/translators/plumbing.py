"""(T) plumbing translator: a small SYMBOLIC EXECUTOR for the bodies of update() / merge_state() /
compute() of every registry class.  It runs the Python AST of the method (self-method calls are
inlined, `.to()/.clone()/.detach()` are identities, `for metric in metrics` is unrolled over two
symbolic source metrics, every `if` forks a path) over symbolic terms and reads off, per registered
state,

  * how update() accumulates it   : add | max | min | append  of a term that does not mention the
                                    object's own state (an output of the functional helper, an argument)
  * how merge_state() folds it    : add | max | min of the SAME state of each source, in order, or
                                    "append torch.cat(source.state, d) when source.<guard> is non-empty"
  * how compute() reads it        : as such (numeric states) / only through torch.cat(state, d) and
                                    emptiness tests (list states)

A class whose three methods have this normal form gets a `ClassPlumb` row in
lean/TE/Gen/Plumbing.lean; TE.Props.C01_Plumb proves, for EVERY well-formed row (TE.Plumb.WF, a
decidable predicate) and every history of updates / merges / resets, that the object's state content
and result equal those of a single instance fed the surviving batches in order, and `decide`s that
every generated row is well-formed.  A class outside the normal form is listed with the reason
(`unsupported`); the list is pinned by a theorem, so a class that leaves the normal form breaks an
obligation.  The symbolic facts are cross-checked dynamically (`crosscheck`) by executing the
extracted plumbing with the real functional helpers next to the real class.
Regenerates lean/TE/Gen/Plumbing.lean on every run."""
from __future__ import annotations
import ast, inspect, textwrap
from ..common import LEAN, Report
from ..registry import SPECS, new_metric, fresh_cfg
from .states import class_methods

IDENT_METHODS = {"to", "clone", "detach", "contiguous", "cpu"}


class Unsupported(Exception):
    pass


def st(owner, f):
    return ("st", owner, f)


def mentions(term, pred):
    if pred(term):
        return True
    if isinstance(term, tuple):
        return any(mentions(t, pred) for t in term)
    return False


def own_state(term):
    return isinstance(term, tuple) and len(term) == 3 and term[0] == "st" and term[1] == "self"


class Env:
    def __init__(self, states, list_states, state0, locals_=None, conds=None, checks=None, alias=None):
        self.states = states              # set of registered state names
        self.list_states = list_states    # subset holding python lists
        self.state = dict(state0)         # field -> term (current value of self.<field>)
        self.locals = dict(locals_ or {})
        self.conds = list(conds or [])
        self.checks = list(checks or [])  # helper calls made for their validation effect
        self.alias = dict(alias or {})    # local name -> own list state it aliases

    def fork(self):
        return Env(self.states, self.list_states, self.state, self.locals, self.conds, self.checks, self.alias)


class Exec:
    def __init__(self, cls, states, list_states, metrics_param=None, n_src=2):
        self.cls = cls
        self.meths = class_methods(cls)
        import sys
        self.globs = {}
        for k in reversed(cls.__mro__):
            if k.__module__.startswith("torcheval") and k.__module__ in sys.modules:
                self.globs.update(vars(sys.modules[k.__module__]))
        self.states, self.list_states = set(states), set(list_states)
        self.metrics_param = metrics_param
        self.n_src = n_src
        self.depth = 0

    # ---------------------------------------------------------------- expressions
    def ev(self, e, env: Env):
        if isinstance(e, ast.Constant):
            return ("const", repr(e.value))
        if isinstance(e, ast.Name):
            if e.id in env.locals:
                return env.locals[e.id]
            if e.id in self.globs:
                v = self.globs[e.id]
                if isinstance(v, (str, int, float, bool, type(None))):
                    return ("const", repr(v))
                if isinstance(v, (tuple, list)) and all(isinstance(x, (str, int, float, bool, type(None))) for x in v):
                    return ("tuple",) + tuple(("const", repr(x)) for x in v)
            return ("glob", e.id)
        if isinstance(e, ast.Attribute):
            if isinstance(e.value, ast.Name) and e.value.id == "self":
                if e.attr in self.states:
                    return env.state[e.attr]
                return ("cfg", e.attr)
            base = self.ev(e.value, env)
            if base[0] == "obj":
                if e.attr in self.states:
                    return st(base[1], e.attr)
                return ("ocfg", base[1], e.attr)
            if base[0] == "glob":
                return ("glob", base[1] + "." + e.attr)
            return ("attr", base, e.attr)
        if isinstance(e, ast.Tuple) or isinstance(e, ast.List):
            return ("tuple" if isinstance(e, ast.Tuple) else "list",) + tuple(self.ev(x, env) for x in e.elts)
        if isinstance(e, ast.BinOp):
            a, b = self.ev(e.left, env), self.ev(e.right, env)
            if isinstance(e.op, ast.Add):
                return ("add", a, b)
            return ("bin", type(e.op).__name__, a, b)
        if isinstance(e, ast.UnaryOp):
            v = self.ev(e.operand, env)
            if isinstance(e.op, ast.Not):
                return self.neg(self.truth(v))
            if isinstance(e.op, ast.USub) and v[0] == "const":
                return ("const", repr(-eval(v[1])))
            return ("un", type(e.op).__name__, v)
        if isinstance(e, ast.Compare):
            left = self.ev(e.left, env)
            if len(e.ops) != 1:
                raise Unsupported("chained comparison")
            right = self.ev(e.comparators[0], env)
            op = type(e.ops[0]).__name__
            # emptiness tests on lists
            if left[0] == "len" and right == ("const", "0") and op in ("Eq", "NotEq", "Gt"):
                ne = ("nonempty", left[1])
                return self.neg(ne) if op == "Eq" else ne
            if right == ("list",) and op in ("Eq", "NotEq"):
                ne = ("nonempty", left)
                return self.neg(ne) if op == "Eq" else ne
            if op in ("Is", "IsNot") and right == ("const", "None"):
                c = ("isnone", left)
                return c if op == "Is" else self.neg(c)
            return ("cmp", op, left, right)
        if isinstance(e, ast.BoolOp):
            vals = [self.truth(self.ev(v, env)) for v in e.values]
            return ("and" if isinstance(e.op, ast.And) else "or",) + tuple(vals)
        if isinstance(e, ast.Subscript):
            base = self.ev(e.value, env)
            return ("idx", base, ("src", ast.unparse(e.slice)))
        if isinstance(e, ast.IfExp):
            return ("ite", self.truth(self.ev(e.test, env)), self.ev(e.body, env), self.ev(e.orelse, env))
        if isinstance(e, ast.JoinedStr):
            return ("const", "fstring")
        if isinstance(e, ast.Call):
            return self.call(e, env)
        if isinstance(e, ast.Starred):
            return ("star", self.ev(e.value, env))
        if isinstance(e, (ast.ListComp, ast.GeneratorExp)) and len(e.generators) == 1 and not e.generators[0].ifs \
                and isinstance(e.generators[0].target, ast.Name) and not e.generators[0].is_async:
            it = self.ev(e.generators[0].iter, env)
            if it[0] in ("tuple", "list") and all(x[0] == "const" for x in it[1:]):
                tgt = e.generators[0].target.id
                saved = env.locals.get(tgt, None)
                items = []
                for x in it[1:]:
                    env.locals[tgt] = x
                    items.append(self.ev(e.elt, env))
                if saved is None:
                    env.locals.pop(tgt, None)
                else:
                    env.locals[tgt] = saved
                return ("list",) + tuple(items)
            raise Unsupported("comprehension over a non-constant sequence")
        if isinstance(e, (ast.ListComp, ast.GeneratorExp, ast.DictComp, ast.SetComp, ast.Lambda)):
            raise Unsupported("comprehension")
        raise Unsupported("expression " + type(e).__name__)

    @staticmethod
    def neg(c):
        if isinstance(c, tuple) and c and c[0] == "not":
            return c[1]
        return ("not", c)

    def truth(self, v):
        """truthiness of a term used as a condition."""
        if v[0] in ("nonempty", "not", "isnone", "cmp", "and", "or"):
            return v
        if self.is_listy(v):
            return ("nonempty", v)
        return ("truthy", v)

    def is_listy(self, v):
        if v[0] == "st" and v[2] in self.list_states:
            return True
        return v[0] in ("app", "list")

    def const_int(self, t, default=None):
        if t is None:
            return default
        if t[0] == "const":
            try:
                return int(eval(t[1]))
            except Exception:  # noqa: BLE001
                pass
        return t

    def call(self, e: ast.Call, env: Env):
        f = e.func
        if any(k.arg is None for k in e.keywords):
            raise Unsupported("** arguments")
        # method calls
        if isinstance(f, ast.Attribute):
            # self.method(...)  -> inline
            if isinstance(f.value, ast.Name) and f.value.id == "self" and f.attr in self.meths and f.attr not in self.states:
                return self.inline(f.attr, e, env)
            if f.attr in ("append", "extend"):
                field = self.own_list_field(f.value, env)
                if field is not None:
                    if len(e.args) != 1:
                        raise Unsupported("append arity")
                    x = self.ev(e.args[0], env)
                    if f.attr == "extend":
                        raise Unsupported("list.extend on a state")
                    env.state[field] = ("app", env.state[field], x)
                    return ("const", "None")
            recv = self.ev(f.value, env)
            if f.attr in IDENT_METHODS:
                return recv
            if recv[0] == "glob":      # module function, e.g. torch.cat
                return self.fcall(recv[1] + "." + f.attr, e, env)
            args = tuple(self.ev(a, env) for a in e.args)
            kw = tuple(sorted((k.arg, self.ev(k.value, env)) for k in e.keywords))
            return ("mcall", f.attr, recv, args, kw)
        if isinstance(f, ast.Name):
            return self.fcall(f.id, e, env)
        raise Unsupported("call target")

    def fcall(self, name, e, env):
        args = []
        for a in e.args:
            v = self.ev(a, env)
            if v[0] == "star" and v[1][0] in ("tuple", "list"):
                args += list(v[1][1:])
            else:
                args.append(v)
        kw = {k.arg: self.ev(k.value, env) for k in e.keywords}
        if name == "torch.cat":
            lst = args[0] if args else kw.get("tensors")
            dim = args[1] if len(args) > 1 else kw.get("dim")
            return ("cat", lst, self.const_int(dim, 0))
        if name in ("torch.max", "torch.maximum", "max") and len(args) == 2 and not kw:
            return ("max", args[0], args[1])
        if name in ("torch.min", "torch.minimum", "min") and len(args) == 2 and not kw:
            return ("min", args[0], args[1])
        if name == "len" and len(args) == 1:
            return ("len", args[0])
        if name == "getattr" and len(args) == 2 and args[1][0] == "const" and isinstance(eval(args[1][1]), str):
            return self.ev(ast.Attribute(value=e.args[0], attr=eval(args[1][1]), ctx=ast.Load()), env)
        if name == "setattr" and len(args) == 3 and isinstance(e.args[0], ast.Name) and e.args[0].id == "self" and args[1][0] == "const":
            self.assign(ast.Attribute(value=ast.Name(id="self", ctx=ast.Load()), attr=eval(args[1][1]), ctx=ast.Store()), args[2], env)
            return ("const", "None")
        if name in ("isinstance",):
            return ("truthy", ("call", name, tuple(args), ()))
        return ("call", name, tuple(args), tuple(sorted(kw.items())))

    def own_list_field(self, recv_ast, env):
        if isinstance(recv_ast, ast.Attribute) and isinstance(recv_ast.value, ast.Name) and recv_ast.value.id == "self" \
                and recv_ast.attr in self.list_states:
            return recv_ast.attr
        if isinstance(recv_ast, ast.Name) and recv_ast.id in env.alias:
            return env.alias[recv_ast.id]
        if isinstance(recv_ast, ast.Call) and isinstance(recv_ast.func, ast.Name) and recv_ast.func.id == "getattr" and len(recv_ast.args) == 2 \
                and isinstance(recv_ast.args[0], ast.Name) and recv_ast.args[0].id == "self":
            try:
                n = self.ev(recv_ast.args[1], env)
            except Unsupported:
                return None
            if n[0] == "const" and isinstance(eval(n[1]), str) and eval(n[1]) in self.list_states:
                return eval(n[1])
        return None

    def bind_params(self, fn, e, env):
        params = [a.arg for a in fn.args.args][1:]
        if fn.args.vararg or fn.args.kwarg:
            raise Unsupported("varargs method")
        bound = {}
        defaults = fn.args.defaults
        for p_, d in zip(params[len(params) - len(defaults):], defaults):
            bound[p_] = self.ev(d, env)
        pos = []
        for a in e.args:
            v = self.ev(a, env)
            if v[0] == "star":
                inner = v[1]
                rest = len(params) - len(pos) - sum(1 for k in e.keywords if k.arg in params)
                if inner[0] in ("tuple", "list"):
                    pos += list(inner[1:])
                else:
                    pos += [("out", inner, i) for i in range(rest)]
            else:
                pos.append(v)
        for p_, v in zip(params, pos):
            bound[p_] = v
        for k in e.keywords:
            bound[k.arg] = self.ev(k.value, env)
        for a, d in zip(fn.args.kwonlyargs, fn.args.kw_defaults):
            if a.arg not in bound and d is not None:
                bound[a.arg] = self.ev(d, env)
        return bound

    def inline_paths(self, name, e, env):
        """-> list of (env, return value term) for self.<name>(...) (raising paths keep their outcome)."""
        if self.depth > 3:
            raise Unsupported("inlining depth")
        fn = self.meths[name]
        bound = self.bind_params(fn, e, env)
        saved, saved_alias = env.locals, env.alias
        env.locals, env.alias = bound, {}
        self.depth += 1
        try:
            outs = self.block(fn.body, env)
        finally:
            self.depth -= 1
        res = []
        for en, oc in outs:
            en.locals, en.alias = dict(saved), dict(saved_alias)
            if oc is None:
                res.append((en, None, ("const", "None")))
            elif oc[0] == "return":
                res.append((en, None, oc[1]))
            else:
                res.append((en, oc, None))
        return res

    def inline(self, name, e, env):
        n_conds, state0 = len(env.conds), dict(env.state)
        outs = self.inline_paths(name, e, env.fork() if True else env)
        if len(outs) > 1 and all(oc is None and en.state == state0 for en, oc, _ in outs):
            # a pure helper method with several returns: its value is a conditional term
            def combine(paths):
                if len(paths) == 1 and not paths[0][0]:
                    return paths[0][1]
                if any(not cs for cs, _ in paths):
                    raise Unsupported(f"self.{name}(): paths do not partition")
                c = paths[0][0][0]
                pos = [(cs[1:], v) for cs, v in paths if cs[0] == c]
                neg = [(cs[1:], v) for cs, v in paths if cs[0] == self.neg(c)]
                if len(pos) + len(neg) != len(paths) or not pos or not neg:
                    raise Unsupported(f"self.{name}(): paths do not partition")
                return ("ite", c, combine(pos), combine(neg))
            val = combine([(en.conds[n_conds:], v) for en, _, v in outs])
            for en, _, _ in outs:
                env.checks = en.checks if len(en.checks) > len(env.checks) else env.checks
            return val
        if len(outs) != 1 or outs[0][1] is not None:
            raise Unsupported(f"self.{name}() forks or raises in expression position")
        en, _, val = outs[0]
        if en is not env:
            env.state, env.conds, env.checks, env.locals, env.alias = en.state, en.conds, en.checks, en.locals, en.alias
        return val

    # ---------------------------------------------------------------- statements
    def block(self, stmts, env: Env):
        """-> list of (env, outcome); outcome None = fell through."""
        live = [env]
        done = []
        for s in stmts:
            nxt = []
            for en in live:
                for en2, oc in self.stmt(s, en):
                    (nxt if oc is None else done).append((en2, oc) if oc is not None else en2)
            live = nxt
            if not live:
                break
            if len(live) + len(done) > 64:
                raise Unsupported("too many paths")
        return [(en, None) for en in live] + done

    def assign(self, target, val, env, val_ast=None):
        if isinstance(target, ast.Name):
            env.locals[target.id] = val
            env.alias.pop(target.id, None)
            if val_ast is not None:
                f = self.own_list_field(val_ast, env)
                if f is not None:
                    env.alias[target.id] = f
            return
        if isinstance(target, ast.Attribute) and isinstance(target.value, ast.Name) and target.value.id == "self":
            if target.attr in self.states:
                env.state[target.attr] = val
            else:
                env.locals["self." + target.attr] = val
                raise Unsupported(f"writes plain attribute self.{target.attr}")
            return
        if isinstance(target, (ast.Tuple, ast.List)):
            for i, t in enumerate(target.elts):
                if val[0] in ("tuple", "list") and len(val) - 1 == len(target.elts):
                    self.assign(t, val[1 + i], env)
                else:
                    self.assign(t, ("out", val, i), env)
            return
        if isinstance(target, ast.Subscript):
            raise Unsupported("subscript assignment")
        raise Unsupported("assignment target")

    def stmt(self, s, env: Env):
        if isinstance(s, ast.Expr):
            if isinstance(s.value, ast.Constant):
                return [(env, None)]
            c = s.value
            if isinstance(c, ast.Call) and isinstance(c.func, ast.Attribute) and isinstance(c.func.value, ast.Name) \
                    and c.func.value.id == "self" and c.func.attr in self.meths and c.func.attr not in self.states:
                return [(en, oc) for en, oc, _ in self.inline_paths(c.func.attr, c, env)]
            v = self.ev(s.value, env)
            if v[0] == "call":
                env.checks.append(v)
            return [(env, None)]
        if isinstance(s, ast.Assign):
            if len(s.targets) != 1:
                raise Unsupported("multiple assignment targets")
            v = self.ev(s.value, env)
            self.assign(s.targets[0], v, env, s.value)
            return [(env, None)]
        if isinstance(s, ast.AnnAssign):
            if s.value is None:
                return [(env, None)]
            self.assign(s.target, self.ev(s.value, env), env, s.value)
            return [(env, None)]
        if isinstance(s, ast.AugAssign):
            cur = self.ev(s.target, env)
            v = self.ev(s.value, env)
            if isinstance(s.op, ast.Add):
                new = ("add", cur, v)
            else:
                new = ("bin", type(s.op).__name__, cur, v)
            self.assign(s.target, new, env)
            return [(env, None)]
        if isinstance(s, ast.Return):
            return [(env, ("return", self.ev(s.value, env) if s.value is not None else ("const", "None")))]
        if isinstance(s, ast.Raise):
            name = "?"
            if isinstance(s.exc, ast.Call) and isinstance(s.exc.func, ast.Name):
                name = s.exc.func.id
            elif isinstance(s.exc, ast.Name):
                name = s.exc.id
            return [(env, ("raise", name))]
        if isinstance(s, ast.Pass):
            return [(env, None)]
        if isinstance(s, ast.Assert):
            env.checks.append(("assert", ("src", ast.unparse(s.test))))
            return [(env, None)]
        if isinstance(s, ast.With):
            return self.block(s.body, env)
        if isinstance(s, ast.If):
            c = self.truth(self.ev(s.test, env))
            a, b = env, env.fork()
            a.conds.append(c)
            b.conds.append(self.neg(c))
            return self.block(s.body, a) + self.block(s.orelse, b)
        if isinstance(s, ast.For):
            it = self.ev(s.iter, env)
            if it[0] in ("tuple", "list") and all(x[0] == "const" for x in it[1:]) and not s.orelse and isinstance(s.target, ast.Name):
                live, done = [env], []
                for x in it[1:]:
                    nxt = []
                    for en in live:
                        en.locals[s.target.id] = x
                        for en2, oc in self.block(s.body, en):
                            if oc is None or oc == ("continue",):
                                nxt.append(en2)
                            else:
                                done.append((en2, None if oc == ("break",) else oc))
                    live = nxt
                return [(en, None) for en in live] + done
            if it[0] != "metrics" or s.orelse:
                raise Unsupported("loop other than `for m in metrics`")
            live, done = [env], []
            for k in range(self.n_src):
                nxt = []
                for en in live:
                    self.assign(s.target, ("obj", f"m{k + 1}"), en)
                    for en2, oc in self.block(s.body, en):
                        if oc is None or oc == ("continue",):
                            nxt.append(en2)
                        elif oc == ("break",):
                            done.append((en2, ("brk",)))
                        else:
                            done.append((en2, oc))
                live = nxt
            out = [(en, None) for en in live]
            for en2, oc in done:
                out.append((en2, None if oc == ("brk",) else oc))
            return out
        if isinstance(s, ast.Continue):
            return [(env, ("continue",))]
        if isinstance(s, ast.Break):
            return [(env, ("break",))]
        raise Unsupported("statement " + type(s).__name__)

    # ---------------------------------------------------------------- entry
    def run(self, name):
        fn = self.meths[name]
        params = [a.arg for a in fn.args.args][1:] + [a.arg for a in fn.args.kwonlyargs]
        state0 = {f: st("self", f) for f in self.states}
        env = Env(self.states, self.list_states, state0)
        for p in params:
            env.locals[p] = ("metrics",) if (name == "merge_state" and p == params[0]) else ("arg", p)
        return self.block(fn.body, env)


# -------------------------------------------------------------------- normal forms

def strip_acc(term, field, ops):
    """term = op(st self field, X) or op(X, st self field) with X free of own state -> (op, X)."""
    if term == st("self", field):
        return ("same", None)
    if term[0] in ops and len(term) == 3:
        a, b = term[1], term[2]
        if a == st("self", field) and not mentions(b, own_state):
            return (term[0], b)
        if b == st("self", field) and not mentions(a, own_state) and term[0] != "app":
            return (term[0], a)
    return None


def show(t):
    if not isinstance(t, tuple):
        return str(t)
    k = t[0]
    if k == "st":
        return f"{t[1]}.{t[2]}"
    if k in ("arg", "cfg", "glob"):
        return {"arg": "", "cfg": "self.", "glob": ""}[k] + t[1]
    if k == "const":
        return t[1]
    if k == "src":
        return t[1]
    if k == "out":
        return f"{show(t[1])}[{t[2]}]"
    if k == "call":
        a = [show(x) for x in t[2]] + [f"{n}={show(v)}" for n, v in t[3]]
        return f"{t[1]}({', '.join(a)})"
    if k == "mcall":
        a = [show(x) for x in t[3]] + [f"{n}={show(v)}" for n, v in t[4]]
        return f"{show(t[2])}.{t[1]}({', '.join(a)})"
    if k == "cat":
        return f"cat({show(t[1])}, {show(t[2]) if isinstance(t[2], tuple) else t[2]})"
    return k + "(" + ", ".join(show(x) for x in t[1:]) + ")"


def norm_update(ex: Exec):
    outs = ex.run("update")
    ok = [(en, oc) for en, oc in outs if oc is None or oc[0] == "return"]
    if not ok:
        raise Unsupported("update never returns")
    per_field = {}
    for en, _ in ok:
        for f in sorted(ex.states):
            r = strip_acc(en.state[f], f, ("add", "max", "min", "app"))
            if r is None:
                raise Unsupported(f"update of {f} is not `state op= term`: {show(en.state[f])[:80]}")
            per_field.setdefault(f, set()).add(r[0])
    ops = {}
    srcs = {}
    for f, s in per_field.items():
        s2 = s - {"same"}
        if len(s2) > 1:
            raise Unsupported(f"update of {f} uses different operations on different paths")
        if "same" in s and s2:
            raise Unsupported(f"update of {f} is conditional")
        ops[f] = next(iter(s2)) if s2 else "same"
    for f in ops:
        terms = sorted({show(strip_acc(en.state[f], f, ("add", "max", "min", "app"))[1]) for en, _ in ok if ops[f] != "same"})
        srcs[f] = " | ".join(terms)
    raises = sorted({oc[1] for _, oc in outs if oc is not None and oc[0] == "raise"})
    checks = sorted({show(c) for en, _ in ok for c in en.checks})
    return ops, srcs, {"paths": len(ok), "raises": raises, "checks": checks}


def norm_merge(ex: Exec):
    outs = ex.run("merge_state")
    if any(oc is not None and oc[0] == "raise" for _, oc in outs):
        raise Unsupported("merge_state raises on some path")
    res = {}
    n = ex.n_src
    srcs = [f"m{k + 1}" for k in range(n)]
    for f in sorted(ex.states):
        if f in ex.list_states:
            # every path: appended cats of exactly the sources whose guard is non-empty
            guard = dim = src = None
            for en, _ in outs:
                ne = {}
                for c in en.conds:
                    neg = c[0] == "not"
                    c2 = c[1] if neg else c
                    if c2[0] == "nonempty" and c2[1][0] == "st" and c2[1][1] in srcs:
                        if guard not in (None, c2[1][2]):
                            raise Unsupported(f"merge of {f}: guards on different states")
                        guard = c2[1][2]
                        ne[c2[1][1]] = not neg
                    else:
                        raise Unsupported(f"merge path condition {show(c2)[:60]}")
                t = en.state[f]
                items = []
                while t[0] == "app":
                    items.append(t[2])
                    t = t[1]
                if t != st("self", f):
                    raise Unsupported(f"merge rebinds list state {f}")
                items.reverse()
                want = [m for m in srcs if ne.get(m, None)]
                if any(m not in ne for m in srcs):
                    if ne:
                        raise Unsupported(f"merge of {f}: a source is not guarded on some path")
                    want = None
                got = []
                for it in items:
                    if it[0] != "cat" or it[1][0] != "st" or it[1][1] not in srcs:
                        raise Unsupported(f"merge appends {show(it)[:60]} to {f}")
                    if not isinstance(it[2], int):
                        raise Unsupported(f"merge of {f}: non-constant cat dim {show(it[2])}")
                    if dim not in (None, it[2]) or src not in (None, it[1][2]):
                        raise Unsupported(f"merge of {f}: sources differ in dim / state")
                    dim, src = it[2], it[1][2]
                    got.append(it[1][1])
                if want is None:
                    if got != srcs:
                        raise Unsupported(f"merge of {f}: unguarded append does not cover the sources in order")
                elif got != want:
                    raise Unsupported(f"merge of {f}: appended sources {got} on the path where {want} are non-empty")
            if src is None:
                raise Unsupported(f"merge never appends to {f}")
            res[f] = ("catAppend", src, guard if guard is not None else "", dim)
        else:
            if len(outs) != 1:
                pass
            forms = set()
            for en, _ in outs:
                t = en.state[f]
                chain = []
                op = None
                while t != st("self", f):
                    if t[0] not in ("add", "max", "min") or len(t) != 3:
                        raise Unsupported(f"merge of {f} is not a fold: {show(t)[:80]}")
                    if op not in (None, t[0]):
                        raise Unsupported(f"merge of {f} mixes operations")
                    op = t[0]
                    a, b = t[1], t[2]
                    if b[0] == "st" and b[1] in srcs:
                        chain.append(b)
                        t = a
                    elif a[0] == "st" and a[1] in srcs and (b == st("self", f) or b[0] in ("add", "max", "min")):
                        chain.append(a)
                        t = b
                    else:
                        raise Unsupported(f"merge of {f} is not a fold over the sources: {show(t)[:80]}")
                chain.reverse()
                if [c[1] for c in chain] != srcs:
                    raise Unsupported(f"merge of {f} folds sources {[c[1] for c in chain]}")
                fs = {c[2] for c in chain}
                if len(fs) != 1:
                    raise Unsupported(f"merge of {f} reads different states of different sources")
                forms.add((op, fs.pop()))
            if len(forms) != 1:
                raise Unsupported(f"merge of {f} differs between paths")
            op, src = forms.pop()
            res[f] = (op, src, "", 0)
    return res


def reads_of(term, field, ctx=None, acc=None):
    """contexts in which st(self, field) occurs in a term: ('cat', d) | 'len' | 'raw'."""
    if acc is None:
        acc = []
    if term == st("self", field):
        acc.append(ctx or "raw")
        return acc
    if isinstance(term, tuple) and term:
        if term[0] == "cat" and term[1] == st("self", field):
            acc.append(("cat", term[2]))
            return acc
        if term[0] in ("nonempty", "len") and term[1] == st("self", field):
            acc.append("len")
            return acc
        for t in term:
            reads_of(t, field, None, acc)
    return acc


def norm_compute(ex: Exec):
    outs = ex.run("compute")
    reads = {f: [] for f in ex.states}
    descr = []
    for en, oc in outs:
        for f in ex.states:
            if en.state[f] != st("self", f):
                raise Unsupported(f"compute writes state {f}")
            for c in en.conds:
                reads_of(c, f, None, reads[f])
            if oc is not None and oc[0] == "return":
                reads_of(oc[1], f, None, reads[f])
            for c in en.checks:
                reads_of(c, f, None, reads[f])
        conds = " and ".join(show(c) for c in en.conds) or "always"
        if oc is None:
            descr.append((conds, "return", "None"))
        elif oc[0] == "raise":
            descr.append((conds, "raise", oc[1]))
        else:
            descr.append((conds, "return", show(oc[1])))
    return reads, descr


def default_is_unit(v, op):
    import torch
    u = {"add": 0.0, "max": float("-inf"), "min": float("inf")}[op]
    if isinstance(v, torch.Tensor):
        return bool(torch.all(v == u)) if v.numel() else True
    if isinstance(v, (int, float)) and not isinstance(v, bool):
        return float(v) == u
    return False


def analyse(spec):
    regs, lists = set(), set()
    defaults = {}
    for c in spec.configs:
        m = new_metric(spec, fresh_cfg(c))
        for k, v in m._state_name_to_default.items():
            regs.add(k)
            defaults.setdefault(k, []).append(v)
            if isinstance(v, list):
                lists.add(k)
    cls = type(m)
    row = {"name": spec.name, "states": sorted(regs), "lists": sorted(lists), "unsupported": None, "fields": [], "compute": [], "update_info": {}}
    try:
        if any(isinstance(v, dict) for v in m._state_name_to_default.values()):
            raise Unsupported("dict-valued state")
        ex = Exec(cls, regs, lists)
        for need in ("update", "merge_state", "compute"):
            if need not in ex.meths:
                raise Unsupported(f"no {need}() in a torcheval class")
        uops, usrc, uinfo = norm_update(ex)
        mrg = norm_merge(Exec(cls, regs, lists))
        reads, descr = norm_compute(Exec(cls, regs, lists))
        row["compute"] = descr
        row["update_info"] = uinfo
        for f in sorted(regs):
            if f in lists:
                if uops[f] not in ("app",):
                    raise Unsupported(f"list state {f} is not appended to by update ({uops[f]})")
                op, src, guard, dim = mrg[f]
                dims = sorted({r[1] for r in reads[f] if isinstance(r, tuple)}, key=str)
                if any(not isinstance(d, int) for d in dims):
                    raise Unsupported(f"compute concatenates {f} along a non-constant dim")
                raw = sum(1 for r in reads[f] if r == "raw")
                row["fields"].append({"kind": "lst", "name": f, "src": src, "guard": guard, "dim": dim, "readDims": dims, "raw": raw, "usrc": usrc[f]})
            else:
                if uops[f] not in ("add", "max", "min"):
                    raise Unsupported(f"numeric state {f}: update is `{uops[f]}`")
                op, src, _, _ = mrg[f]
                du = all(default_is_unit(v, uops[f]) for v in defaults[f])
                row["fields"].append({"kind": "num", "name": f, "upd": uops[f], "mrg": op, "src": src, "usrc": usrc[f], "du": du})
    except Unsupported as e:
        row["unsupported"] = str(e)
        row["fields"] = []
    except RecursionError:
        row["unsupported"] = "recursion"
        row["fields"] = []
    return row


def facts():
    return [analyse(spec) for spec in SPECS]


def q(s):
    return '"' + s.replace("\\", "\\\\").replace('"', '\\"') + '"'


def lean_int(i):
    return f"({i})" if i < 0 else str(i)


def generate(rep: Report | None = None):
    rows = facts()
    out = ["/- GENERATED by harness/translators/plumbing.py from /repo's working tree — do not edit. -/",
           "import TE.Model.Plumb", "namespace TE.Gen", "open TE.Plumb", "",
           "def classPlumb : List ClassPlumb := ["]
    body = []
    for r in rows:
        fs = []
        for f in r["fields"]:
            if f["kind"] == "num":
                fs.append(f'.num {q(f["name"])} .{f["upd"]} .{f["mrg"]} {q(f["src"])} {"true" if f["du"] else "false"}')
            else:
                fs.append(f'.lst {q(f["name"])} {q(f["src"])} {q(f["guard"])} {lean_int(f["dim"])} [{", ".join(lean_int(d) for d in f["readDims"])}] {f["raw"]}')
        uns = "none" if r["unsupported"] is None else f'(some {q(r["unsupported"])})'
        body.append(f'  ⟨{q(r["name"])}, [{", ".join(fs)}], {uns}⟩')
    out.append(",\n".join(body))
    out += ["]", "", "end TE.Gen", ""]
    p = LEAN / "TE" / "Gen" / "Plumbing.lean"
    new = "\n".join(out)
    if not p.exists() or p.read_text() != new:
        p.write_text(new)
    if rep is not None:
        sup = [r["name"] for r in rows if r["unsupported"] is None]
        rep.notes.append(f"plumbing translator: {len(sup)} of {len(rows)} classes in normal form; outside: "
                         + "; ".join(f"{r['name']} ({r['unsupported']})" for r in rows if r["unsupported"]))
    return rows



# -------------------------------------------------------------------- dynamic cross-check

def _op(op, a, b):
    import torch
    if op == "add":
        return a + b
    if isinstance(a, torch.Tensor) or isinstance(b, torch.Tensor):
        a = torch.as_tensor(a)
        b = torch.as_tensor(b)
        return torch.maximum(a, b) if op == "max" else torch.minimum(a, b)
    return max(a, b) if op == "max" else min(a, b)


def _same(a, b):
    import torch
    if isinstance(a, torch.Tensor) or isinstance(b, torch.Tensor):
        a, b = torch.as_tensor(a), torch.as_tensor(b)
        return a.shape == b.shape and bool(torch.equal(a.to(torch.float64), b.to(torch.float64)))
    if isinstance(a, list) and isinstance(b, list):
        return len(a) == len(b) and all(_same(x, y) for x, y in zip(a, b))
    return a == b


def _copy(v):
    import torch
    if isinstance(v, torch.Tensor):
        return v.detach().clone()
    if isinstance(v, list):
        return [_copy(x) for x in v]
    return v


def crosscheck(rep: Report, rows, rng):
    """run the extracted plumbing next to the real class: (a) merge_state of a target with three sources (one of
    them without updates) must leave every state at what the row's semantics (TE.Plumb.mrg1) predicts from the
    states before the call; (b) an update() on an object with history must leave every numeric state at
    `upd(state before, state of a FRESH object after the same update)` (the contribution does not depend on the
    object's own state and the default is the operator's unit) and every list state one chunk longer."""
    import torch
    from ..registry import BY_NAME
    from ..engine import gen_stream, fed
    for row in rows:
        if row["unsupported"] is not None:
            continue
        spec = BY_NAME[row["name"]]
        for cfg0 in spec.configs:
            for tgt_n in (0, 2):
                cfg = fresh_cfg(cfg0)
                tgt = fed(spec, cfg, gen_stream(spec, cfg, rng, tgt_n))
                srcs = [fed(spec, cfg, gen_stream(spec, cfg, rng, n)) for n in rng.sample([0, 1, 2], 3)]
                before = {f["name"]: _copy(getattr(tgt, f["name"])) for f in row["fields"]}
                sb = [{n: _copy(getattr(m, n)) for n in m._state_name_to_default} for m in srcs]
                tgt.merge_state(srcs)
                rep.traces += 1
                rep.count("plumbing:merge-crosscheck")
                for f in row["fields"]:
                    exp = before[f["name"]]
                    for t in sb:
                        if f["kind"] == "num":
                            exp = _op(f["mrg"], exp, t[f["src"]])
                        elif (t[f["guard"]] if f["guard"] else True):
                            exp = exp + [torch.cat(t[f["src"]], f["dim"])]
                    got = getattr(tgt, f["name"])
                    if not _same(exp, got):
                        rep.broke(f"plumbing:{row['name']}.merge_state",
                                  f"state {f['name']} after merge_state differs from what the extracted plumbing row predicts "
                                  f"({f}); the translator misread the method", {"class": row["name"], "field": f["name"]})
                # (b) update on an object with history vs on a fresh object
                m = tgt
                b = gen_stream(spec, cfg, rng, 1)[0]
                fresh = new_metric(spec, cfg)
                old = {f["name"]: _copy(getattr(m, f["name"])) for f in row["fields"]}
                try:
                    b.apply(m)
                    b.apply(fresh)
                except Exception:  # noqa: BLE001
                    continue
                rep.count("plumbing:update-crosscheck")
                for f in row["fields"]:
                    got, x = getattr(m, f["name"]), getattr(fresh, f["name"])
                    if f["kind"] == "num":
                        ok = _same(_op(f["upd"], old[f["name"]], x), got)
                    else:
                        ok = len(x) == 1 and len(got) == len(old[f["name"]]) + 1 and _same(got[-1], x[0]) and _same(got[:-1], old[f["name"]])
                    if not ok:
                        rep.broke(f"plumbing:{row['name']}.update",
                                  f"state {f['name']} after update differs from what the extracted plumbing row predicts ({f})",
                                  {"class": row["name"], "field": f["name"]})

if __name__ == "__main__":
    for r in facts():
        if r["unsupported"]:
            print("UNSUPPORTED", r["name"], "--", r["unsupported"])
        else:
            print("OK", r["name"], [(f["name"], f.get("upd", "app"), f.get("mrg", "cat"), f["src"], f.get("guard"), f.get("dim"), f.get("readDims"), f.get("raw")) for f in r["fields"]])
            for d in r["compute"]:
                print("      compute:", d)
            print("      update:", {f["name"]: f["usrc"] for f in r["fields"]}, r["update_info"])
