"""(T) shapes translator (C18): every `_*_input_check` / `_*_update_input_check` /
`_*_param_check` helper under torcheval/metrics/functional/** is translated from its AST
into one Lean function over tensor SHAPES + parameters (lean/TE/Gen/Shapes.lean,
vocabulary in lean/TE/Model/Shape.lean).

Grammar: `.ndim`, `.dim()`, `len(x.shape)`, `.shape`, `.size()`, `.size(i)`, `.shape[i]`,
`.numel()`, `.nelement()`, int / Optional[int] / str / Optional[str] / bool parameters,
`isinstance(w, Tensor)`, `is None`, `in (…)`, comparisons (chained too), `and/or/not`,
`if/elif/else`, `raise`, `assert`, early `return`, calls of other check helpers, local
constants, `x = x.unsqueeze(0)`.  Conditions are emitted as `Bool`.  A condition that depends on
tensor *values*, dtypes, devices or float parameters becomes a named Boolean oracle
parameter `o_k` (the Python source it stands for is recorded).  Partial operations
(`shape[i]`, `.size(i)`, `.shape` of None, `<=` on None) get an explicit definedness test in
front of the statement that evaluates them (short-circuit aware), unless the facts
established on the path (`ndim == 2`, `is not None`) already imply it.

Also recorded, per public entry point (functional and class `update`): which check helpers
are reached before the first arithmetic statement (`entryChecks`) and how many inline
`raise` guards are met on the way.

`generate()` rewrites lean/TE/Gen/Shapes.lean only when its text changes. `analyse()` returns
the metadata the C18 harness uses (parameter kinds, oracle sources, instrumented copies)."""
from __future__ import annotations
import ast, copy, importlib, inspect, pkgutil, re, textwrap
from dataclasses import dataclass, field
from ..common import LEAN, REPO

HELPER_RE = re.compile(r"^_.*(_input_check|_param_check)$")
ERRS = {"ValueError": "value", "TypeError": "type", "RuntimeError": "runtime", "IndexError": "index",
        "AssertionError": "assertion", "NotImplementedError": "notImpl"}
LEAN_TYPES = {"tensor": "Shp", "otensor": "Option Shp", "int": "Int", "oint": "Option Int", "str": "String",
              "ostr": "Option String", "bool": "Bool", "seq": "Option Nat"}
LEAN_KEYWORDS = {"from", "at", "in", "do", "end", "then", "else", "if", "let", "have", "show", "fun", "match", "with", "open", "def", "by"}


class NotShape(Exception):
    """expression outside the shape grammar (value dependent) → oracle"""


class Untranslatable(Exception):
    pass


# ------------------------------------------------------------------ Boolean IR

@dataclass(frozen=True)
class B:
    op: str                 # atom | not | and | or | true | false
    args: tuple = ()
    key: tuple = ()         # canonical key of an atom (for facts)
    text: str = ""          # Lean text of an atom
    prec: int = 100         # precedence of the atom text


TRUE, FALSE = B("true"), B("false")


def atom(text, key=None, prec=50):
    return B("atom", (), key if key is not None else ("t", text), text, prec)


def b_not(x):
    if x.op == "true":
        return FALSE
    if x.op == "false":
        return TRUE
    return B("not", (x,))


def b_and(xs):
    out = []
    for x in xs:
        if x.op == "false":
            return FALSE
        if x.op == "true":
            continue
        out.append(x)
    if not out:
        return TRUE
    return out[0] if len(out) == 1 else B("and", tuple(out))


def b_or(xs):
    out = []
    for x in xs:
        if x.op == "true":
            return TRUE
        if x.op == "false":
            continue
        out.append(x)
    if not out:
        return FALSE
    return out[0] if len(out) == 1 else B("or", tuple(out))


def render(b: B, ctx=0) -> str:
    """Lean Bool term; ctx = precedence required by the context (|| 30, && 35, cmp 50, arg 100)."""
    if b.op == "true":
        return "true"
    if b.op == "false":
        return "false"
    if b.op == "atom":
        return f"({b.text})" if b.prec < ctx else b.text
    if b.op == "not":
        # rendered in negation normal form, so that a De Morgan rewrite of a check yields the same Lean text
        inner = b.args[0]
        if inner.op == "not":
            return render(inner.args[0], ctx)
        if inner.op == "and":
            return render(B("or", tuple(B("not", (x,)) for x in inner.args)), ctx)
        if inner.op == "or":
            return render(B("and", tuple(B("not", (x,)) for x in inner.args)), ctx)
        if inner.op == "atom" and inner.prec >= 100:
            return "!" + inner.text
        if inner.op == "atom" and inner.prec == 50:
            for a_, b_ in ((" == ", " != "), (" != ", " == ")):
                if inner.text.count(a_) == 1 and inner.text.count(b_) == 0 and "(" not in inner.text.split(a_)[0].replace("Int.ofNat (", "").replace("(size", "") :
                    t = inner.text.replace(a_, b_)
                    return f"({t})" if 50 < ctx else t
        return "!(" + render(inner) + ")"
    if b.op == "and":
        s = " && ".join(render(x, 36) for x in b.args)
        return f"({s})" if ctx > 35 else s
    if b.op == "or":
        s = " || ".join(render(x, 31) for x in b.args)
        return f"({s})" if ctx > 30 else s
    raise AssertionError(b.op)


def facts_true(b: B, out: dict):
    if b.op == "atom":
        out[b.key] = True
    elif b.op == "not":
        facts_false(b.args[0], out)
    elif b.op == "and":
        for x in b.args:
            facts_true(x, out)


def facts_false(b: B, out: dict):
    if b.op == "atom":
        out[b.key] = False
    elif b.op == "not":
        facts_true(b.args[0], out)
    elif b.op == "or":
        for x in b.args:
            facts_false(x, out)


def entailed(key, facts: dict) -> bool:
    """is the definedness atom `key` implied by the facts?"""
    if facts.get(key) is True:
        return True
    if key[0] == "idx":                     # ("idx", x, i)  :  i < ndim x
        _, x, i = key
        nd = f"ndim {Tr.par(x)}"
        for k, v in facts.items():
            if k[0] == "cmp" and k[2] == nd and isinstance(k[3], int):
                op, n = k[1], k[3]
                if v and ((op == "==" and i < n) or (op == ">" and i <= n) or (op == ">=" and i < n)):
                    return True
                if not v and ((op == "!=" and i < n) or (op == "<=" and i <= n) or (op == "<" and i < n)):
                    return True
            if k[0] == "idx" and k[1] == x and v and k[2] >= i:
                return True
    if key[0] == "some":                    # ("some", p)
        p = key[1]
        if facts.get(("none", p)) is False or facts.get(("some", p)) is True:
            return True
    return False


def simplify_def(d: B, facts: dict) -> B:
    if d.op == "atom":
        return TRUE if entailed(d.key, facts) else d
    if d.op == "and":
        return b_and([simplify_def(x, facts) for x in d.args])
    if d.op == "or":
        return b_or([simplify_def(x, facts) for x in d.args])
    if d.op == "not":
        return b_not(simplify_def(d.args[0], facts))
    return d


# ------------------------------------------------------------------ typed expressions

@dataclass
class E:
    kind: str          # nat | int | oint | shape | oshape | str | ostr | bool | seq | tuple
    text: str = ""
    d: B = TRUE        # definedness
    b: B | None = None  # for kind bool
    items: list | None = None   # for kind tuple: list of python constants
    const: int | None = None    # integer literal value


@dataclass
class Param:
    name: str
    kind: str          # tensor otensor int oint str ostr bool seq value
    default: object = None
    has_default: bool = False
    lean: str = ""


def param_kind(ann: str | None, default) -> str:
    a = (ann or "").replace("typing.", "")
    has_none = "None" in a or "Optional" in a
    if "Tensor" in a:
        return "otensor" if (has_none or "float" in a or "int" in a or "|" in a or "Union" in a) else "tensor"
    if "list" in a.lower() and "str" in a:
        return "seq"
    if a in ("int",):
        return "int"
    if "int" in a and "float" not in a and has_none:
        return "oint"
    if a == "str":
        return "str"
    if "str" in a and has_none:
        return "ostr"
    if a == "bool":
        return "bool"
    return "value"


class Helper:
    def __init__(self, name, module, node: ast.FunctionDef, src_file):
        self.name, self.module, self.node, self.file = name, module, node, src_file
        self.lean_name = ""
        self.params: list[Param] = []
        self.oracles: list[tuple[str, str, ast.AST]] = []     # (o_k, python source, node)
        self.lean: list[str] | None = None
        self.reason: str | None = None
        self.calls: list[str] = []

    @property
    def translated(self):
        return self.lean is not None

    def lean_params(self):
        return [p for p in self.params if p.kind != "value"]


def lean_ident(n: str) -> str:
    return n + "'" if n in LEAN_KEYWORDS else n


def stem_of(name: str) -> str:
    s = name.lstrip("_")
    for suf, rep in (("_update_input_check", ""), ("_input_check", ""), ("_param_check", "_param")):
        if s.endswith(suf):
            return s[: -len(suf)] + rep
    return s


# ------------------------------------------------------------------ the translator proper

class Tr:
    def __init__(self, h: Helper, helpers: dict[str, Helper]):
        self.h, self.helpers = h, helpers
        self.env: dict[str, object] = {}       # name -> Param | E | "tainted"
        for p in h.params:
            self.env[p.name] = p
        self.used = self.used_names(h.node)

    @staticmethod
    def used_names(fn):
        """names read outside `raise` statements (messages do not count)."""
        used = set()

        def walk(n):
            if isinstance(n, ast.Raise):
                return
            if isinstance(n, ast.Name) and isinstance(n.ctx, ast.Load):
                used.add(n.id)
            for c in ast.iter_child_nodes(n):
                walk(c)
        for s in fn.body:
            walk(s)
        return used

    # ---- oracles
    def oracle(self, node) -> B:
        for name, src, nd in self.h.oracles:
            if nd is node:
                return atom(name, ("orc", name), 100)
        name = f"o_{len(self.h.oracles) + 1}"
        self.h.oracles.append((name, ast.unparse(node), node))
        return atom(name, ("orc", name), 100)

    # ---- tensors
    def tensor(self, node, facts) -> E:
        """shape-valued expression"""
        if isinstance(node, ast.Name):
            v = self.env.get(node.id)
            if isinstance(v, Param):
                if v.kind == "tensor":
                    return E("shape", v.lean)
                if v.kind == "otensor":
                    return E("shape", f"shp {v.lean}", atom(f"{v.lean}.isSome", ("some", v.lean), 100))
            if isinstance(v, E) and v.kind == "shape":
                return v
            raise NotShape(node.id)
        if isinstance(node, ast.Attribute) and node.attr == "shape":
            return self.tensor(node.value, facts)
        if isinstance(node, ast.Call) and isinstance(node.func, ast.Attribute) and node.func.attr == "size" and not node.args and not node.keywords:
            return self.tensor(node.func.value, facts)
        if isinstance(node, ast.Call) and isinstance(node.func, ast.Attribute) and node.func.attr == "unsqueeze" and len(node.args) == 1 \
                and isinstance(node.args[0], ast.Constant) and node.args[0].value == 0:
            t = self.tensor(node.func.value, facts)
            return E("shape", f"unsqueeze0 {self.par(t.text)}", t.d)
        raise NotShape(ast.unparse(node))

    @staticmethod
    def par(t: str) -> str:
        return t if re.fullmatch(r"[\w'.]+", t) else f"({t})"

    def const_index(self, node):
        if isinstance(node, ast.Constant) and isinstance(node.value, int) and not isinstance(node.value, bool):
            return node.value
        if isinstance(node, ast.UnaryOp) and isinstance(node.op, ast.USub) and isinstance(node.operand, ast.Constant) and isinstance(node.operand.value, int):
            return -node.operand.value
        return None

    # ---- general expressions
    def expr(self, node, facts) -> E:
        if isinstance(node, ast.Constant):
            v = node.value
            if isinstance(v, bool):
                return E("bool", b=TRUE if v else FALSE)
            if isinstance(v, int):
                return E("nat" if v >= 0 else "int", str(v) if v >= 0 else f"({v})", const=v)
            if isinstance(v, str):
                return E("str", '"' + v.replace('"', '\\"') + '"')
            if v is None:
                return E("none")
            raise NotShape(repr(v))
        if isinstance(node, ast.UnaryOp) and isinstance(node.op, ast.USub) and isinstance(node.operand, ast.Constant) and isinstance(node.operand.value, int):
            return E("int", f"({-node.operand.value})", const=-node.operand.value)
        if isinstance(node, ast.Name):
            v = self.env.get(node.id)
            if isinstance(v, Param):
                k = v.kind
                if k in ("tensor", "otensor"):
                    return self.tensor(node, facts)
                if k == "int":
                    return E("int", v.lean)
                if k == "oint":
                    return E("oint", v.lean)
                if k in ("str", "ostr", "seq"):
                    return E(k, v.lean)
                if k == "bool":
                    return E("bool", b=atom(v.lean, ("p", v.lean), 100))
                raise NotShape(node.id)
            if isinstance(v, E):
                return v
            raise NotShape(node.id)
        if isinstance(node, (ast.Tuple, ast.List)):
            items = []
            for e in node.elts:
                if isinstance(e, ast.Constant) and (e.value is None or isinstance(e.value, (str, int))) and not isinstance(e.value, bool):
                    items.append(e.value)
                else:
                    raise NotShape(ast.unparse(node))
            return E("tuple", items=items)
        if isinstance(node, ast.Attribute):
            if node.attr == "ndim":
                t = self.tensor(node.value, facts)
                return E("nat", f"ndim {self.par(t.text)}", t.d)
            if node.attr == "shape":
                return self.tensor(node, facts)
            raise NotShape(ast.unparse(node))
        if isinstance(node, ast.Subscript):
            i = self.const_index(node.slice)
            if i is not None:
                t = self.tensor(node.value, facts)      # x.shape[i] / x.size()[i]; plain x[i] is a value: tensor() of a Name
                if isinstance(node.value, ast.Name):
                    raise NotShape(ast.unparse(node))    # x[i] indexes the data, not the shape
                return self.sized(t, i)
            raise NotShape(ast.unparse(node))
        if isinstance(node, ast.Call):
            f = node.func
            if isinstance(f, ast.Attribute):
                if f.attr == "dim" and not node.args:
                    t = self.tensor(f.value, facts)
                    return E("nat", f"ndim {self.par(t.text)}", t.d)
                if f.attr == "size" and len(node.args) == 1 and not node.keywords:
                    i = self.const_index(node.args[0])
                    if i is None:
                        raise NotShape(ast.unparse(node))
                    return self.sized(self.tensor(f.value, facts), i)
                if f.attr == "size" and not node.args:
                    return self.tensor(node, facts)
                if f.attr in ("numel", "nelement") and not node.args:
                    t = self.tensor(f.value, facts)
                    return E("nat", f"numel {self.par(t.text)}", t.d)
                if f.attr == "unsqueeze":
                    return self.tensor(node, facts)
            if isinstance(f, ast.Name) and f.id == "len" and len(node.args) == 1:
                a = node.args[0]
                try:
                    t = self.tensor(a, facts)
                    if isinstance(a, ast.Name):
                        raise NotShape("len(tensor)")
                    return E("nat", f"ndim {self.par(t.text)}", t.d)
                except NotShape:
                    pass
                v = self.env.get(a.id) if isinstance(a, ast.Name) else None
                if isinstance(v, Param) and v.kind == "seq":
                    return E("nat", f"slen {v.lean}", atom(f"{v.lean}.isSome", ("some", v.lean), 100))
            raise NotShape(ast.unparse(node))
        if isinstance(node, (ast.BoolOp, ast.Compare)) or (isinstance(node, ast.UnaryOp) and isinstance(node.op, ast.Not)):
            b, d = self.cond(node, facts)
            return E("bool", b=b, d=d)
        raise NotShape(ast.unparse(node))

    def sized(self, t: E, i: int) -> E:
        x = self.par(t.text)
        if i >= 0:
            return E("nat", f"size {x} {i}", b_and([t.d, atom(f"decide ({i} < ndim {x})", ("idx", t.text, i), 100)]))
        k = -i
        return E("nat", f"size {x} (ndim {x} - {k})", b_and([t.d, atom(f"decide ({k} ≤ ndim {x})", ("idx", t.text, k - 1), 100)]))

    # ---- conditions: returns (value : B, definedness : B)
    def is_shape(self, node, facts) -> bool:
        """does this Boolean expression contain at least one translatable leaf?"""
        if isinstance(node, ast.BoolOp):
            return any(self.is_shape(v, facts) for v in node.values)
        if isinstance(node, ast.UnaryOp) and isinstance(node.op, ast.Not):
            return self.is_shape(node.operand, facts)
        save = list(self.h.oracles)
        try:
            self.leaf(node, dict(facts))
            return True
        except NotShape:
            return False
        finally:
            self.h.oracles[:] = save

    def cond(self, node, facts) -> tuple[B, B]:
        if not self.is_shape(node, facts):
            return self.oracle(node), TRUE
        if isinstance(node, ast.BoolOp):
            is_and = isinstance(node.op, ast.And)
            vals, defs = [], []
            f = dict(facts)
            prefix: list[B] = []          # the operands evaluated so far
            for v in node.values:
                b, d = self.cond(v, f)
                d = simplify_def(d, f)
                # operand k is evaluated only when all earlier ones were true (and) / false (or)
                if d.op != "true":
                    guard = [b_not(p) if is_and else p for p in prefix]
                    defs.append(b_or(guard + [d]))
                vals.append(b)
                prefix.append(b)
                (facts_true if is_and else facts_false)(b, f)
            return (b_and(vals) if is_and else b_or(vals)), b_and(defs)
        if isinstance(node, ast.UnaryOp) and isinstance(node.op, ast.Not):
            b, d = self.cond(node.operand, facts)
            return b_not(b), d
        try:
            return self.leaf(node, facts)
        except NotShape:
            return self.oracle(node), TRUE

    def leaf(self, node, facts) -> tuple[B, B]:
        if isinstance(node, ast.Compare):
            parts, defs = [], []
            left = node.left
            for op, right in zip(node.ops, node.comparators):
                b, d = self.compare(left, op, right, facts)
                parts.append(b)
                defs.append(d)
                left = right
            return b_and(parts), b_and(defs)
        if isinstance(node, ast.Call) and isinstance(node.func, ast.Name) and node.func.id == "isinstance" and len(node.args) == 2:
            a, ty = node.args
            tyname = ast.unparse(ty)
            v = self.env.get(a.id) if isinstance(a, ast.Name) else None
            if isinstance(v, Param):
                if v.kind == "otensor" and tyname.endswith("Tensor"):
                    return atom(f"{v.lean}.isSome", ("some", v.lean), 100), TRUE
                if v.kind == "tensor" and tyname.endswith("Tensor"):
                    return TRUE, TRUE
                if v.kind == "int" and tyname == "int":
                    return TRUE, TRUE          # parameters are assumed to have their annotated type
                if v.kind == "str" and tyname == "str":
                    return TRUE, TRUE
            raise NotShape(ast.unparse(node))
        e = self.expr(node, facts)
        if e.kind == "bool":
            return e.b, e.d
        if e.kind == "oint":                      # truthiness of an Optional[int]
            return atom(f"itruthy {e.text}", ("truthy", e.text), 100), TRUE
        raise NotShape(ast.unparse(node))

    def type_of(self, node):
        """`type(x)` → the parameter x"""
        if isinstance(node, ast.Call) and isinstance(node.func, ast.Name) and node.func.id == "type" and len(node.args) == 1 and isinstance(node.args[0], ast.Name):
            v = self.env.get(node.args[0].id)
            if isinstance(v, Param):
                return v
        return None

    def compare(self, l, op, r, facts) -> tuple[B, B]:
        opname = type(op).__name__
        neg = opname in ("NotEq", "IsNot", "NotIn")
        fin = (lambda b: b_not(b)) if neg else (lambda b: b)
        # type(x) tests
        tl, tr = self.type_of(l), self.type_of(r)
        if tl is not None and opname in ("Eq", "NotEq", "Is", "IsNot"):
            if tr is not None and tl.kind == "seq" and tr.kind == "seq":
                return fin(atom(f"{tl.lean}.isSome == {tr.lean}.isSome", None, 50)), TRUE
            tyname = ast.unparse(r)
            if tl.kind == "seq" and tyname == "list":
                return fin(atom(f"{tl.lean}.isSome", ("some", tl.lean), 100)), TRUE
            if tl.kind == "seq" and tyname == "str":
                return fin(atom(f"{tl.lean}.isNone", ("none", tl.lean), 100)), TRUE
            if (tl.kind, tyname) in (("int", "int"), ("str", "str"), ("bool", "bool")):
                return fin(TRUE), TRUE       # parameters are assumed to have their annotated type
            raise NotShape("type test")
        # None tests
        if opname in ("Is", "IsNot", "Eq", "NotEq") and isinstance(r, ast.Constant) and r.value is None:
            v = self.env.get(l.id) if isinstance(l, ast.Name) else None
            if isinstance(v, Param) and v.kind in ("otensor", "oint", "ostr"):
                if neg:
                    return atom(f"{v.lean}.isSome", ("some", v.lean), 100), TRUE
                return atom(f"{v.lean}.isNone", ("none", v.lean), 100), TRUE
            if isinstance(v, Param) and v.kind in ("tensor", "int", "str", "bool", "seq"):
                return fin(FALSE), TRUE
            raise NotShape("None test on a value")
        a = self.expr(l, facts)
        if opname in ("In", "NotIn"):
            c = self.expr(r, facts)
            if c.kind != "tuple":
                raise NotShape("membership in a non-constant container")
            return fin(self.member(a, c.items)), a.d
        b = self.expr(r, facts)
        d = b_and([a.d, b.d])
        sym = {"Eq": "==", "NotEq": "!=", "Lt": "<", "LtE": "≤", "Gt": ">", "GtE": "≥", "Is": "==", "IsNot": "!="}.get(opname)
        if sym is None:
            raise NotShape(opname)
        ka, kb = a.kind, b.kind
        if ka == "shape" and kb == "shape":
            if sym not in ("==", "!="):
                raise NotShape("ordering of shapes")
            return atom(f"{a.text} {sym} {b.text}", ("cmp", sym, a.text, b.text), 50), d
        if ka in ("nat", "int") and kb in ("nat", "int"):
            at, bt = a.text, b.text
            if ka != kb:                            # mixed: compare in Int
                if ka == "nat":
                    at = str(a.const) if a.const is not None else f"Int.ofNat ({a.text})"
                else:
                    bt = str(b.const) if b.const is not None else f"Int.ofNat ({b.text})"
            pyop = {"≤": "<=", "≥": ">="}.get(sym, sym)
            key = ("cmp", pyop, a.text, b.const if b.const is not None else b.text)
            if sym in ("==", "!="):
                return atom(f"{at} {sym} {bt}", key, 50), d
            return atom(f"decide ({at} {sym} {bt})", key, 100), d
        if (ka == "oint" and kb in ("nat", "int")) or (kb == "oint" and ka in ("nat", "int")):
            o, n = (a, b) if ka == "oint" else (b, a)
            nt = n.text if n.kind == "int" else (str(n.const) if n.const is not None else f"Int.ofNat ({n.text})")
            if sym in ("==", "!="):
                lhs, rhs = (f"{o.text}", f"some {self.par(nt)}") if ka == "oint" else (f"some {self.par(nt)}", f"{o.text}")
                return atom(f"{lhs} {sym} {rhs}", None, 50), d
            some = atom(f"{o.text}.isSome", ("some", o.text), 100)
            lhs, rhs = (f"ival {o.text}", nt) if ka == "oint" else (nt, f"ival {o.text}")
            return atom(f"decide ({lhs} {sym} {rhs})", None, 100), b_and([d, some])
        if ka in ("str", "ostr") and kb in ("str", "ostr") and sym in ("==", "!="):
            at, bt = a.text, b.text
            if ka == "ostr" and kb == "str":
                bt = f"some {bt}"
            if kb == "ostr" and ka == "str":
                at = f"some {at}"
            return atom(f"{at} {sym} {bt}", None, 50), d
        raise NotShape(f"comparison {ka} {sym} {kb}")

    def member(self, a: E, items) -> B:
        if a.kind in ("str", "ostr"):
            if any(not (isinstance(i, str) or i is None) for i in items):
                raise NotShape("mixed container")
            if a.kind == "str":
                lst = ", ".join('"' + i + '"' for i in items if i is not None)
                return atom(f"[{lst}].contains {a.text}", None, 100)
            lst = ", ".join("none" if i is None else 'some "' + i + '"' for i in items)
            return atom(f"[{lst}].contains {a.text}", None, 100)
        if a.kind in ("nat", "int"):
            if any(not isinstance(i, int) for i in items):
                raise NotShape("mixed container")
            if a.kind == "nat" and all(i >= 0 for i in items):
                return atom(f"[{', '.join(map(str, items))}].contains {self.par(a.text)}", None, 100)
            t = a.text if a.kind == "int" else f"Int.ofNat ({a.text})"
            return atom(f"([{', '.join(map(str, items))}] : List Int).contains {self.par(t)}", None, 100)
        raise NotShape("membership of a " + a.kind)

    # ---- statements
    @staticmethod
    def never_falls(stmts) -> bool:
        for s in stmts:
            if isinstance(s, (ast.Raise, ast.Return)):
                return True
            if isinstance(s, ast.If) and s.orelse and Tr.never_falls(s.body) and Tr.never_falls(s.orelse):
                return True
        return False

    @staticmethod
    def has_return(stmts) -> bool:
        return any(isinstance(n, ast.Return) for s in stmts for n in ast.walk(s))

    def err_of(self, s: ast.Raise) -> str:
        exc = s.exc
        name = None
        if isinstance(exc, ast.Call) and isinstance(exc.func, ast.Name):
            name = exc.func.id
        elif isinstance(exc, ast.Name):
            name = exc.id
        return ".err ." + ERRS.get(name, "other")

    def def_guard(self, d: B, ind: str) -> list[str]:
        if d.op == "true":
            return []
        kinds = set()

        def walk(x):
            if x.op == "atom":
                kinds.add(x.key[0])
            for y in x.args:
                walk(y)
        walk(d)
        kind = "index" if "idx" in kinds else "type"
        return [f"{ind}if !({render(d)}) then .err .{kind} else"]

    def only_assigns(self, stmts) -> bool:
        return bool(stmts) and all(isinstance(s, ast.Assign) and len(s.targets) == 1 and isinstance(s.targets[0], ast.Name) for s in stmts)

    def drop_facts_about(self, facts: dict, name: str):
        pat = re.compile(rf"\b{re.escape(name)}\b")
        for k in list(facts):
            if any(isinstance(x, str) and pat.search(x) for x in k):
                del facts[k]

    def later_uses(self, name, rest) -> bool:
        def walk(n):
            if isinstance(n, ast.Raise):
                return False
            if isinstance(n, ast.Name) and n.id == name and isinstance(n.ctx, ast.Load):
                return True
            return any(walk(c) for c in ast.iter_child_nodes(n))
        return any(walk(s) for s in rest)

    def block(self, stmts, facts: dict, ind: str) -> list[str]:
        """Lean term (lines) for a statement list; facts may be extended in place."""
        if not stmts:
            return [ind + ".ok"]
        s, rest = stmts[0], stmts[1:]
        if isinstance(s, ast.Expr) and isinstance(s.value, ast.Constant):
            return self.block(rest, facts, ind)
        if isinstance(s, ast.Pass):
            return self.block(rest, facts, ind)
        if isinstance(s, ast.Raise):
            return [ind + self.err_of(s)]
        if isinstance(s, ast.Return):
            if s.value is not None and not (isinstance(s.value, ast.Constant) and s.value.value is None):
                raise Untranslatable("returns a value")
            return [ind + ".ok"]
        if isinstance(s, ast.Assert):
            b, d = self.cond(s.test, facts)
            d = simplify_def(d, facts)
            out = self.def_guard(d, ind) + [f"{ind}if {render(b_not(b))} then .err .assertion else"]
            facts_true(b, facts)
            return out + self.block(rest, facts, ind)
        if isinstance(s, ast.Expr) and isinstance(s.value, ast.Call) and isinstance(s.value.func, ast.Name) and s.value.func.id in self.helpers:
            call = self.call_helper(s.value, facts)
            if not rest:
                return [ind + call]
            return [f"{ind}Res.seq ({call}) <|"] + self.block(rest, facts, ind)
        if isinstance(s, (ast.Assign, ast.AnnAssign)):
            tgt = s.targets[0] if isinstance(s, ast.Assign) and len(s.targets) == 1 else (s.target if isinstance(s, ast.AnnAssign) else None)
            if not isinstance(tgt, ast.Name) or s.value is None:
                raise Untranslatable("assignment to a non-name")
            return self.assign(tgt.id, s.value, None, rest, facts, ind)
        if isinstance(s, ast.If):
            # conditional re-binding:  if c: x = e  [else: x = e']
            if self.only_assigns(s.body) and (not s.orelse or self.only_assigns(s.orelse)):
                names = {a.targets[0].id for a in s.body + s.orelse}
                if not any(self.later_uses(n, rest) for n in names):
                    return self.block(rest, facts, ind)
                if len(s.body) == 1 and len(s.orelse) <= 1 and (not s.orelse or s.orelse[0].targets[0].id == s.body[0].targets[0].id):
                    return self.assign(s.body[0].targets[0].id, s.body[0].value, (s.test, s.orelse[0].value if s.orelse else None), rest, facts, ind)
                for n in names:
                    self.env[n] = "tainted"
                    self.drop_facts_about(facts, n)
                return self.block(rest, facts, ind)
            b, d = self.cond(s.test, facts)
            d = simplify_def(d, facts)
            out = self.def_guard(d, ind)
            c = render(b)
            ft, ff = dict(facts), dict(facts)
            facts_true(b, ft)
            facts_false(b, ff)
            body_nf, else_nf = self.never_falls(s.body), (bool(s.orelse) and self.never_falls(s.orelse))
            if self.has_return(s.body) or self.has_return(s.orelse):
                # early return: the continuation is copied into the branches that fall through
                tb = self.block(list(s.body) + ([] if body_nf else list(rest)), ft, ind + "  ")
                eb = self.block(list(s.orelse) + ([] if else_nf else list(rest)), ff, ind + "  ")
                return out + [f"{ind}if {c} then"] + tb + [f"{ind}else"] + eb
            if body_nf and not s.orelse:
                facts.update(ff) if True else None
                if len(s.body) == 1 and isinstance(s.body[0], ast.Raise):
                    return out + [f"{ind}if {c} then {self.err_of(s.body[0])} else"] + self.block(rest, ff, ind)
                return out + [f"{ind}if {c} then"] + self.block(s.body, ft, ind + "  ") + [f"{ind}else"] + self.block(rest, ff, ind + "  ")
            if body_nf and else_nf:
                return out + [f"{ind}if {c} then"] + self.block(s.body, ft, ind + "  ") + [f"{ind}else"] + self.block(s.orelse, ff, ind + "  ")
            tb = self.block(s.body, ft, ind + "    ")
            eb = self.block(s.orelse, ff, ind + "    ")
            # facts that hold after the statement whichever branch ran: keep only those both agree on
            after = {k: v for k, v in ft.items() if ff.get(k) == v} if not (body_nf or else_nf) else (ff if body_nf else ft)
            for k in list(facts):
                if after.get(k) != facts[k]:
                    pass
            facts.update({k: v for k, v in after.items() if k not in facts})
            core = [f"{ind}  (if {c} then"] + tb + [f"{ind}  else"] + eb[:-1] + [eb[-1] + ")"]
            if not rest:
                core[0] = f"{ind}(if {c} then"
                core = [core[0]] + [l[2:] if l.startswith(ind + "  ") else l for l in core[1:]]
                return out + core
            return out + [f"{ind}Res.seq"] + core + [f"{ind}<|"] + self.block(rest, facts, ind)
        raise Untranslatable(f"statement {type(s).__name__} at line {getattr(s, 'lineno', '?')}")

    def assign(self, name, value, cond_else, rest, facts, ind):
        """x = e   or   if c: x = e [else: x = e']"""
        if not self.later_uses(name, rest):
            self.env[name] = "tainted"
            return self.block(rest, facts, ind)
        if cond_else is None and (isinstance(value, (ast.Compare, ast.BoolOp)) or (isinstance(value, ast.UnaryOp) and isinstance(value.op, ast.Not))
                                  or (isinstance(value, ast.Call) and isinstance(value.func, ast.Name) and value.func.id == "isinstance")) \
                and self.is_shape(value, facts):
            # a named sub-condition (`too_many_dims = input.ndim >= 3`): evaluated here (its definedness is tested here),
            # used wherever the name is tested later
            b, d = self.cond(value, facts)
            d = simplify_def(d, facts)
            self.env[name] = E("bool", b=b)
            return self.def_guard(d, ind) + self.block(rest, facts, ind)
        try:
            e = self.expr(value, facts)
            if e.kind == "tuple" and cond_else is None:
                self.env[name] = e
                return self.block(rest, facts, ind)
            if e.kind not in ("shape", "nat", "int") or simplify_def(e.d, facts).op != "true":
                raise NotShape("assignment of a " + e.kind)
            text = e.text
            if cond_else is not None:
                test, other = cond_else
                b, d = self.cond(test, facts)
                if simplify_def(d, facts).op != "true":
                    raise NotShape("partial condition in a conditional assignment")
                if other is None:
                    old = self.expr(ast.Name(id=name, ctx=ast.Load()), facts)
                else:
                    old = self.expr(other, facts)
                if old.kind != e.kind or simplify_def(old.d, facts).op != "true":
                    raise NotShape("conditional assignment changes the kind")
                text = f"if {render(b)} then {e.text} else {old.text}"
            lean = lean_ident(name)
            self.drop_facts_about(facts, lean)
            self.env[name] = E(e.kind, lean)
            return [f"{ind}let {lean} : {'Shp' if e.kind == 'shape' else ('Nat' if e.kind == 'nat' else 'Int')} := {text}"] + self.block(rest, facts, ind)
        except NotShape:
            self.env[name] = "tainted"
            self.drop_facts_about(facts, name)
            return self.block(rest, facts, ind)

    def call_helper(self, call: ast.Call, facts) -> str:
        callee = self.helpers[call.func.id]
        if not callee.translated:
            raise Untranslatable(f"calls untranslated helper {callee.name}")
        if callee.oracles:
            raise Untranslatable(f"calls helper {callee.name} that has value oracles")
        bound: dict[str, ast.AST] = {}
        cps = callee.params
        for i, a in enumerate(call.args):
            bound[cps[i].name] = a
        for kw in call.keywords:
            bound[kw.arg] = kw.value
        args = []
        for p in callee.lean_params():
            if p.name not in bound:
                if not p.has_default:
                    raise Untranslatable("call without a required argument")
                args.append(self.default_text(p))
                continue
            a = bound[p.name]
            v = self.env.get(a.id) if isinstance(a, ast.Name) else None
            if isinstance(v, Param) and v.kind == p.kind:
                args.append(v.lean)
            elif isinstance(v, Param) and (v.kind, p.kind) in (("tensor", "otensor"), ("int", "oint"), ("str", "ostr")):
                args.append(f"(some {v.lean})")
            elif isinstance(v, E) and v.kind == "shape" and p.kind == "tensor":
                args.append(self.par(v.text))
            else:
                raise Untranslatable(f"argument {ast.unparse(a)} of a helper call")
        self.h.calls.append(callee.name)
        return " ".join([callee.lean_name] + args)

    @staticmethod
    def default_text(p: Param) -> str:
        v = p.default
        if v is None:
            return "none"
        if isinstance(v, bool):
            return "true" if v else "false"
        if isinstance(v, int):
            return f"({v})" if p.kind == "int" else f"(some ({v}))"
        if isinstance(v, str):
            return f'"{v}"' if p.kind == "str" else f'(some "{v}")'
        raise Untranslatable("default value")

    def run(self):
        body = self.block(list(self.h.node.body), {}, "  ")
        return body



# ------------------------------------------------------------------ auxiliary helpers are inlined

def elim_returns(stmts):
    """the same statements without `return` (continuations are copied into the branches that fall through)."""
    if not stmts:
        return []
    s, rest = stmts[0], list(stmts[1:])
    if isinstance(s, ast.Return):
        if s.value is not None and not (isinstance(s.value, ast.Constant) and s.value.value is None):
            raise Untranslatable("auxiliary helper returns a value")
        return []
    if isinstance(s, ast.If) and any(isinstance(n, ast.Return) for n in ast.walk(s)):
        body = elim_returns(list(s.body) + rest) or [ast.Pass()]
        orelse = elim_returns(list(s.orelse) + rest)
        return [ast.If(test=s.test, body=body, orelse=orelse)]
    if any(isinstance(n, ast.Return) for n in ast.walk(s)):
        raise Untranslatable("return inside a compound statement of an auxiliary helper")
    return [s] + elim_returns(rest)


class _Rename(ast.NodeTransformer):
    def __init__(self, mapping):
        self.mapping = mapping

    def visit_Name(self, node):
        if node.id in self.mapping:
            return copy.deepcopy(self.mapping[node.id]) if isinstance(node.ctx, ast.Load) or isinstance(self.mapping[node.id], ast.Name) else node
        return node


_INL = [0]


def inline_aux_calls(fn_node: ast.FunctionDef, mod, is_helper, depth=0) -> ast.FunctionDef:
    """replace statement-level calls `f(args)` of module-level torcheval functions that are not check helpers
    themselves (a validation fragment factored out into its own function) by the callee's body: parameters that
    receive a plain name / constant are substituted, other arguments are bound to a fresh local first, the callee's
    own locals are renamed, early returns are eliminated.  A pure "extract function" refactoring of a check helper
    thereby yields the Lean term it yielded before."""
    def simple(a):
        return isinstance(a, (ast.Name, ast.Constant))

    def try_inline(call: ast.Call):
        if not isinstance(call.func, ast.Name) or is_helper(call.func.id):
            return None
        obj = getattr(mod, call.func.id, None)
        if not inspect.isfunction(obj) or not getattr(obj, "__module__", "").startswith("torcheval"):
            return None
        callee = _fn_ast(inspect.unwrap(obj))
        if callee is None or callee.args.vararg or callee.args.kwarg or any(isinstance(a, ast.Starred) for a in call.args):
            return None
        allowed = (ast.If, ast.Raise, ast.Assert, ast.Return, ast.Expr, ast.Pass, ast.Assign, ast.AnnAssign)
        body = [st for st in callee.body if not (isinstance(st, ast.Expr) and isinstance(st.value, ast.Constant))]
        for st in body:
            for n in ast.walk(st):
                if isinstance(n, ast.stmt) and not isinstance(n, allowed):
                    return None
        pos = callee.args.posonlyargs + callee.args.args
        defaults = [None] * (len(pos) - len(callee.args.defaults)) + list(callee.args.defaults)
        params = list(zip(pos, defaults)) + list(zip(callee.args.kwonlyargs, callee.args.kw_defaults))
        bound = {}
        for (a, _d), v in zip(pos and [(x, None) for x in pos], call.args):
            bound[a.arg] = v
        for kw in call.keywords:
            if kw.arg is None:
                return None
            bound[kw.arg] = kw.value
        _INL[0] += 1
        tag = f"__inl{_INL[0]}"
        pre, mapping = [], {}
        for a, d in params:
            v = bound.get(a.arg, d)
            if v is None:
                return None
            if simple(v):
                mapping[a.arg] = v
            else:
                tmp = ast.Name(id=a.arg + tag, ctx=ast.Load())
                pre.append(ast.Assign(targets=[ast.Name(id=a.arg + tag, ctx=ast.Store())], value=v, lineno=call.lineno))
                mapping[a.arg] = tmp
        assigned = {t.id for st in body for n in ast.walk(st) if isinstance(n, (ast.Assign, ast.AnnAssign))
                    for t in (n.targets if isinstance(n, ast.Assign) else [n.target]) if isinstance(t, ast.Name)}
        for nme in assigned:
            if nme in mapping and not isinstance(mapping[nme], ast.Name):
                return None
            mapping[nme] = ast.Name(id=nme + tag, ctx=ast.Load())
        try:
            body = elim_returns([copy.deepcopy(st) for st in body])
        except Untranslatable:
            return None
        ren = _Rename(mapping)
        out = []
        for st in body:
            st = ren.visit(st)
            for n in ast.walk(st):
                if isinstance(n, ast.Name) and isinstance(n.ctx, ast.Store) and n.id in mapping and isinstance(mapping[n.id], ast.Name):
                    n.id = mapping[n.id].id
            out.append(st)
        callee_mod = importlib.import_module(obj.__module__)
        wrapper = ast.FunctionDef(name="_", args=callee.args, body=out or [ast.Pass()], decorator_list=[], lineno=call.lineno)
        if depth < 3:
            out = inline_aux_calls(wrapper, callee_mod, is_helper, depth + 1).body
        return pre + out

    def go(stmts):
        res = []
        for st in stmts:
            if isinstance(st, ast.Expr) and isinstance(st.value, ast.Call):
                rep = try_inline(st.value)
                if rep is not None:
                    res.extend(rep)
                    continue
            if isinstance(st, ast.If):
                st = ast.If(test=st.test, body=go(st.body) or [ast.Pass()], orelse=go(st.orelse))
                ast.copy_location(st, stmts[0])
            res.append(st)
        return res

    new = copy.deepcopy(fn_node)
    new.body = go(new.body)
    ast.fix_missing_locations(new)
    return new

# ------------------------------------------------------------------ discovery

def functional_modules():
    import torcheval.metrics.functional as F
    mods = []
    for m in pkgutil.walk_packages(F.__path__, F.__name__ + "."):
        if not m.ispkg:
            mods.append(importlib.import_module(m.name))
    return sorted(mods, key=lambda m: m.__name__)


def discover() -> dict[str, Helper]:
    helpers: dict[str, Helper] = {}
    for mod in functional_modules():
        try:
            src = inspect.getsource(mod)
        except OSError:
            continue
        tree = ast.parse(src)
        for node in tree.body:
            if isinstance(node, ast.FunctionDef) and HELPER_RE.match(node.name):
                node = inline_aux_calls(node, mod, lambda n: bool(HELPER_RE.match(n)))
                h = Helper(node.name, mod.__name__, node, inspect.getsourcefile(mod))
                a = node.args
                pos = a.posonlyargs + a.args
                defaults = [None] * (len(pos) - len(a.defaults)) + list(a.defaults)
                allp = list(zip(pos, defaults)) + list(zip(a.kwonlyargs, a.kw_defaults))
                for arg, dflt in allp:
                    ann = ast.unparse(arg.annotation) if arg.annotation is not None else None
                    dv, has = None, dflt is not None
                    if dflt is not None:
                        try:
                            dv = ast.literal_eval(dflt)
                        except Exception:  # noqa: BLE001
                            dv = None
                    kind = param_kind(ann, dv)
                    if ann is None and has and dv is None:
                        kind = "value"
                    h.params.append(Param(arg.arg, kind, dv, has, lean_ident(arg.arg)))
                key = node.name
                if key in helpers:        # same helper name in two modules
                    key = node.name + "@" + mod.__name__.rsplit(".", 1)[-1]
                helpers[key] = h
    # Lean names
    seen = {}
    for key in sorted(helpers):
        h = helpers[key]
        base = "check_" + stem_of(h.name)
        if base in seen:
            base += "_" + h.module.rsplit(".", 1)[-1]
        seen[base] = key
        h.lean_name = base
    return helpers


def translate_all() -> dict[str, Helper]:
    helpers = discover()
    done = set()

    def go(key, stack=()):
        if key in done:
            return
        h = helpers[key]
        if key in stack:
            h.reason = "recursive helper"
            done.add(key)
            return
        for n in ast.walk(h.node):
            if isinstance(n, ast.Call) and isinstance(n.func, ast.Name) and n.func.id in helpers and n.func.id != key:
                go(n.func.id, stack + (key,))
        try:
            lines = Tr(h, helpers).run()
            h.lean = lines
        except Untranslatable as e:
            h.reason = str(e)
            h.oracles = []
        except NotShape as e:       # should not escape
            h.reason = "outside the grammar: " + str(e)
            h.oracles = []
        done.add(key)

    for key in sorted(helpers):
        go(key)
    return helpers


# ------------------------------------------------------------------ entry points

BENIGN_TORCH = {"tensor", "as_tensor", "device", "is_tensor", "inference_mode", "no_grad", "get_default_dtype", "Size",
                "linspace", "ones_like", "zeros_like", "ones", "zeros", "arange", "full", "empty", "is_floating_point"}


class Entry:
    def __init__(self, name):
        self.name = name
        self.checks: list[str] = []
        self.inline = 0
        self.stopped_at: str | None = None


def _resolve(name, glob):
    obj = glob.get(name)
    if inspect.isfunction(obj) and getattr(obj, "__module__", "").startswith("torcheval"):
        return obj
    return None


def _fn_ast(fn):
    try:
        src = textwrap.dedent(inspect.getsource(fn))
    except (OSError, TypeError):
        return None
    tree = ast.parse(src)
    for n in tree.body:
        if isinstance(n, (ast.FunctionDef, ast.AsyncFunctionDef)):
            return n
    return None


def _arith(stmt) -> bool:
    """first 'arithmetic on the arguments': a binary operation, an in-place update, or a torch
    computation (torch.xxx(...) outside a small benign set)."""
    for n in ast.walk(stmt):
        if isinstance(n, ast.Raise):
            continue
        if isinstance(n, (ast.BinOp, ast.AugAssign)):
            return True
        if isinstance(n, ast.Call) and isinstance(n.func, ast.Attribute) and isinstance(n.func.value, ast.Name) and n.func.value.id == "torch" and n.func.attr not in BENIGN_TORCH:
            return True
    return False


def _contains_raise(stmt) -> bool:
    return any(isinstance(n, ast.Raise) for n in ast.walk(stmt))


def trace_entry(fn, helpers_by_name, cls=None, depth=0, ent: Entry | None = None, seen=None) -> bool:
    """walk the statements of fn in execution order (both branches of an `if`); returns False when
    the walk was stopped by the first arithmetic statement.  A guard counts when NO path to it crosses arithmetic:
    a branch that falls into the statements below after arithmetic stops the walk, a branch that `return`s its
    arithmetic does not (the statements below are reached along the other branch only), so that
    `if a: return f(x) * 2` / `raise E` is counted like `if a: return f(x) * 2 else: raise E`; for the caller a
    function that returned after arithmetic on some path is arithmetic."""
    node = _fn_ast(fn)
    seen = seen if seen is not None else set()
    if node is None or depth > 4 or fn in seen:
        return True
    seen.add(fn)
    glob = fn.__globals__

    def calls_of(s) -> str:
        """resolve the calls of one statement: 'stop' | 'resolved' | 'none'"""
        resolved = False
        def post_order(n, acc):
            # Python evaluates the arguments of a call before the call itself
            for ch in ast.iter_child_nodes(n):
                post_order(ch, acc)
            if isinstance(n, ast.Call):
                acc.append(n)
            return acc
        for c in post_order(s, []):
            f = c.func
            tgt = None
            if isinstance(f, ast.Name):
                if f.id in helpers_by_name and HELPER_RE.match(f.id):
                    if f.id not in ent.checks:
                        ent.checks.append(f.id)
                    resolved = True
                    continue
                tgt = _resolve(f.id, glob)
            elif isinstance(f, ast.Attribute) and isinstance(f.value, ast.Name) and f.value.id == "self" and cls is not None:
                tgt = getattr(cls, f.attr, None)
                if not (inspect.isfunction(tgt) and tgt.__module__.startswith("torcheval")):
                    tgt = None
            if tgt is not None:
                resolved = True
                if not trace_entry(tgt, helpers_by_name, cls, depth + 1, ent, seen):
                    return "stop"
        return "resolved" if resolved else "none"

    tainted = [False]                # some path RETURNED after arithmetic (the caller's rest comes after arithmetic)

    def walk(stmts) -> str:          # 'cont' | 'ret' | 'aret' (returned after arithmetic) | 'stop'
        for s in stmts:
            if isinstance(s, ast.Expr) and isinstance(s.value, ast.Constant):
                continue
            if isinstance(s, ast.Raise):
                # an unconditional `raise` reached without arithmetic: the `else: raise` of a chain written as guard clauses
                ent.inline += 1
                return "ret"
            if isinstance(s, ast.Assert) or (isinstance(s, ast.If) and _contains_raise(s)):
                ent.inline += sum(1 for n in ast.walk(s) if isinstance(n, (ast.Raise, ast.Assert)))
                if isinstance(s, ast.If) and calls_of(s) == "stop":
                    return "stop"
                continue
            if isinstance(s, ast.If):
                if _arith(s.test):
                    ent.stopped_at = ast.unparse(s.test)[:80]
                    return "stop"
                rs = [walk(s.body), walk(s.orelse)]
                if "stop" in rs:
                    return "stop"
                if "cont" in rs:
                    # a branch that RETURNS its arithmetic does not reach the statements below: the walk goes on along
                    # the other branch (guard clauses with early returns = the if/elif/else chain)
                    tainted[0] = tainted[0] or "aret" in rs
                    continue
                return "aret" if "aret" in rs else "ret"
            r = calls_of(s)
            if isinstance(s, ast.Return):
                if r == "stop" or (r == "none" and s.value is not None and _arith(s)):
                    if ent.stopped_at is None:
                        ent.stopped_at = ast.unparse(s).split("\n")[0][:80]
                    return "aret"
                return "ret"
            if r == "stop":
                return "stop"
            if r == "none" and _arith(s):
                ent.stopped_at = ast.unparse(s).split("\n")[0][:80]
                return "stop"
        return "cont"

    r = walk(node.body)
    if r in ("stop", "aret") or tainted[0]:
        return False
    if depth == 0 and ent.stopped_at is None:
        ent.stopped_at = "(end of function)"
    return True


def entries(helpers: dict[str, Helper]) -> list[Entry]:
    import torcheval.metrics.functional as F
    import torcheval.metrics as M
    by_name = {h.name: h for h in helpers.values()}
    out = []
    for n in sorted(F.__all__):
        fn = getattr(F, n)
        ent = Entry(n)
        if inspect.isfunction(fn):
            fn = inspect.unwrap(fn)
            trace_entry(fn, by_name, None, 0, ent)
        out.append(ent)
    names = sorted(set(M.__all__) | {"Wasserstein1D"})
    for n in names:
        cls = getattr(M, n, None)
        if cls is None and n == "Wasserstein1D":
            from torcheval.metrics.statistical import Wasserstein1D as cls
        if not inspect.isclass(cls) or n == "Metric":
            continue
        upd = cls.__dict__.get("update") or getattr(cls, "update", None)
        if upd is None:
            continue
        upd = inspect.unwrap(upd)
        ent = Entry(n + ".update")
        trace_entry(upd, by_name, cls, 0, ent)
        out.append(ent)
    return out


# ------------------------------------------------------------------ Lean emission

def lean_sig(h: Helper) -> str:
    ps = [f"({p.lean} : {LEAN_TYPES[p.kind]})" for p in h.lean_params()]
    ps += [f"({o} : Bool)" for o, _, _ in h.oracles]
    return " ".join(ps)


def dispatch_line(h: Helper) -> str:
    args = []
    for p in h.lean_params():
        q = f'"{p.name}"'
        args.append({"tensor": f"(a.shape {q})", "otensor": f"(a.oshape {q})", "int": f"(a.int {q})", "oint": f"(a.oint {q})",
                     "str": f"(a.str {q})", "ostr": f"(a.ostr {q})", "bool": f"(a.bool {q})", "seq": f"(a.seq {q})"}[p.kind])
    args += [f'(a.bool "{o}")' for o, _, _ in h.oracles]
    return f'  ("{h.name}", fun a => {" ".join([h.lean_name] + args)})'


def emit(helpers: dict[str, Helper], ents: list[Entry]) -> str:
    out = ["/- GENERATED by harness/translators/shapes.py from /repo's working tree — do not edit.",
           "   One function per `_*_input_check` / `_*_param_check` helper of torcheval/metrics/functional;",
           "   vocabulary: TE/Model/Shape.lean.  `o_k` = value-dependent condition (oracle), source beside it. -/",
           "import TE.Model.Shape", "set_option linter.unusedVariables false", "namespace TE.Gen", "open TE TE.Shape", ""]
    order = []
    seen = set()

    def visit(key):
        if key in seen:
            return
        seen.add(key)
        h = helpers[key]
        for c in h.calls:
            for k2, h2 in helpers.items():
                if h2.name == c:
                    visit(k2)
        order.append(key)
    for key in sorted(helpers, key=lambda k: (helpers[k].module, helpers[k].node.lineno)):
        visit(key)
    for key in order:
        h = helpers[key]
        rel = str(h.file).replace(str(REPO) + "/", "")
        if not h.translated:
            out += [f"-- UNTRANSLATED {h.name} ({rel}): {h.reason}", ""]
            continue
        out.append(f"/-- `{h.name}` ({rel})")
        for o, src, _ in h.oracles:
            out.append(f"    {o} := `{src}`")
        vals = [p.name for p in h.params if p.kind == "value"]
        if vals:
            out.append(f"    value parameters (only through oracles): {', '.join(vals)}")
        out[-1] += " -/"
        sig = lean_sig(h)
        out.append(f"def {h.lean_name} {sig}{' ' if sig else ''}: Res :=")
        out += h.lean
        out.append("")
    tr = [helpers[k] for k in order if helpers[k].translated]
    un = [helpers[k] for k in order if not helpers[k].translated]
    out += ["/-- Python helper name ↦ translated? -/", "def helperTable : List (String × Bool) := ["]
    out.append(",\n".join(f'  ("{helpers[k].name}", {"true" if helpers[k].translated else "false"})' for k in order))
    out += ["]", "", "/-- helpers outside the grammar, with the reason -/", "def untranslated : List (String × String) := ["]
    out.append(",\n".join('  ("%s", "%s")' % (h.name, (h.reason or "").replace('"', "'")) for h in un))
    out += ["]", "", "/-- number of value oracles per translated helper -/", "def oracleCount : List (String × Nat) := ["]
    out.append(",\n".join(f'  ("{h.name}", {len(h.oracles)})' for h in tr))
    out += ["]", "", "/-- public entry point ↦ check helpers reached before the first arithmetic on the arguments -/",
            "def entryChecks : List (String × List String) := ["]
    out.append(",\n".join('  ("%s", [%s])' % (e.name, ", ".join(f'"{c}"' for c in e.checks)) for e in ents))
    out += ["]", "", "/-- public entry point ↦ number of inline `raise`/`assert` guards met before the first arithmetic -/",
            "def entryInline : List (String × Nat) := ["]
    out.append(",\n".join(f'  ("{e.name}", {e.inline})' for e in ents))
    out += ["]", "", "/-- evaluation of a translated helper on protocol arguments (driver request `chk.<helper>`) -/",
            "def dispatch : List (String × (CallArgs → Res)) := ["]
    out.append(",\n".join(dispatch_line(h) for h in tr))
    out += ["]", "", "end TE.Gen", ""]
    return "\n".join(out)


_CACHE = None


def analyse(force=False):
    """(helpers, entries) for the current working tree of /repo."""
    global _CACHE
    if _CACHE is None or force:
        helpers = translate_all()
        _CACHE = (helpers, entries(helpers))
    return _CACHE


def generate(rep=None):
    helpers, ents = analyse(force=True)
    new = emit(helpers, ents)
    p = LEAN / "TE" / "Gen" / "Shapes.lean"
    if not p.exists() or p.read_text() != new:
        p.write_text(new)
    tr = [h for h in helpers.values() if h.translated]
    un = [h for h in helpers.values() if not h.translated]
    if rep is not None:
        rep.notes.append(f"shapes translator: {len(tr)} helpers translated, {len(un)} untranslated "
                         f"({[(h.name, h.reason) for h in un]}); {sum(len(h.oracles) for h in tr)} value oracles; "
                         f"{len(ents)} entry points, without any check: {[e.name for e in ents if not e.checks and not e.inline]}")
    return helpers, ents


# ------------------------------------------------------------------ instrumented copies (harness side)

def instrumented(h: Helper):
    """a copy of the real helper in which every oracle expression E is replaced by
    `__orc__(k, E)`; calling it runs the real statements and records the oracle values."""
    import sys
    mod = sys.modules[h.module]
    fn_node = copy.deepcopy(h.node)
    # map original oracle nodes to their copies by position
    orig_nodes = list(ast.walk(h.node))
    copy_nodes = list(ast.walk(fn_node))
    idx = {id(n): i for i, n in enumerate(orig_nodes)}
    targets = {}
    for k, (name, _src, nd) in enumerate(h.oracles):
        targets[id(copy_nodes[idx[id(nd)]])] = name

    class Wrap(ast.NodeTransformer):
        def generic_visit(self, node):
            name = targets.get(id(node))
            node = super().generic_visit(node)
            if name is not None:
                thunk = ast.Lambda(args=ast.arguments(posonlyargs=[], args=[], kwonlyargs=[], kw_defaults=[], defaults=[]), body=node)
                return ast.copy_location(ast.Call(func=ast.Name(id="__orc__", ctx=ast.Load()),
                                                  args=[ast.Constant(value=name), thunk], keywords=[]), node)
            return node
    new = Wrap().visit(fn_node)
    new.decorator_list = []
    m = ast.Module(body=[new], type_ignores=[])
    ast.fix_missing_locations(m)
    m = ast.parse(ast.unparse(m))      # consistent source positions (inlined auxiliary helpers carry foreign ones)
    rec: dict[str, bool] = {}

    def orc(name, thunk):
        try:
            value = thunk()
            rec[name] = bool(value)
        except Exception:
            rec["__undefined__"] = True      # the oracle expression itself raised (e.g. torch.max of an empty tensor)
            raise
        return value
    glob = dict(mod.__dict__)
    glob["__orc__"] = orc
    exec(compile(m, f"<instrumented {h.name}>", "exec"), glob)
    return glob[h.name], rec


if __name__ == "__main__":
    hs, es = generate()
    tr = [h for h in hs.values() if h.translated]
    print(len(hs), "helpers,", len(tr), "translated")
    for h in hs.values():
        if not h.translated:
            print("  untranslated:", h.name, "-", h.reason)
    for e in es:
        print(e.name, e.checks, e.inline, e.stopped_at)
