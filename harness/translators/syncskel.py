"""(T) collective-skeleton translator: the PROTOCOL SKELETON of torcheval/metrics/synclib.py and of the sync half of
torcheval/metrics/toolkit.py, read off the source on every run.

A small symbolic walk over the Python AST of every function of the two modules that (transitively) issues a
`torch.distributed` collective, plus the pure functions that fix the traversal order.  Local variables are substituted
away, module-local one-line helpers (`_to_global_rank`, `_get_world_size`, a refactored `_is_receiving_rank`, …) are
inlined, keyword / positional arguments of module-local calls are bound to the callee's parameters, loop and
comprehension variables are numbered by binding depth, list-building loops and comprehensions have one normal form,
`if c: …return` is restructured into if/else, the condition of every choice (statement or conditional expression) is kept
in its positive form (`x if c else y` == `y if not c else x`; a guard clause `if not c: return` + rest == `if c: rest`),
`return None` in tail position is falling off the end, `for i in range(len(S))` using only `S[i]` is `for x in S`, a hoisted
`[e(j) for j in R if c(j)]` iterated by a comprehension is fused with it, `[a, *b]` is `[a] + list(b)` — so that the text
of a function can be rearranged without changing its skeleton, while every fact the C02 / C15 proofs rest on is a node of it:

  seq | ite guard | forEach (what is iterated, e.g. `sorted(keys(d))`) | coll (kind, payload term, group term, root term,
  receive-buffer term) | call f (arguments in the callee's parameter order) | eff (stores into the result) | ret | raise

lean/TE/Gen/SyncSkel.lean holds the generated table; lean/TE/Model/SyncSkel.lean the datatype, the expected skeleton
written next to the hand-written model's definitions, the decidable facts (`Facts`) and an interpreter `run`;
TE/Props/C15_Skel.lean / C02_Skel.lean decide `generated = expected` per function.  A function outside the grammar is an
`untranslated` entry with the reason (pinned by the coverage theorem), never a guess.

`predict` is the same interpreter in Python (over the extracted data); `crosscheck` compares what it predicts — kinds,
roots, groups of every rank's collectives — with what the fake transport recorded for real runs."""
from __future__ import annotations
import ast, sys
from ..common import LEAN, REPO, Report

SYNCLIB = "torcheval/metrics/synclib.py"
TOOLKIT = "torcheval/metrics/toolkit.py"

COLLECTIVES = {"all_gather": "allGather", "gather": "gather", "all_gather_object": "allGatherObj",
               "gather_object": "gatherObj", "broadcast_object_list": "broadcastObj"}
# positional signatures of the torch.distributed functions the modules use: (parameter, default) in order
DIST_SIG = {
    "get_rank": [("group", None)], "get_world_size": [("group", None)], "get_backend": [("group", None)],
    "get_global_rank": [("group", "!"), ("group_rank", "!")], "is_available": [], "is_initialized": [],
    "all_gather": [("tensor_list", "!"), ("tensor", "!"), ("group", None)],
    "gather": [("tensor", "!"), ("gather_list", None), ("dst", 0), ("group", None)],
    "all_gather_object": [("object_list", "!"), ("obj", "!"), ("group", None)],
    "gather_object": [("obj", "!"), ("object_gather_list", None), ("dst", 0), ("group", None)],
    "broadcast_object_list": [("object_list", "!"), ("src", 0), ("group", None)],
}
# (payload, out list, root, group) positions in the bound argument list
COLL_ROLES = {"all_gather": (1, 0, None, 2), "gather": (0, 1, 2, 3), "all_gather_object": (1, 0, None, 2),
              "gather_object": (0, 1, 2, 3), "broadcast_object_list": (0, 0, 1, 2)}
# the functions of the brief (others that communicate are added automatically)
PURE_TARGETS = {"synclib": ["metrics_traversal_order", "_get_empty_metric_state_collection"], "toolkit": []}
SYNCLIB_ORDER = ["_simple_send_tensors", "_send_uneven_tensors", "send_tensors", "metrics_traversal_order",
                 "_get_empty_metric_state_collection", "_sync_tensor_states", "_sync_dtype_and_shape", "_sync_list_length",
                 "_sync_list_tensor_states", "_sync_dict_tensor_states", "_sync_obj_states", "sync_states"]
TOOLKIT_ORDER = ["_sync_metric_object", "get_synced_metric", "get_synced_metric_collection", "get_synced_state_dict",
                 "get_synced_state_dict_collection", "sync_and_compute", "sync_and_compute_collection"]
IDENT_METHODS = set()           # nothing is silently dropped


class Unsupported(Exception):
    pass


# ------------------------------------------------------------------ terms
# ("v", name) parameter | ("b", k) bound variable | ("r", n) result of the n-th coll / call node | ("loc", k) local container
# ("none",) ("tt",) ("ff",) ("int", n) ("str", s) ("fn", dotted name) | ("call", f, [args])

NONE, TT, FF = ("none",), ("tt",), ("ff",)


def C(f, *args):
    return ("call", f, list(args))


def is_call(t, f=None, n=None):
    return t[0] == "call" and (f is None or t[1] == f) and (n is None or len(t[2]) == n)


def tshow(t) -> str:
    k = t[0]
    if k == "v":
        return t[1]
    if k == "b":
        return f"${t[1]}"
    if k == "r":
        return f"#{t[1]}"
    if k == "loc":
        return f"@{t[1]}"
    if k in ("none", "tt", "ff"):
        return {"none": "None", "tt": "True", "ff": "False"}[k]
    if k == "int":
        return str(t[1])
    if k == "str":
        return repr(t[1])
    if k == "fn":
        return t[1]
    return f"{t[1]}({', '.join(tshow(a) for a in t[2])})"


def tmap(t, f):
    """bottom-up rewrite"""
    if t[0] == "call":
        t = ("call", t[1], [tmap(a, f) for a in t[2]])
    return f(t)


def mentions(t, pred) -> bool:
    if pred(t):
        return True
    return t[0] == "call" and any(mentions(a, pred) for a in t[2])


def shift_free(t):
    return t


# ---- binders.  `for` / `flatfor` (bk, iterable, body) bind `bk` in the body; `filtered(inner, cond)` puts `cond` in the scope of
# the binder of `inner` (after peeling further `filtered`).

BINDERS = ("for", "flatfor")


def peel_filtered(t):
    """filtered(filtered(core, c1), c2) -> (core, [c1, c2])"""
    conds = []
    while is_call(t, "filtered", 2):
        conds.append(t[2][1])
        t = t[2][0]
    return t, conds[::-1]


def wrap_filtered(core, conds):
    for c in conds:
        core = C("filtered", core, c)
    return core


def has_binder(t) -> bool:
    return mentions(t, lambda x: x[0] == "call" and x[1] in BINDERS + ("filtered", "dictof", "setof"))


def subst_free(t, k, f):
    """replace the FREE occurrences of ("b", k) by f() — occurrences under a binder of the same index are another variable"""
    if t == ("b", k):
        return f()
    if t[0] != "call":
        return t
    core, conds = peel_filtered(t)
    if conds and is_call(core) and core[1] in BINDERS and len(core[2]) == 3:
        bk, it, body = core[2]
        if bk == ("b", k):
            return wrap_filtered(C(core[1], bk, subst_free(it, k, f), body), conds)
        return wrap_filtered(C(core[1], bk, subst_free(it, k, f), subst_free(body, k, f)), [subst_free(c, k, f) for c in conds])
    if t[1] in BINDERS and len(t[2]) == 3:
        bk, it, body = t[2]
        if bk == ("b", k):
            return C(t[1], bk, subst_free(it, k, f), body)
        return C(t[1], bk, subst_free(it, k, f), subst_free(body, k, f))
    return ("call", t[1], [subst_free(a, k, f) for a in t[2]])


def free_in(t, k) -> bool:
    hit = []

    def f():
        hit.append(1)
        return ("b", k)
    subst_free(t, k, f)
    return bool(hit)


def replace_term(t, old, new, k):
    """replace the sub-term `old` (which mentions the free ("b", k)) by `new`, outside the scope of another binder of index k"""
    if t == old:
        return new
    if t[0] != "call":
        return t
    core, conds = peel_filtered(t)
    if conds and is_call(core) and core[1] in BINDERS and len(core[2]) == 3:
        bk, it, body = core[2]
        if bk == ("b", k):
            return wrap_filtered(C(core[1], bk, replace_term(it, old, new, k), body), conds)
        return wrap_filtered(C(core[1], bk, replace_term(it, old, new, k), replace_term(body, old, new, k)),
                             [replace_term(c, old, new, k) for c in conds])
    if t[1] in BINDERS and len(t[2]) == 3:
        bk, it, body = t[2]
        if bk == ("b", k):
            return C(t[1], bk, replace_term(it, old, new, k), body)
        return C(t[1], bk, replace_term(it, old, new, k), replace_term(body, old, new, k))
    return ("call", t[1], [replace_term(a, old, new, k) for a in t[2]])


MARK = ("fn", "<element>")


def b_indices(t) -> set:
    if t[0] == "b":
        return {t[1]}
    return set().union(*[b_indices(a) for a in t[2]]) if t[0] == "call" else set()


def binder_indices(t) -> set:
    if t[0] != "call":
        return set()
    out = set().union(*[binder_indices(a) for a in t[2]])
    if t[1] in BINDERS and len(t[2]) == 3 and t[2][0][0] == "b":
        out.add(t[2][0][1])
    return out


def reduce_loop(bk, it, terms, term_level=True):
    """normal form of the HEADER of a loop / comprehension `for bk in it` whose body (and conditions) are `terms`:
       * `for i in range(len(S))` with `i` used only as `S[i]`  ==  `for x in S` with `x`;
       * `for x in [e(j) for j in R]` (a hoisted or inlined map)  ==  `for j in R` with `e(j)` for `x`;
       * (comprehensions) `for x in [e(j) for j in R if c(j)]`  ==  `for j in R if c(j)` with `e(j)` for `x`.
    -> (iterable, terms, conditions to put in front)"""
    k = bk[1]
    pre: list = []
    for _ in range(8):
        if is_call(it, "range", 1) and is_call(it[2][0], "len", 1):
            S = it[2][0][2][0]
            if not free_in(S, k) and not has_binder(S):
                elem = C("getitem", S, bk)
                marked = [replace_term(x, elem, MARK, k) for x in terms]
                if not any(free_in(x, k) for x in marked) and not any(mentions(x, lambda y: y == MARK) for x in terms):
                    it = S
                    terms = [tmap(x, lambda y: bk if y == MARK else y) for x in marked]
                    continue
        core, conds = peel_filtered(it)
        if is_call(core, "for", 3) and (term_level or not conds):
            bj, R, e = core[2]
            if bj[0] == "b" and not has_binder(e) and not any(has_binder(c) for c in conds) and not free_in(R, bj[1]) \
                    and (bj == bk or not (free_in(e, k) or any(free_in(c, k) for c in conds))):
                ren = lambda x: subst_free(x, bj[1], lambda: bk)       # noqa: E731
                e2 = ren(e)
                if (b_indices(e2) - {k}) & set().union(*[binder_indices(x) for x in terms]):
                    break                                              # a variable of e would be captured
                terms = [subst_free(x, k, lambda: e2) for x in terms]
                pre = pre + [ren(c) for c in conds]
                it = R
                continue
        break
    return it, terms, pre


def loopnorm(t):
    """top-down: the loop-header normal form on every comprehension term"""
    if t[0] != "call":
        return t
    core, conds = peel_filtered(t)
    if is_call(core) and core[1] in BINDERS and len(core[2]) == 3 and core[2][0][0] == "b":
        bk, it, body = core[2]
        it = loopnorm(it)
        it, terms, pre = reduce_loop(bk, it, [body] + conds)
        return wrap_filtered(C(core[1], bk, it, loopnorm(terms[0])), [loopnorm(c) for c in pre + terms[1:]])
    return ("call", t[1], [loopnorm(a) for a in t[2]])


# the condition of a choice is kept in its POSITIVE form (`x if c else y` == `y if not c else x`)
NEGATED = {"ne": "eq", "is_not": "is", "not_in": "in", "ge": "lt", "gt": "le"}
NEGATION = dict(list(NEGATED.items()) + [(v, k) for k, v in NEGATED.items()])


def positive(c):
    """-> (the condition or its negation, whichever is positive; was it negated)"""
    if is_call(c, "not", 1):
        return c[2][0], True
    if c[0] == "call" and c[1] in NEGATED and len(c[2]) == 2:
        return C(NEGATED[c[1]], *c[2]), True
    return c, False


def simplify(t):
    """the named normal forms"""
    def rw(t):
        if t[0] != "call":
            return t
        f, a = t[1], t[2]
        # symmetric comparisons: canonical argument order
        if f in ("eq", "ne", "is", "is_not") and len(a) == 2 and repr(a[0]) > repr(a[1]):
            a = [a[1], a[0]]
            t = ("call", f, a)
        if f == "not" and is_call(a[0], "not", 1):
            return a[0][2][0]
        if f == "not" and a[0][0] == "call" and a[0][1] in NEGATION and len(a[0][2]) == 2:
            return C(NEGATION[a[0][1]], *a[0][2])
        if f == "ite":
            p, neg = positive(a[0])
            if neg:
                a = [p, a[2], a[1]]
                t = ("call", f, a)
        # `_to_global_rank(group, r)`: r for the default group, else dist.get_global_rank(group, r)
        if f == "ite" and is_call(a[0], "is", 2) and NONE in a[0][2]:
            g = [x for x in a[0][2] if x != NONE]
            if len(g) == 1 and is_call(a[2], "dist.get_global_rank", 2) and a[2][2][0] == g[0] and a[2][2][1] == a[1]:
                return C("toGlobal", g[0], a[1])
        # `rank is None or dist.get_rank(group) == rank`: this member receives
        if f == "or" and len(a) == 2 and is_call(a[0], "is", 2) and NONE in a[0][2] and is_call(a[1], "eq", 2):
            r = [x for x in a[0][2] if x != NONE]
            if len(r) == 1 and r[0] in a[1][2]:
                o = [x for x in a[1][2] if x != r[0]]
                if len(o) == 1 and is_call(o[0], "dist.get_rank", 1):
                    return C("recv", o[0][2][0], r[0])
        # `not dist.is_available() or not dist.is_initialized()`
        if f == "or" and len(a) == 2 and a[0] == C("not", C("dist.is_available")) and a[1] == C("not", C("dist.is_initialized")):
            return C("notInit")
        # toolkit._get_world_size / _get_rank
        if f == "ite" and a[0] == C("notInit") and a[1] == ("int", 1) and is_call(a[2], "dist.get_world_size", 1):
            return C("wsOr1", a[2][2][0])
        if f == "ite" and a[0] == C("notInit") and a[1] == ("int", 0) and is_call(a[2], "dist.get_rank", 1):
            return C("meOr0", a[2][2][0])
        # `pg if pg else dist.group.WORLD`
        if f == "ite" and a[0] == a[1] and a[2] == ("fn", "dist.group.WORLD"):
            return C("groupOrWorld", a[0])
        # [e] * n  ==  [e for _ in range(n)] when e is a constant
        if f == "for" and is_call(a[1], "range", 1) and a[2] in (NONE, ("int", 0)):
            return C("repeat", a[2], a[1][2][0])
        if f == "mul" and is_call(a[0], "[]", 1) and a[0][2][0] in (NONE, ("int", 0)):
            return C("repeat", a[0][2][0], a[1])
        # a one-element flat map is a map
        if f == "flatfor" and is_call(a[2], "[]", 1):
            return C("for", a[0], a[1], a[2][2][0])
        if f == "ite" and a[1] == a[2]:
            return a[1]
        if f == "ite" and a[1] == TT and a[2] == FF:
            return a[0]
        if f == "ite" and a[0] == TT:
            return a[1]
        if f == "ite" and a[0] == FF:
            return a[2]
        return t
    return loopnorm(tmap(t, rw))


# ------------------------------------------------------------------ modules

class Module:
    def __init__(self, key, relpath):
        self.key, self.path = key, REPO / relpath
        self.src = self.path.read_text()
        self.tree = ast.parse(self.src)
        self.funcs: dict[str, ast.FunctionDef] = {}
        self.consts: dict[str, ast.expr] = {}
        self.imports: dict[str, tuple] = {}        # local name -> (module key, name) for names imported from the other module
        for st in self.tree.body:
            if isinstance(st, ast.FunctionDef):
                if any(isinstance(d, ast.Name) and d.id == "overload" for d in st.decorator_list):
                    continue
                self.funcs[st.name] = st
            elif isinstance(st, (ast.Assign, ast.AnnAssign)):
                tgt = st.targets[0] if isinstance(st, ast.Assign) else st.target
                if isinstance(tgt, ast.Name) and st.value is not None and isinstance(st.value, ast.Constant):
                    self.consts[tgt.id] = st.value
            elif isinstance(st, ast.ImportFrom) and st.module == "torcheval.metrics.synclib":
                for al in st.names:
                    self.imports[al.asname or al.name] = ("synclib", al.name)


class World:
    """both modules + which functions communicate"""

    def __init__(self):
        self.mods = {"synclib": Module("synclib", SYNCLIB), "toolkit": Module("toolkit", TOOLKIT)}
        self.comm: set = set()
        changed = True
        while changed:
            changed = False
            for mk, m in self.mods.items():
                for name, fn in m.funcs.items():
                    if (mk, name) in self.comm:
                        continue
                    for n in ast.walk(fn):
                        if isinstance(n, ast.Call):
                            if _dist_name(n.func) in COLLECTIVES:
                                self.comm.add((mk, name)); changed = True; break
                            if isinstance(n.func, ast.Name):
                                tgt = self.resolve(mk, n.func.id)
                                if tgt in self.comm:
                                    self.comm.add((mk, name)); changed = True; break

    def resolve(self, mk, name):
        m = self.mods[mk]
        if name in m.funcs:
            return (mk, name)
        if name in m.imports and m.imports[name][1] in self.mods[m.imports[name][0]].funcs:
            return m.imports[name]
        return None

    def targets(self, mk):
        names = [n for n in self.mods[mk].funcs if (mk, n) in self.comm or n in PURE_TARGETS[mk]]
        order = SYNCLIB_ORDER if mk == "synclib" else TOOLKIT_ORDER
        return [n for n in order if n in names] + sorted(n for n in names if n not in order)


def _dist_name(f):
    """`dist.X` -> X"""
    if isinstance(f, ast.Attribute) and isinstance(f.value, ast.Name) and f.value.id == "dist":
        return f.attr
    return None


def _dotted(e):
    if isinstance(e, ast.Name):
        return e.id
    if isinstance(e, ast.Attribute):
        b = _dotted(e.value)
        return None if b is None else b + "." + e.attr
    return None


CMP = {ast.Eq: "eq", ast.NotEq: "ne", ast.Lt: "lt", ast.LtE: "le", ast.Gt: "gt", ast.GtE: "ge", ast.Is: "is", ast.IsNot: "is_not",
       ast.In: "in", ast.NotIn: "not_in"}
BIN = {ast.Add: "add", ast.Sub: "sub", ast.Mult: "mul", ast.FloorDiv: "floordiv", ast.Mod: "mod", ast.Div: "div"}
MODULE_ROOTS = {"torch", "dist", "F", "log", "_logger", "logging"}
BUILTINS = {"len", "list", "dict", "zip", "range", "enumerate", "sorted", "reversed", "max", "min", "any", "all", "isinstance",
            "type", "slice", "int", "float", "tuple", "none_throws", "deepcopy", "set", "str", "sum"}
FRESH = {"[]", "{}", "()", "for", "flatfor", "dictof", "repeat", "concat", "filtered"}       # terms that build a new container


# ------------------------------------------------------------------ the walk

class Walk:
    def __init__(self, world: World, mk: str, name: str):
        self.w, self.mk, self.name = world, mk, name
        self.fn = world.mods[mk].funcs[name]
        self.params = [a.arg for a in self.fn.args.args]
        self.nres = 0
        self.nloc = 0
        self.depth = 0
        self.pending: list = []        # nodes emitted while evaluating an expression (calls of communicating functions)
        # names whose container is written through a subscript store / setdefault: a `loc` from their creation on
        self.mutated = set()
        for n in ast.walk(self.fn):
            if isinstance(n, ast.Subscript) and isinstance(n.ctx, ast.Store):
                r = n.value
                while isinstance(r, ast.Subscript):
                    r = r.value
                if isinstance(r, ast.Call) and isinstance(r.func, ast.Attribute) and r.func.attr == "setdefault":
                    r = r.func.value
                if isinstance(r, ast.Name):
                    self.mutated.add(r.id)
            if isinstance(n, ast.Call) and isinstance(n.func, ast.Attribute) and n.func.attr == "setdefault" and isinstance(n.func.value, ast.Name):
                self.mutated.add(n.func.value.id)
        for n in ast.walk(self.fn):
            # a container handed to a communicating function (which fills it), or iterated with its elements written
            if isinstance(n, ast.Call) and isinstance(n.func, ast.Name) and world.resolve(mk, n.func.id) in world.comm:
                for a in list(n.args) + [k.value for k in n.keywords]:
                    if isinstance(a, ast.Name):
                        self.mutated.add(a.id)
            if isinstance(n, ast.For) and isinstance(n.iter, ast.Name) and isinstance(n.target, ast.Name) and n.target.id in self.mutated:
                self.mutated.add(n.iter.id)

    # ---------------------------------------------------------- expressions
    def bind_args(self, sig, call: ast.Call, env):
        """positional argument list in the order of `sig` [(name, default ast | python value | '!')]"""
        vals: dict = {}
        if any(isinstance(a, ast.Starred) for a in call.args) or any(k.arg is None for k in call.keywords):
            raise Unsupported("star arguments")
        if len(call.args) > len(sig):
            raise Unsupported(f"too many positional arguments at line {call.lineno}")
        for (pn, _d), a in zip(sig, call.args):
            vals[pn] = self.ev(a, env)
        for k in call.keywords:
            if k.arg not in [p for p, _ in sig]:
                raise Unsupported(f"unknown keyword {k.arg} at line {call.lineno}")
            vals[k.arg] = self.ev(k.value, env)
        out = []
        for pn, d in sig:
            if pn in vals:
                out.append(vals[pn])
            elif isinstance(d, str) and d == "!":
                raise Unsupported(f"missing argument {pn} at line {call.lineno}")
            elif isinstance(d, ast.AST):
                out.append(self.ev(d, {}))
            else:
                out.append(NONE if d is None else ("int", d))
        return out

    def local_sig(self, fn: ast.FunctionDef):
        a = fn.args
        if a.vararg or a.kwarg or a.kwonlyargs or a.posonlyargs:
            raise Unsupported(f"signature of {fn.name}")
        nd = len(a.args) - len(a.defaults)
        return [(p.arg, "!" if i < nd else a.defaults[i - nd]) for i, p in enumerate(a.args)]

    def inline(self, tgt, args):
        """a module-local function without collectives whose body is assignments / if-return / return: its value"""
        mk, name = tgt
        fn = self.w.mods[mk].funcs[name]
        sub = Walk(self.w, mk, name)
        sub.depth = self.depth
        env = dict(zip([p.arg for p in fn.args.args], args))
        v = sub.expr_body(fn.body, env)
        return v

    def expr_body(self, stmts, env):
        """value of a straight-line / if-return body, or None when the body is not of that form"""
        for i, st in enumerate(stmts):
            if isinstance(st, ast.Expr) and isinstance(st.value, ast.Constant) and isinstance(st.value.value, str):
                continue
            if isinstance(st, ast.Return):
                return NONE if st.value is None else self.ev(st.value, env)
            if isinstance(st, ast.Assign) and len(st.targets) == 1 and isinstance(st.targets[0], ast.Name):
                env[st.targets[0].id] = self.ev(st.value, env)
                continue
            if isinstance(st, ast.If):
                c = self.ev(st.test, env)
                a = self.expr_body(st.body + stmts[i + 1:], dict(env))
                b = self.expr_body(st.orelse + stmts[i + 1:], dict(env))
                if a is None or b is None:
                    return None
                return simplify(C("ite", c, a, b))
            return None
        return NONE

    def ev(self, e, env):
        return simplify(self._ev(e, env))

    def _ev(self, e, env):
        if isinstance(e, ast.Constant):
            v = e.value
            if v is None:
                return NONE
            if v is True:
                return TT
            if v is False:
                return FF
            if isinstance(v, int):
                return ("int", v)
            if isinstance(v, str):
                return ("str", v)
            if isinstance(v, float):
                return ("str", repr(v))
            raise Unsupported(f"constant {v!r}")
        if isinstance(e, ast.Name):
            if e.id in env:
                return env[e.id]
            m = self.w.mods[self.mk]
            if e.id in m.consts:
                return self._ev(m.consts[e.id], {})
            return ("fn", e.id)
        if isinstance(e, ast.Attribute):
            d = _dotted(e)
            if d is not None and d.split(".")[0] in MODULE_ROOTS and d.split(".")[0] not in env:
                return ("fn", d)
            return C("." + e.attr, self.ev(e.value, env))
        if isinstance(e, ast.Subscript):
            return C("getitem", self.ev(e.value, env), self.ev(e.slice, env))
        if isinstance(e, ast.Slice):
            return C("slice", *[NONE if x is None else self.ev(x, env) for x in (e.lower, e.upper, e.step)])
        if isinstance(e, ast.Tuple):
            return C("()", *[self.ev(x, env) for x in e.elts])
        if isinstance(e, ast.List):
            # `[a, *b, c]`  ==  `[a] + list(b) + [c]`
            segs, cur = [], []
            for x in e.elts:
                if isinstance(x, ast.Starred):
                    if cur:
                        segs.append(C("[]", *cur))
                        cur = []
                    segs.append(C("list", self.ev(x.value, env)))
                else:
                    cur.append(self.ev(x, env))
            if cur or not segs:
                segs.append(C("[]", *cur))
            t = segs[0]
            for x in segs[1:]:
                t = C("add", t, x)
            return t
        if isinstance(e, ast.Dict):
            if any(k is None for k in e.keys):
                raise Unsupported("dict unpacking")
            return C("{}", *[C("()", self.ev(k, env), self.ev(v, env)) for k, v in zip(e.keys, e.values)])
        if isinstance(e, ast.BoolOp):
            op = "or" if isinstance(e.op, ast.Or) else "and"
            vals = [self.ev(x, env) for x in e.values]
            t = vals[-1]
            for x in reversed(vals[:-1]):
                t = simplify(C(op, x, t))
            return t
        if isinstance(e, ast.UnaryOp):
            if isinstance(e.op, ast.Not):
                return C("not", self.ev(e.operand, env))
            if isinstance(e.op, ast.USub):
                v = self.ev(e.operand, env)
                return ("int", -v[1]) if v[0] == "int" else C("neg", v)
            raise Unsupported("unary operator")
        if isinstance(e, ast.BinOp):
            if type(e.op) not in BIN:
                raise Unsupported("binary operator")
            return C(BIN[type(e.op)], self.ev(e.left, env), self.ev(e.right, env))
        if isinstance(e, ast.Compare):
            if len(e.ops) != 1 or type(e.ops[0]) not in CMP:
                raise Unsupported("comparison chain")
            return C(CMP[type(e.ops[0])], self.ev(e.left, env), self.ev(e.comparators[0], env))
        if isinstance(e, ast.IfExp):
            n0 = len(self.pending)
            c = self.ev(e.test, env)
            a, b = self.ev(e.body, env), self.ev(e.orelse, env)
            if len(self.pending) != n0:
                raise Unsupported(f"a communicating call inside a conditional expression at line {e.lineno}")
            return C("ite", c, a, b)
        if isinstance(e, ast.JoinedStr):
            return ("str", "<f-string>")
        if isinstance(e, (ast.ListComp, ast.GeneratorExp, ast.DictComp, ast.SetComp)):
            n0 = len(self.pending)
            v = self.comp(e, env)
            if len(self.pending) != n0:
                raise Unsupported(f"a communicating call inside a comprehension at line {e.lineno}")
            return v
        if isinstance(e, ast.Call):
            return self.call(e, env)
        raise Unsupported(f"expression {type(e).__name__} at line {getattr(e, 'lineno', '?')}")

    def bind_target(self, tgt, val, env):
        """bind a (possibly tuple) target to the components of `val`"""
        if isinstance(tgt, ast.Name):
            env[tgt.id] = val
        elif isinstance(tgt, (ast.Tuple, ast.List)):
            for i, t in enumerate(tgt.elts):
                self.bind_target(t, simplify(C("getitem", val, ("int", i))), env)
        else:
            raise Unsupported("assignment target")

    def comp(self, e, env):
        gens = e.generators
        env = dict(env)
        d0 = self.depth

        def go(i):
            if i == len(gens):
                if isinstance(e, ast.DictComp):
                    return C("()", self.ev(e.key, env), self.ev(e.value, env))
                return self.ev(e.elt, env)
            g = gens[i]
            if g.is_async:
                raise Unsupported("async comprehension")
            it = self.ev(g.iter, env)
            if i > 0 and is_call(it, "()") and not g.ifs and isinstance(g.target, ast.Name):
                # iteration over a literal tuple: unrolled
                outs = []
                for x in it[2]:
                    env[g.target.id] = x
                    outs.append(go(i + 1))
                return ("unrolled", outs)
            bk = ("b", self.depth)
            self.bind_target(g.target, bk, env)
            self.depth += 1
            conds = [self.ev(c, env) for c in g.ifs]
            body = go(i + 1)
            self.depth -= 1
            if isinstance(body, tuple) and body[0] == "unrolled":
                t = C("flatfor", bk, it, C("[]", *body[1]))
            elif i + 1 < len(gens):
                t = C("flatfor", bk, it, body)
            else:
                t = C("for", bk, it, body)
            for c in conds:
                t = C("filtered", t, c)
            return simplify(t)
        t = go(0)
        self.depth = d0
        if isinstance(t, tuple) and t[0] == "unrolled":
            raise Unsupported("comprehension over a literal")
        if isinstance(e, ast.DictComp):
            return C("dictof", t)
        if isinstance(e, ast.SetComp):
            return C("setof", t)
        return t

    def call(self, e: ast.Call, env):
        dn = _dist_name(e.func)
        if dn is not None and "dist" not in env:
            if dn in COLLECTIVES:
                raise Unsupported(f"collective dist.{dn} in expression position at line {e.lineno}")
            if dn in DIST_SIG:
                return C("dist." + dn, *self.bind_args(DIST_SIG[dn], e, env))
            raise Unsupported(f"dist.{dn} at line {e.lineno}")
        if isinstance(e.func, ast.Name) and e.func.id not in env:
            tgt = self.w.resolve(self.mk, e.func.id)
            if tgt is not None:
                fn = self.w.mods[tgt[0]].funcs[tgt[1]]
                args = self.bind_args(self.local_sig(fn), e, env)
                if tgt in self.w.comm:
                    n = self.nres
                    self.nres += 1
                    self.pending.append(("call", n, tgt[1], args))
                    return ("r", n)
                if tgt[1] not in PURE_TARGETS[tgt[0]]:
                    v = self.inline(tgt, args)
                    if v is not None:
                        return v
                return C(tgt[1], *args)
        # anything else: positional arguments, then keywords by name
        args = [self.ev(a, env) for a in e.args]
        if any(isinstance(a, ast.Starred) for a in e.args) or any(k.arg is None for k in e.keywords):
            raise Unsupported("star arguments")
        kws = [C("kw", ("str", k.arg), self.ev(k.value, env)) for k in sorted(e.keywords, key=lambda k: k.arg)]
        if isinstance(e.func, ast.Name) and e.func.id not in env:
            return C(e.func.id, *args, *kws)
        d = _dotted(e.func)
        if d is not None and d.split(".")[0] in MODULE_ROOTS and d.split(".")[0] not in env:
            return C(d, *args, *kws)
        if isinstance(e.func, ast.Attribute):
            return C("." + e.func.attr + "()", self.ev(e.func.value, env), *args, *kws)
        raise Unsupported(f"call of {type(e.func).__name__} at line {e.lineno}")

    # ---------------------------------------------------------- statements
    def flush(self):
        out, self.pending = self.pending, []
        return out

    def target_term(self, tgt, env, nodes):
        """the container path a store goes to; promotes a fresh local container to a `loc`"""
        if isinstance(tgt, ast.Name):
            v = env.get(tgt.id)
            if v is None:
                raise Unsupported(f"store into unknown name {tgt.id}")
            if v[0] == "call" and v[1] in FRESH:
                k = self.nloc
                self.nloc += 1
                nodes.append(("eff", "new", [("loc", k), v]))
                env[tgt.id] = ("loc", k)
                return ("loc", k)
            return v
        if isinstance(tgt, ast.Subscript):
            return simplify(C("getitem", self.target_term(tgt.value, env, nodes), self.ev(tgt.slice, env)))
        if isinstance(tgt, ast.Call) and isinstance(tgt.func, ast.Attribute) and tgt.func.attr == "setdefault" and len(tgt.args) == 2:
            d = self.target_term(tgt.func.value, env, nodes)
            k, v = self.ev(tgt.args[0], env), self.ev(tgt.args[1], env)
            nodes.append(("eff", "ensure", [d, k, v]))
            return simplify(C("getitem", d, k))
        return self.ev(tgt, env)

    def builder(self, st: ast.For, env):
        """a loop that only builds local lists / dicts: {name: term} of the containers it extends, else None"""
        saved = (self.nres, self.nloc, self.depth, list(self.pending))
        try:
            out = self._builder(st, dict(env), top=True)
        except Unsupported:
            out = None
        if out is None:
            self.nres, self.nloc, self.depth, self.pending = saved
        return out

    def _builder(self, st: ast.For, env, top=False):
        if st.orelse:
            return None
        it = self.ev(st.iter, env)
        if self.pending:
            raise Unsupported("communication in a loop header")
        d0 = self.depth
        bk = ("b", self.depth)
        self.bind_target(st.target, bk, env)
        self.depth += 1
        items: dict[str, list] = {}
        fresh: dict[str, tuple] = {}           # containers created inside this body
        try:
            for s in st.body:
                if isinstance(s, ast.Assign) and len(s.targets) == 1 and isinstance(s.targets[0], ast.Name):
                    v = self.ev(s.value, env)
                    if self.pending:
                        self.pending = []
                        return None
                    env[s.targets[0].id] = v
                    continue
                if isinstance(s, ast.Assign) and len(s.targets) == 1 and isinstance(s.targets[0], ast.Subscript) \
                        and isinstance(s.targets[0].value, ast.Name):
                    nm = s.targets[0].value.id
                    cur = env.get(nm)
                    if cur is None or not (cur == C("{}") or is_call(cur, "dictof")):
                        return None
                    k, v = self.ev(s.targets[0].slice, env), self.ev(s.value, env)
                    if self.pending:
                        self.pending = []
                        return None
                    items.setdefault(nm, []).append(("kv", C("()", k, v)))
                    continue
                if isinstance(s, ast.Expr) and isinstance(s.value, ast.Call) and isinstance(s.value.func, ast.Attribute) \
                        and s.value.func.attr == "append" and isinstance(s.value.func.value, ast.Name) and len(s.value.args) == 1:
                    nm = s.value.func.value.id
                    cur = env.get(nm)
                    if cur is None or not (cur[0] == "call" and cur[1] in FRESH):
                        return None
                    v = self.ev(s.value.args[0], env)
                    if self.pending:
                        self.pending = []
                        return None
                    items.setdefault(nm, []).append(("el", v))
                    continue
                if isinstance(s, ast.For):
                    sub = self._builder(s, env)
                    if sub is None:
                        return None
                    for nm, t in sub.items():
                        # an inner loop filling a dict created in this body: the dict's value
                        if env.get(nm) == C("{}") and t[0] == "dictpart":
                            env[nm] = C("dictof", t[1])
                        else:
                            items.setdefault(nm, []).append(("sub", t))
                    continue
                return None
        finally:
            self.depth = d0
        out = {}
        for nm, its in items.items():
            kinds = {k for k, _ in its}
            if kinds == {"kv"} and len(its) == 1:
                out[nm] = ("dictpart", simplify(C("for", bk, it, its[0][1])))
            elif kinds <= {"el"}:
                out[nm] = simplify(C("flatfor", bk, it, C("[]", *[v for _, v in its])))
            elif kinds == {"sub"} and len(its) == 1 and its[0][1][0] != "dictpart":
                out[nm] = simplify(C("flatfor", bk, it, its[0][1]))
            else:
                return None
        return out

    def block(self, stmts, env, in_loop=False):
        """-> (nodes, terminated)"""
        nodes: list = []
        for i, st in enumerate(stmts):
            rest = stmts[i + 1:]
            if isinstance(st, ast.Expr) and isinstance(st.value, ast.Constant):
                continue                                     # docstring
            if isinstance(st, ast.Pass):
                continue
            if isinstance(st, ast.Return):
                v = NONE if st.value is None else self.ev(st.value, env)
                nodes += self.flush()
                nodes.append(("ret", v))
                return nodes, True
            if isinstance(st, ast.Continue):
                if not in_loop:
                    raise Unsupported("continue outside a loop")
                return nodes, True
            if isinstance(st, ast.Raise):
                exc = st.exc.func if isinstance(st.exc, ast.Call) else st.exc
                nodes.append(("raise", _dotted(exc) or "?"))
                return nodes, True
            if isinstance(st, ast.Assert):
                v = self.ev(st.test, env)
                nodes += self.flush()
                nodes.append(("eff", "assert", [v]))
                continue
            if isinstance(st, ast.AnnAssign):
                if st.value is None:
                    continue
                st = ast.Assign(targets=[st.target], value=st.value, lineno=st.lineno)
            if isinstance(st, ast.Assign):
                if len(st.targets) != 1:
                    raise Unsupported("chained assignment")
                tgt = st.targets[0]
                v = self.ev(st.value, env)
                nodes += self.flush()
                if isinstance(tgt, ast.Name) and tgt.id in self.mutated and v[0] == "call" and v[1] in FRESH:
                    k = self.nloc
                    self.nloc += 1
                    nodes.append(("eff", "new", [("loc", k), v]))
                    env[tgt.id] = ("loc", k)
                elif isinstance(tgt, (ast.Name, ast.Tuple, ast.List)):
                    self.bind_target(tgt, v, env)
                else:
                    t = self.target_term(tgt, env, nodes)
                    nodes.append(("eff", "store", [t, v]))
                continue
            if isinstance(st, ast.AugAssign):
                raise Unsupported(f"augmented assignment at line {st.lineno}")
            if isinstance(st, ast.Expr):
                c = st.value
                dn = _dist_name(c.func) if isinstance(c, ast.Call) else None
                if dn in COLLECTIVES and "dist" not in env:
                    args = self.bind_args(DIST_SIG[dn], c, env)
                    nodes += self.flush()
                    pi, oi, ri, gi = COLL_ROLES[dn]
                    n = self.nres
                    self.nres += 1
                    nodes.append(("coll", n, COLLECTIVES[dn], args[pi], args[gi], NONE if ri is None else args[ri], args[oi]))
                    # the out list now holds what was received
                    oarg = c.args[oi] if oi < len(c.args) else next((k.value for k in c.keywords if k.arg == DIST_SIG[dn][oi][0]), None)
                    if isinstance(oarg, ast.Name):
                        env[oarg.id] = ("r", n)
                    elif oarg is not None and not (isinstance(oarg, ast.Constant) and oarg.value is None):
                        raise Unsupported(f"receive buffer of dist.{dn} is not a variable (line {c.lineno})")
                    continue
                if isinstance(c, ast.Call) and isinstance(c.func, ast.Attribute) and c.func.attr == "setdefault" and len(c.args) == 2:
                    d = self.target_term(c.func.value, env, nodes)
                    nodes.append(("eff", "ensure", [d, self.ev(c.args[0], env), self.ev(c.args[1], env)]))
                    continue
                if isinstance(c, ast.Call) and isinstance(c.func, ast.Attribute) and c.func.attr == "append" and len(c.args) == 1:
                    v = self.ev(c.args[0], env)
                    nodes += self.flush()
                    t = self.target_term(c.func.value, env, nodes)
                    nodes.append(("eff", "append", [t, v]))
                    continue
                v = self.ev(c, env)
                nodes += self.flush()
                if not (v[0] == "r"):
                    if is_call(v) and v[1] in ("log.warning", "_logger.warning", "log.info", "_logger.info", "log.debug"):
                        continue                              # logging is no part of the protocol
                    nodes.append(("eff", "do", [v]))
                continue
            if isinstance(st, ast.If):
                c = self.ev(st.test, env)
                nodes += self.flush()
                ea, eb = dict(env), dict(env)
                d0 = self.nloc
                na, ta = self.block(st.body, ea, in_loop)
                nb, tb = self.block(st.orelse, eb, in_loop)
                if ta and not tb:
                    nr, tr = self.block(rest, eb, in_loop)
                    nodes.append(self.mk_ite(c, na, nb + nr))
                    env.clear(); env.update(eb)
                    return nodes, tr and ta
                if tb and not ta:
                    nr, tr = self.block(rest, ea, in_loop)
                    nodes.append(self.mk_ite(c, na + nr, nb))
                    env.clear(); env.update(ea)
                    return nodes, tr and tb
                if ta and tb:
                    nodes.append(self.mk_ite(c, na, nb))
                    return nodes, True
                if na or nb:
                    nodes.append(self.mk_ite(c, na, nb))
                for k in set(ea) | set(eb):
                    va, vb = ea.get(k), eb.get(k)
                    if va == vb:
                        env[k] = va
                    elif va is None or vb is None:
                        env[k] = simplify(C("ite", c, va or ("fn", "<unbound>"), vb or ("fn", "<unbound>")))
                    else:
                        env[k] = simplify(C("ite", c, va, vb))
                continue
            if isinstance(st, ast.For):
                b = self.builder(st, env)
                if b is not None:
                    for nm, t in b.items():
                        cur = env[nm]
                        if t[0] == "dictpart":
                            t = C("dictof", t[1])
                            env[nm] = t if cur == C("{}") else C("concat", cur, t)
                        else:
                            env[nm] = t if cur == C("[]") else simplify(C("concat", cur, t))
                    continue
                if st.orelse:
                    raise Unsupported("for-else")
                it = self.ev(st.iter, env)
                nodes += self.flush()
                le = dict(env)
                k = self.depth
                self.bind_target(st.target, ("b", k), le)
                self.depth += 1
                body, _t = self.block(st.body, le, in_loop=True)
                self.depth -= 1
                nodes.append(("for", k, it, body))
                # names the body (re)binds are unknown afterwards; promoted containers stay
                for nm, v in le.items():
                    if env.get(nm) != v:
                        if v[0] == "loc" and nm in env and env[nm][0] != "loc" and not _assigned_in(st, nm):
                            env[nm] = v
                        elif _assigned_in(st, nm):
                            env[nm] = C("afterLoop", ("str", nm))
                continue
            raise Unsupported(f"statement {type(st).__name__} at line {st.lineno}")
        return nodes, False

    def mk_ite(self, c, a, b):
        # `if c: return A` / `return B`  ==  `return A if c else B`
        if len(a) == 1 and len(b) == 1 and a[0][0] == "ret" and b[0][0] == "ret":
            return ("ret", simplify(C("ite", c, a[0][1], b[0][1])))
        return ("ite", c, a, b)

    def run(self):
        env = {p: ("v", p) for p in self.params}
        nodes, _ = self.block(self.fn.body, env)
        return normalise(nodes)


def _assigned_in(st, nm):
    for n in ast.walk(st):
        if isinstance(n, ast.Name) and n.id == nm and isinstance(n.ctx, ast.Store):
            return True
    return False


def nodes_terms(nodes):
    out = []
    for n in nodes:
        k = n[0]
        if k == "ret":
            out.append(n[1])
        elif k == "eff":
            out += n[2]
        elif k == "call":
            out += n[3]
        elif k == "coll":
            out += [n[3], n[4], n[5], n[6]]
        elif k == "ite":
            out += [n[1]] + nodes_terms(n[2]) + nodes_terms(n[3])
        elif k == "for":
            out += [n[2]] + nodes_terms(n[3])
    return out


def nodes_rebuild(nodes, it):
    """the same nodes with their terms taken from the iterator `it` (order of `nodes_terms`)"""
    out = []
    for n in nodes:
        k = n[0]
        if k == "ret":
            out.append(("ret", next(it)))
        elif k == "eff":
            out.append(("eff", n[1], [next(it) for _ in n[2]]))
        elif k == "call":
            out.append(("call", n[1], n[2], [next(it) for _ in n[3]]))
        elif k == "coll":
            out.append(("coll", n[1], n[2], next(it), next(it), next(it), next(it)))
        elif k == "ite":
            c = next(it)
            a = nodes_rebuild(n[2], it)
            out.append(("ite", c, a, nodes_rebuild(n[3], it)))
        elif k == "for":
            i = next(it)
            out.append(("for", n[1], i, nodes_rebuild(n[3], it)))
        else:
            out.append(n)
    return out


def _writes(nodes, pred):
    """is a container satisfying `pred` written (store / append / ensure / new) in these nodes"""
    for n in nodes:
        if n[0] == "eff" and n[1] in ("store", "append", "ensure", "new") and pred(n[2][0]):
            return True
        if n[0] == "ite" and (_writes(n[2], pred) or _writes(n[3], pred)):
            return True
        if n[0] == "for" and _writes(n[3], pred):
            return True
    return False


def _root(t):
    while is_call(t, "getitem", 2):
        t = t[2][0]
    return t


def norm_for(n):
    """the loop-header normal form (`reduce_loop`) of a statement loop"""
    _, k, it, body = n
    bk = ("b", k)
    if is_call(it, "range", 1) and is_call(it[2][0], "len", 1):
        S = it[2][0][2][0]
        elem = C("getitem", S, bk)
        # `S[i] = v` / `S.append(v)` in the body: the index loop is not the element loop
        if _writes(body, lambda t: t == elem or t == S):
            return n
    terms = nodes_terms(body)
    core, _c = peel_filtered(it)
    if is_call(core, "for", 3):
        # `xs = [e(j) for j in R]; for x in xs: body` evaluates every e(j) BEFORE the body runs: fused with the loop only
        # when the body cannot change what e reads (no collective / communicating call, nothing e mentions is written)
        roots = []
        _writes(body, lambda t: roots.append(_root(t)) is not None and False)
        if count_nodes(body, "coll") or count_nodes(body, "call") or any(mentions(core[2][2], lambda y, r=r: y == r) for r in roots):
            return n
    it2, terms2, _pre = reduce_loop(bk, it, terms, term_level=False)
    if it2 == it:
        return n
    return ("for", k, it2, nodes_rebuild(body, iter([simplify(t) for t in terms2])))


def normalise(nodes, tail=True):
    """statement-level normal forms:
       * `ensure`: `if k not in d(.keys()): d[k] = v` is `d.setdefault(k, v)`;
       * the guard of an if/else is kept positive (`if not c: A else: B` == `if c: B else: A`), so a guard clause
         `if not c: return` + rest is the same as `if c: rest`;
       * in tail position (nothing of the function follows) `return None` is falling off the end, and
         `if c: return A` is `return A if c else None`;
       * loop headers (`norm_for`); empty branches dropped."""
    out = []
    for i, n in enumerate(nodes):
        last = tail and i == len(nodes) - 1
        if n[0] == "ite":
            a, b = normalise(n[2], last), normalise(n[3], last)
            c = n[1]
            p, neg = positive(c)
            if neg:
                c, a, b = p, b, a
            if not a and len(b) == 1 and b[0][0] == "eff" and b[0][1] == "store" and is_call(c, "in", 2):
                k, d = c[2]
                if is_call(d, ".keys()", 1):
                    d = d[2][0]
                tgt, v = b[0][2]
                if tgt == C("getitem", d, k):
                    out.append(("eff", "ensure", [d, k, v]))
                    continue
            if not a and not b:
                continue
            if last and ((not a and len(b) == 1 and b[0][0] == "ret") or (not b and len(a) == 1 and a[0][0] == "ret")):
                out.append(("ret", simplify(C("ite", c, a[0][1] if a else NONE, b[0][1] if b else NONE))))
                continue
            out.append(("ite", c, a, b))
        elif n[0] == "for":
            out.append(norm_for(("for", n[1], n[2], normalise(n[3], False))))
        elif n[0] == "ret" and last and n[1] == NONE:
            continue
        else:
            out.append(n)
    return out


# ------------------------------------------------------------------ extraction

def extract():
    """[{module, name, params, body | untranslated}] for every target function, in a fixed order"""
    w = World()
    rows = []
    for mk in ("synclib", "toolkit"):
        for name in w.targets(mk):
            row = {"module": mk, "name": name, "params": [a.arg for a in w.mods[mk].funcs[name].args.args],
                   "body": None, "untranslated": None}
            try:
                row["body"] = Walk(w, mk, name).run()
            except Unsupported as e:
                row["untranslated"] = str(e)
            except RecursionError:
                row["untranslated"] = "recursion"
            rows.append(row)
    return rows


# ------------------------------------------------------------------ Lean text

def q(s):
    return '"' + s.replace("\\", "\\\\").replace('"', '\\"') + '"'


def lean_term(t) -> str:
    k = t[0]
    if k == "v":
        return f"(.v {q(t[1])})"
    if k == "b":
        return f"(.b {t[1]})"
    if k == "r":
        return f"(.r {t[1]})"
    if k == "loc":
        return f"(.loc {t[1]})"
    if k == "none":
        return ".none"
    if k == "tt":
        return ".tt"
    if k == "ff":
        return ".ff"
    if k == "int":
        return f"(.int ({t[1]}))" if t[1] < 0 else f"(.int {t[1]})"
    if k == "str":
        return f"(.str {q(t[1])})"
    if k == "fn":
        return f"(.fn {q(t[1])})"
    if not t[2]:
        return f"(c0 {q(t[1])})"
    return f"(c {q(t[1])} [{', '.join(lean_term(a) for a in t[2])}])"


def lean_nodes(nodes, ind) -> str:
    pad = " " * ind
    if not nodes:
        return ".skip"
    if len(nodes) == 1:
        return lean_node(nodes[0], ind)
    return "(seqs [\n" + ",\n".join(pad + "  " + lean_node(n, ind + 2) for n in nodes) + "])"


def lean_node(n, ind) -> str:
    pad = " " * ind
    k = n[0]
    if k == "ret":
        return f"(.ret {lean_term(n[1])})"
    if k == "raise":
        return f"(.raise {q(n[1])})"
    if k == "eff":
        return f"(.eff {q(n[1])} [{', '.join(lean_term(a) for a in n[2])}])"
    if k == "call":
        return f"(.call {n[1]} {q(n[2])} [{', '.join(lean_term(a) for a in n[3])}])"
    if k == "coll":
        return (f"(.coll {n[1]} .{n[2]}\n{pad}    (payload := {lean_term(n[3])})\n{pad}    (group := {lean_term(n[4])})\n"
                f"{pad}    (root := {lean_term(n[5])})\n{pad}    (out := {lean_term(n[6])}))")
    if k == "ite":
        return (f"(.ite {lean_term(n[1])}\n{pad}    {lean_nodes(n[2], ind + 4)}\n{pad}    {lean_nodes(n[3], ind + 4)})")
    if k == "for":
        return f"(.forEach {n[1]} {lean_term(n[2])}\n{pad}    {lean_nodes(n[3], ind + 4)})"
    raise KeyError(k)


def ident(row):
    return "sk_" + row["name"].lstrip("_")


def lean_text(rows) -> str:
    out = ["/- GENERATED by harness/translators/syncskel.py from /repo's working tree — do not edit. -/",
           "import TE.Model.SyncSkel", "namespace TE.Gen", "open TE.SyncSkel", ""]
    for r in rows:
        if r["untranslated"] is None:
            out += [f"def {ident(r)} : FnSkel :=",
                    f"  ⟨{q(r['module'])}, {q(r['name'])}, [{', '.join(q(p) for p in r['params'])}], none,",
                    "   " + lean_nodes(r["body"], 3) + "⟩", ""]
        else:
            out += [f"def {ident(r)} : FnSkel :=",
                    f"  ⟨{q(r['module'])}, {q(r['name'])}, [{', '.join(q(p) for p in r['params'])}], some {q(r['untranslated'])}, .skip⟩", ""]
    out += ["def syncSkel : List FnSkel := [" + ", ".join(ident(r) for r in rows) + "]", "", "end TE.Gen", ""]
    return "\n".join(out)


def generate(rep: Report | None = None):
    rows = extract()
    p = LEAN / "TE" / "Gen" / "SyncSkel.lean"
    new = lean_text(rows)
    if not p.exists() or p.read_text() != new:
        tmp = p.with_suffix(f".tmp{__import__('os').getpid()}")
        tmp.write_text(new)
        tmp.replace(p)
    if rep is not None:
        un = [f"{r['module']}.{r['name']} ({r['untranslated']})" for r in rows if r["untranslated"]]
        ncoll = sum(count_nodes(r["body"], "coll") for r in rows if r["body"] is not None)
        rep.notes.append(f"collective-skeleton translator: {len(rows) - len(un)} of {len(rows)} functions of synclib / toolkit in the grammar "
                         f"({ncoll} collective sites); outside: " + ("; ".join(un) or "none"))
    return rows


def count_nodes(nodes, kind):
    n = 0
    for x in nodes:
        if x[0] == kind:
            n += 1
        if x[0] == "ite":
            n += count_nodes(x[2], kind) + count_nodes(x[3], kind)
        if x[0] == "for":
            n += count_nodes(x[3], kind)
    return n


def show_nodes(nodes, ind=0):
    pad = "  " * ind
    for n in nodes:
        k = n[0]
        if k == "ret":
            print(f"{pad}ret {tshow(n[1])}")
        elif k == "raise":
            print(f"{pad}raise {n[1]}")
        elif k == "eff":
            print(f"{pad}eff {n[1]} {', '.join(tshow(a) for a in n[2])}")
        elif k == "call":
            print(f"{pad}#{n[1]} = call {n[2]}({', '.join(tshow(a) for a in n[3])})")
        elif k == "coll":
            print(f"{pad}#{n[1]} = {n[2]} payload={tshow(n[3])} group={tshow(n[4])} root={tshow(n[5])} out={tshow(n[6])}")
        elif k == "ite":
            print(f"{pad}if {tshow(n[1])}:")
            show_nodes(n[2], ind + 1)
            if n[3]:
                print(f"{pad}else:")
                show_nodes(n[3], ind + 1)
        elif k == "for":
            print(f"{pad}for ${n[1]} in {tshow(n[2])}:")
            show_nodes(n[3], ind + 1)


if __name__ == "__main__":
    for r in extract():
        print(("UNTRANSLATED " + r["untranslated"]) if r["untranslated"] else "OK", r["module"], r["name"], r["params"])
        if r["body"] is not None and "-v" in sys.argv:
            show_nodes(r["body"], 1)
    if "--lean" in sys.argv:
        print(lean_text(extract()))


# ==================================================================== the skeleton as a program (dynamic cross-check)

class _Return(Exception):
    def __init__(self, v):
        self.v = v


class Interp:
    """runs the EXTRACTED skeleton — not the source — on real Python values: terms are evaluated with the real torch /
    builtins, `coll` nodes call the real `torch.distributed` entry points (inside a fakedist world: the transport records
    them), `call` nodes run the callee's skeleton.  What it issues and returns is what the skeleton says the code does."""

    def __init__(self, rows):
        import importlib
        self.rows = {r["name"]: r for r in rows if r["untranslated"] is None}
        self.mods = {"synclib": importlib.import_module("torcheval.metrics.synclib"),
                     "toolkit": importlib.import_module("torcheval.metrics.toolkit")}

    # -------------------------------------------------------------- names
    def glob(self, mk, dotted):
        import builtins, copy, torch
        import torch.distributed as dist
        from torch.nn import functional as F
        parts = dotted.split(".")
        ns = self.mods[mk].__dict__
        base = {"torch": torch, "dist": dist, "F": F, "deepcopy": copy.deepcopy}
        if parts[0] in ns:
            o = ns[parts[0]]
        elif parts[0] in base:
            o = base[parts[0]]
        elif hasattr(builtins, parts[0]):
            o = getattr(builtins, parts[0])
        else:
            raise KeyError(f"skeleton interpreter: unknown global {dotted}")
        for p in parts[1:]:
            o = getattr(o, p)
        return o

    # -------------------------------------------------------------- terms
    def ev(self, t, fr):
        import torch.distributed as dist
        k = t[0]
        if k == "v":
            return fr["args"][t[1]]
        if k == "b":
            return fr["b"][t[1]]
        if k == "r":
            return fr["r"][t[1]]
        if k == "loc":
            return fr["loc"][t[1]]
        if k == "none":
            return None
        if k == "tt":
            return True
        if k == "ff":
            return False
        if k in ("int", "str"):
            return t[1]
        if k == "fn":
            return self.glob(fr["mk"], t[1])
        f, a = t[1], t[2]
        E = lambda x: self.ev(x, fr)       # noqa: E731
        if f == "ite":
            return E(a[1]) if E(a[0]) else E(a[2])
        if f == "or":
            return E(a[0]) or E(a[1])
        if f == "and":
            return E(a[0]) and E(a[1])
        if f in ("for", "flatfor", "filtered"):
            return self.ev_for(t, fr)
        if f == "dictof":
            return dict(E(a[0]))
        if f == "recv":
            g, r = E(a[0]), E(a[1])
            return r is None or dist.get_rank(group=g) == r
        if f == "toGlobal":
            g, r = E(a[0]), E(a[1])
            return r if g is None else dist.get_global_rank(g, r)
        if f == "notInit":
            return not dist.is_available() or not dist.is_initialized()
        if f == "wsOr1":
            return 1 if (not dist.is_available() or not dist.is_initialized()) else dist.get_world_size(group=E(a[0]))
        if f == "meOr0":
            return 0 if (not dist.is_available() or not dist.is_initialized()) else dist.get_rank(group=E(a[0]))
        if f == "groupOrWorld":
            g = E(a[0])
            return g if g else dist.group.WORLD
        pos = [E(x) for x in a if not is_call(x, "kw", 2)]
        kw = {x[2][0][1]: E(x[2][1]) for x in a if is_call(x, "kw", 2)}
        OPS = {"is": lambda x, y: x is y, "is_not": lambda x, y: x is not y, "eq": lambda x, y: x == y, "ne": lambda x, y: x != y,
               "lt": lambda x, y: x < y, "le": lambda x, y: x <= y, "gt": lambda x, y: x > y, "ge": lambda x, y: x >= y,
               "in": lambda x, y: x in y, "not_in": lambda x, y: x not in y, "not": lambda x: not x, "neg": lambda x: -x,
               "add": lambda x, y: x + y, "sub": lambda x, y: x - y, "mul": lambda x, y: x * y, "getitem": lambda x, y: x[y],
               "slice": lambda *xs: slice(*xs), "()": lambda *xs: tuple(xs), "[]": lambda *xs: list(xs),
               "{}": lambda *xs: dict(xs), "repeat": lambda x, n: [x] * n, "concat": lambda x, y: x + y}
        if f in OPS:
            return OPS[f](*pos)
        if f.startswith(".") and f.endswith("()"):
            return getattr(pos[0], f[1:-2])(*pos[1:], **kw)
        if f.startswith("."):
            return getattr(pos[0], f[1:])
        if f.startswith("dist.") and f[5:] in DIST_SIG:
            names = [p for p, _ in DIST_SIG[f[5:]]]
            fn = getattr(dist, f[5:])
            if f[5:] == "get_global_rank":
                return fn(*pos)
            return fn(**dict(zip(names, pos)))
        if f in self.rows:                      # a pure target: its skeleton, not the source
            return self.call(f, pos)
        return self.glob(fr["mk"], f)(*pos, **kw)

    def ev_for(self, t, fr):
        core, conds = peel_filtered(t)
        f = core[1]
        bk, it, body = core[2]
        k = bk[1]
        out = []
        saved = fr["b"].get(k)
        for x in self.ev(it, fr):
            fr["b"][k] = x
            if not all(self.ev(c, fr) for c in conds):
                continue
            v = self.ev(body, fr)
            fr["b"][k] = x                 # a nested comprehension of the same index restores, but be explicit
            if f == "flatfor":
                out.extend(v)
            else:
                out.append(v)
        fr["b"][k] = saved
        return out

    # -------------------------------------------------------------- skeletons
    def call(self, name, args):
        row = self.rows[name]
        fr = {"mk": row["module"], "args": dict(zip(row["params"], args)), "b": {}, "r": {}, "loc": {}}
        try:
            self.run(row["body"], fr)
        except _Return as r:
            return r.v
        return None

    def run(self, nodes, fr):
        import torch.distributed as dist
        for n in nodes:
            k = n[0]
            if k == "ret":
                raise _Return(self.ev(n[1], fr))
            if k == "raise":
                raise self.glob(fr["mk"], n[1])("raised by the skeleton")
            if k == "ite":
                self.run(n[2] if self.ev(n[1], fr) else n[3], fr)
            elif k == "for":
                for x in self.ev(n[2], fr):
                    fr["b"][n[1]] = x
                    self.run(n[3], fr)
            elif k == "call":
                fr["r"][n[1]] = self.call(n[2], [self.ev(a, fr) for a in n[3]])
            elif k == "coll":
                _, num, kind, payload, group, root, out = n
                o = self.ev(out, fr)
                g = self.ev(group, fr)
                if kind == "allGather":
                    dist.all_gather(o, self.ev(payload, fr), group=g)
                elif kind == "gather":
                    dist.gather(self.ev(payload, fr), o, dst=self.ev(root, fr), group=g)
                elif kind == "allGatherObj":
                    dist.all_gather_object(o, self.ev(payload, fr), group=g)
                elif kind == "gatherObj":
                    dist.gather_object(self.ev(payload, fr), o, dst=self.ev(root, fr), group=g)
                else:
                    dist.broadcast_object_list(o, src=self.ev(root, fr), group=g)
                fr["r"][num] = o
            elif k == "eff":
                kind, a = n[1], n[2]
                if kind == "new":
                    fr["loc"][a[0][1]] = self.ev(a[1], fr)
                elif kind == "store":
                    tgt = a[0]
                    if not is_call(tgt, "getitem", 2):
                        raise KeyError("store target")
                    self.ev(tgt[2][0], fr)[self.ev(tgt[2][1], fr)] = self.ev(a[1], fr)
                elif kind == "append":
                    self.ev(a[0], fr).append(self.ev(a[1], fr))
                elif kind == "ensure":
                    self.ev(a[0], fr).setdefault(self.ev(a[1], fr), self.ev(a[2], fr))
                elif kind == "assert":
                    assert self.ev(a[0], fr)
                elif kind == "do":
                    self.ev(a[0], fr)
                else:
                    raise KeyError(kind)


def traces_of(world, group):
    return [[(k, d, tuple(s) if s is not None else None, r, tuple(m)) for (k, d, s, r, m) in world.trace[g]] for g in group]
