"""(T) window-plumbing translator: the SHAPE of the ring-buffer code of the windowed classes
(torcheval/metrics/window/*.py), read off the source on every run.

A symbolic executor (a subclass of the one in plumbing.py: plain cursor attributes are tracked like
states, `buf[:, i] = x` / `buf[:, a:b] = y` become `setitem` terms, every state write and every call
that can raise is logged in program order, the `for metric in metrics` loops of merge_state are
executed once over loop-carried symbols) runs `__init__`, `update`, `compute`, `reset`, `merge_state`
and normalises the result into one `WinRow` per class:

  init    which states are registered, with which shape in terms of `num_tasks` / `max_num_updates`,
          under which guard; the cursor's initial value
  update  per windowed buffer: the column it is written at (an index expression over cursor / total /
          cap), which component of the functional helper's result tuple it receives; per lifetime state:
          `+=` of which component under which guard; the new cursor and the new total as index
          expressions; whether every call that can raise precedes every write on every path
  compute the emptiness test, when the whole buffer is summed and otherwise up to which column, whether
          the windowed and the lifetime value are the SAME formula over corresponding components
  reset   `super().reset()` and the cursor's new value
  merge   size of the new buffers, the slices copied from the target and from every source, the running
          index, the totals, the lifetime sums, the final cursor, whether `max_num_updates` is changed

lean/TE/Gen/WinPlumbing.lean holds the rows; TE/Model/WinPlumb.lean gives a row its meaning as a state
machine, TE/Props/C13_Plumb.lean proves that every well-formed row IS the ring buffer of
TE/Model/Window.lean and `decide`s that every generated row is well-formed.  Anything outside the
grammar gives an `untranslated` row with the reason (pinned by `C13_plumb_coverage`).
`crosscheck` confirms the extracted facts on instrumented real instances.

Spellings the executor sees through (the row is the same as for the plain spelling): calls of the class's own
methods (inlined at the call site, also inside the merge loops), single-assignment locals, `x = (x + 1) % n`,
slice OBJECTS (`w = slice(a, b)`; `buf[:, w]`; a local holding `slice(None), i`), `getattr` / `setattr` with
names that are constants, string concatenations of constants, or targets of loops over literal / module-level
constant tuples (also `zip` / `enumerate` of them), `t = getattr(self, n); t += v; setattr(self, n, t)`.
`setattr` names are resolved statically first (`setattr_names`) to know the plain attributes; the assigned
fields of a merge loop are found by a trial run of its body (so computed names count)."""
from __future__ import annotations
import ast, copy, inspect, sys, textwrap
from ..common import LEAN, Report
from ..registry import BY_NAME, new_metric, fresh_cfg
from .plumbing import Exec, Env, Unsupported, st, mentions, own_state, show as _show, q

UPDATE_WINDOWED = ["WindowedClickThroughRate", "WindowedWeightedCalibration", "WindowedBinaryNormalizedEntropy",
                   "WindowedMeanSquaredError"]
SAMPLE_WINDOWED = ["WindowedBinaryAUROC"]
CLASSES = UPDATE_WINDOWED + SAMPLE_WINDOWED

# functions that construct / combine tensors and cannot reject an input of update(): calls to anything else
# (the functional helpers, input checks) are "calls that can raise" for the ordering fact
PURE_PREFIX = ("torch.",)
PURE_NAMES = {"min", "max", "len", "int", "float", "range", "isinstance", "getattr", "tuple", "list", "super",
              "zip", "enumerate", "reversed", "slice"}


def show(t):
    if isinstance(t, tuple) and t and t[0] == "setitem":
        return f"{show(t[1])}[{show(t[2])}]:={show(t[3])}"
    if isinstance(t, tuple) and t and t[0] == "sl":
        return "(" + ",".join("None" if x is None else show(x) for x in t[1:]) + ")"
    if isinstance(t, tuple) and t and t[0] == "slice":
        return ":".join("" if x is None else show(x) for x in t[1:])
    if isinstance(t, tuple) and t and t[0] == "lv":
        return f"<{t[1]}>"
    if isinstance(t, tuple) and t and t[0] == "after":
        return f"<{t[2]} after loop {t[1]}>"
    if isinstance(t, tuple) and t and t[0] == "idx":
        return f"{show(t[1])}[{show(t[2])}]"
    return _show(t)


class WExec(Exec):
    """plumbing.Exec + plain attributes tracked as states, subscript assignment, structured slices,
    an event log (env.checks) of writes and raising calls, symbolic `for metric in metrics` loops."""

    def __init__(self, cls, states, list_states, plain, mode):
        super().__init__(cls, set(states) | set(plain), list_states)
        self.registered = set(states)
        self.plain = set(plain)
        self.mode = mode                  # "init" | "update" | "compute" | "reset" | "merge"
        self.loops = []                   # merge: one record per `for metric in metrics` loop
        self.cfg_writes = {}              # init: plain attribute -> term

    # ---- helpers
    def self_field(self, node, env):
        """`self.X` / `getattr(self, '<X>')` -> X (a tracked field) | None"""
        if isinstance(node, ast.Attribute) and isinstance(node.value, ast.Name) and node.value.id == "self":
            return node.attr if node.attr in self.states else None
        if isinstance(node, ast.Call) and isinstance(node.func, ast.Name) and node.func.id == "getattr" and len(node.args) == 2 \
                and isinstance(node.args[0], ast.Name) and node.args[0].id == "self":
            n = self.ev(node.args[1], env)
            if n[0] == "const" and isinstance(eval(n[1]), str) and eval(n[1]) in self.states:
                return eval(n[1])
        return None

    def log(self, env, *ev):
        env.checks.append(("ev",) + ev)

    def ev_slice(self, s, env):
        def part(x):
            return None if x is None else self.ev(x, env)
        if isinstance(s, ast.Slice):
            if s.step is not None:
                raise Unsupported("slice with a step")
            return ("slice", part(s.lower), part(s.upper))
        if isinstance(s, ast.Tuple):
            return ("sl",) + tuple(self.ev_slice(x, env) for x in s.elts)
        v = self.ev(s, env)
        if isinstance(v, tuple) and v and v[0] == "tuple" and any(isinstance(x, tuple) and x[:1] == ("slice",) for x in v[1:]):
            return ("sl",) + v[1:]          # `column = slice(None), self.cursor`; `buf[column]`
        return v

    # ---- expressions
    @staticmethod
    def const_term(v):
        """a python constant / (nested) tuple or list of constants -> term | None"""
        if isinstance(v, (str, int, float, bool, type(None))):
            return ("const", repr(v))
        if isinstance(v, (tuple, list)):
            xs = [WExec.const_term(x) for x in v]
            if all(x is not None for x in xs):
                return ("tuple",) + tuple(xs)
        return None

    def ev(self, e, env: Env):
        if isinstance(e, ast.Name) and e.id not in env.locals and e.id in self.globs:
            # module-level constant tables (`_STATE_NAMES = ("a", "b")`, `_PAIRS = (("a", 0), ("b", 1))`) are the tuples they hold
            t = self.const_term(self.globs[e.id])
            if t is not None:
                return t
        if isinstance(e, ast.Subscript):
            base = self.ev(e.value, env)
            sl = self.ev_slice(e.slice, env)
            if base[0] in ("tuple", "list") and isinstance(sl, tuple) and sl[0] == "const" and isinstance(eval(sl[1]), int):
                return base[1 + eval(sl[1])]
            if base[0] == "call" and isinstance(sl, tuple) and sl[0] == "const" and isinstance(eval(sl[1]), int):
                return ("out", base, eval(sl[1]))
            return ("idx", base, sl)
        if isinstance(e, ast.BinOp) and isinstance(e.op, (ast.Sub, ast.Mod)):
            a, b = self.ev(e.left, env), self.ev(e.right, env)
            return ("sub" if isinstance(e.op, ast.Sub) else "mod", a, b)
        if isinstance(e, ast.BinOp) and isinstance(e.op, ast.Add):
            a, b = self.ev(e.left, env), self.ev(e.right, env)
            if a[0] == "const" and b[0] == "const" and isinstance(eval(a[1]), str) and isinstance(eval(b[1]), str):
                return ("const", repr(eval(a[1]) + eval(b[1])))       # "windowed_" + name
            return ("add", a, b)
        return super().ev(e, env)

    def call(self, e: ast.Call, env: Env):
        f = e.func
        # super().reset() / super().__init__(...)
        if isinstance(f, ast.Attribute) and isinstance(f.value, ast.Call) and isinstance(f.value.func, ast.Name) \
                and f.value.func.id == "super" and not f.value.args:
            self.log(env, "super", f.attr)
            return ("const", "None")
        if isinstance(f, ast.Attribute) and isinstance(f.value, ast.Name) and f.value.id == "self" and f.attr == "_add_state":
            args = [self.ev(a, env) for a in e.args]
            if len(args) != 2 or args[0][0] != "const" or e.keywords:
                raise Unsupported("_add_state with a computed name")
            self.log(env, "add_state", eval(args[0][1]), args[1], tuple(env.conds))
            return ("const", "None")
        if isinstance(f, ast.Attribute) and f.attr == "copy_" and self.mode == "supdate" and len(e.args) == 1 and not e.keywords:
            field = self.self_field(f.value, env)
            if field is not None:        # `self.buf.copy_(x)`: the whole buffer is overwritten (x must have the buffer's shape)
                env.state[field] = ("copy", self.ev(e.args[0], env))
                self.log(env, "write", field)
                return ("const", "None")
        if isinstance(f, ast.Attribute) and f.attr.endswith("_") and not f.attr.startswith("_"):
            recv = self.ev(f.value, env)
            if mentions(recv, lambda t: isinstance(t, tuple) and len(t) == 3 and t[0] == "st" and t[1] == "self") \
                    or mentions(recv, lambda t: isinstance(t, tuple) and t[:1] in (("lv",), ("after",))):
                raise Unsupported(f"in-place tensor method .{f.attr}() on a state")
        if any(k.arg == "out" for k in e.keywords):
            raise Unsupported("out= argument")
        return super().call(e, env)

    def fcall(self, name, e, env):
        if name == "slice" and "slice" not in env.locals and not e.keywords and 1 <= len(e.args) <= 3 \
                and not any(isinstance(a, ast.Starred) for a in e.args):
            # a slice OBJECT (`filled = slice(None, self.next_inserted)`; `buf[:, filled]`) is the slice it denotes
            parts = [self.ev(a, env) for a in e.args]
            parts = [None if p_ == ("const", "None") else p_ for p_ in parts]
            if len(parts) == 3 and parts[2] is not None:
                raise Unsupported("slice with a step")
            lo, hi = (None, parts[0]) if len(parts) == 1 else (parts[0], parts[1])
            return ("slice", lo, hi)
        r = super().fcall(name, e, env)
        if r[0] == "call" and not r[1].startswith(PURE_PREFIX) and r[1] not in PURE_NAMES:
            self.log(env, "call", r[1])
        return r

    # ---- statements
    def assign(self, target, val, env, val_ast=None):
        if isinstance(target, ast.Attribute) and isinstance(target.value, ast.Name) and target.value.id == "self" \
                and target.attr not in self.states:
            if self.mode == "init":
                self.cfg_writes.setdefault(target.attr, []).append((val, tuple(env.conds)))
                return
            raise Unsupported(f"writes plain attribute self.{target.attr}")
        if isinstance(target, ast.Subscript):
            field = self.self_field(target.value, env)
            if field is None:
                raise Unsupported("subscript assignment to something that is not a state of self: " + ast.unparse(target)[:60])
            sl = self.ev_slice(target.slice, env)
            env.state[field] = ("setitem", env.state[field], sl, val)
            self.log(env, "write", field)
            return
        if isinstance(target, ast.Call):
            field = self.self_field(target, env)
            if field is not None:
                env.state[field] = val
                self.log(env, "write", field)
                return
        if isinstance(target, ast.Attribute) and isinstance(target.value, ast.Name) and target.value.id == "self":
            self.log(env, "write", target.attr)
        return super().assign(target, val, env, val_ast)

    def stmt(self, s, env: Env):
        if isinstance(s, ast.AugAssign):
            cur = self.ev(s.target, env)
            v = self.ev(s.value, env)
            if isinstance(s.op, ast.Add):
                new = ("add", cur, v)
            elif isinstance(s.op, ast.Mod):
                new = ("mod", cur, v)
            elif isinstance(s.op, ast.Sub):
                new = ("sub", cur, v)
            else:
                new = ("bin", type(s.op).__name__, cur, v)
            self.assign(s.target, new, env)
            return [(env, None)]
        if isinstance(s, ast.For):
            it = self.ev(s.iter, env)
            if it[0] == "metrics" and not s.orelse:
                return self.metrics_loop(s, env)
            if it[0] in ("tuple", "list") and not s.orelse:
                # a loop over a literal sequence (e.g. (buffer name, component) pairs): unrolled
                live, done = [env], []
                for x in it[1:]:
                    nxt = []
                    for en in live:
                        self.assign(s.target, x, en)
                        for en2, oc in self.block(s.body, en):
                            if oc is None or oc == ("continue",):
                                nxt.append(en2)
                            else:
                                done.append((en2, None if oc == ("break",) else oc))
                    live = nxt
                return [(en, None) for en in live] + done
            if it[0] == "call" and it[1] == "enumerate" and len(it[2]) == 1 and it[2][0][0] in ("tuple", "list") and not it[3]:
                it = ("call", "zip", (("tuple",) + tuple(("const", repr(i)) for i in range(len(it[2][0]) - 1)), it[2][0]), ())
            if it[0] == "call" and it[1] == "zip" and all(a[0] in ("tuple", "list") for a in it[2]) and not it[3] and not s.orelse:
                rows = list(zip(*[a[1:] for a in it[2]]))
                live, done = [env], []
                for x in rows:
                    nxt = []
                    for en in live:
                        self.assign(s.target, ("tuple",) + tuple(x), en)
                        for en2, oc in self.block(s.body, en):
                            if oc is None or oc == ("continue",):
                                nxt.append(en2)
                            else:
                                done.append((en2, None if oc == ("break",) else oc))
                    live = nxt
                return [(en, None) for en in live] + done
        return super().stmt(s, env)

    def metrics_loop(self, s: ast.For, env: Env):
        """`for metric in metrics:` executed ONCE over loop-carried symbols: every local / state the body assigns is bound to
        `("lv", name)` on entry; the body's result is the step function; after the loop the names hold `("after", k, name)`."""
        if not isinstance(s.target, ast.Name):
            raise Unsupported("loop target")
        assigned_locals, assigned_fields = set(), set()
        for node in ast.walk(ast.Module(body=s.body, type_ignores=[])):
            tg = []
            if isinstance(node, ast.Assign):
                tg = node.targets
            elif isinstance(node, (ast.AugAssign, ast.AnnAssign)):
                tg = [node.target]
            for t in tg:
                for tt in ([t] if not isinstance(t, (ast.Tuple, ast.List)) else t.elts):
                    base = tt.value if isinstance(tt, ast.Subscript) else tt
                    if isinstance(base, ast.Name):
                        assigned_locals.add(base.id)
                    else:
                        f = self.self_field(base, env)
                        if f is not None:
                            assigned_fields.add(f)
                        # else: a target whose name is computed inside the body (`getattr(self, name)[…] = …` under
                        # `for name in NAMES`) — found by the trial run below; if it is not a state of self at all,
                        # assign() refuses it there
        # trial run of the body on a copy of the environment: which fields / locals does it write at all (covers
        # `setattr(self, name, …)`, subscript assignment through `getattr(self, name)`, loop targets, inlined code)
        n_loops = len(self.loops)
        for _ in range(4):          # to a fixpoint: what is found is loop-carried in the next trial
            trial = env.fork()
            for n in assigned_locals:
                trial.locals[n] = ("lv", n)
            for f in assigned_fields:
                trial.state[f] = ("lv", "self." + f)
            trial.locals[s.target.id] = ("obj", "m")
            locals0, state0 = dict(trial.locals), dict(trial.state)
            new_f, new_l = set(), set()
            for en, _oc in self.block(s.body, trial):
                new_f |= {f for f in self.states if en.state[f] != state0[f]}
                new_l |= {n for n, v in en.locals.items() if n != s.target.id and not n.startswith("self.")
                          and (n not in locals0 or locals0[n] != v)}
            del self.loops[n_loops:]
            if new_f <= assigned_fields and new_l <= assigned_locals:
                break
            assigned_fields |= new_f
            assigned_locals |= new_l
        k = len(self.loops)
        pre = {"locals": {n: env.locals.get(n) for n in assigned_locals}, "fields": {f: env.state[f] for f in assigned_fields}}
        for n in assigned_locals:
            env.locals[n] = ("lv", n)
        for f in assigned_fields:
            env.state[f] = ("lv", "self." + f)
        env.locals[s.target.id] = ("obj", "m")
        n_conds = len(env.conds)
        outs = self.block(s.body, env)
        paths = []
        for en, oc in outs:
            if oc is not None and oc != ("continue",):
                raise Unsupported("merge loop leaves early (" + str(oc[0]) + ")")
            paths.append({"conds": en.conds[n_conds:], "locals": {n: en.locals.get(n) for n in assigned_locals},
                          "fields": {f: en.state[f] for f in assigned_fields},
                          "events": [c for c in en.checks if c[0] == "ev"]})
        self.loops.append({"pre": pre, "paths": paths, "locals": sorted(assigned_locals), "fields": sorted(assigned_fields)})
        # continue after the loop on ONE environment (the body's forks are summarised in the loop record)
        after = outs[0][0]
        after.conds = after.conds[:n_conds]
        for n in assigned_locals:
            after.locals[n] = ("after", k, n)
        for f in assigned_fields:
            after.state[f] = ("after", k, "self." + f)
        after.locals.pop(s.target.id, None)
        return [(after, None)]

    def run(self, name):
        fn = self.meths[name]
        params = [a.arg for a in fn.args.args][1:] + [a.arg for a in fn.args.kwonlyargs]
        state0 = {f: st("self", f) for f in self.states}
        env = Env(self.states, self.list_states, state0)
        for p in params:
            env.locals[p] = ("metrics",) if (name == "merge_state" and p == params[0]) else ("arg", p)
        return self.block(fn.body, env)


# ==================================================================== index expressions

def ix_show(x):
    if x is None:
        return "none"
    k = x[0]
    if k == "lit":
        return f"(.lit {x[1]})"
    if k in ("add", "sub", "mod", "min"):
        return f"(.{k} {ix_show(x[1])} {ix_show(x[2])})"
    return "." + k


def ix_eval(x, env):
    k = x[0]
    if k == "lit":
        return x[1]
    if k == "add":
        return ix_eval(x[1], env) + ix_eval(x[2], env)
    if k == "sub":
        return max(0, ix_eval(x[1], env) - ix_eval(x[2], env))
    if k == "mod":
        b = ix_eval(x[2], env)
        return ix_eval(x[1], env) % b if b else ix_eval(x[1], env)
    if k == "min":
        return min(ix_eval(x[1], env), ix_eval(x[2], env))
    if k == "batch":
        return env["n"]
    return env[k]


def cnd_show(c):
    if c[0] == "tt":
        return ".tt"
    return f"(.{c[0]} {ix_show(c[1])} {ix_show(c[2])})"


def cnd_eval(c, env):
    if c[0] == "tt":
        return True
    a, b = ix_eval(c[1], env), ix_eval(c[2], env)
    return {"le": a <= b, "lt": a < b, "eq": a == b}[c[0]]


IX_STEP = ("mod", ("add", ("cur",), ("lit", 1)), ("cap",))
IX_LEAD = ("min", ("tot",), ("cap",))
IX_SLEAD = ("min", ("stot",), ("scap",))


class Names:
    """role names of one class and the term -> Ix translation"""

    def __init__(self, cap, tot, cur, flag):
        self.cap, self.tot, self.cur, self.flag = cap, tot, cur, flag
        self.size_local = None     # merge: the local that accumulates the new buffer size
        self.idx_local = None      # merge: the running copy index

    def ix(self, t):
        if not isinstance(t, tuple) or not t:
            raise Unsupported(f"index expression {t!r}")
        k = t[0]
        if k == "st" and t[1] == "self":
            if t[2] == self.cur:
                return ("cur",)
            if t[2] == self.tot:
                return ("tot",)
            if t[2] == self.cap:
                return ("cap",)
        if k == "st" and t[1] == "m":
            if t[2] == self.tot:
                return ("stot",)
            if t[2] == self.cap:
                return ("scap",)
        if k == "batch":
            return ("batch",)
        if k == "const":
            v = eval(t[1])
            if isinstance(v, int) and not isinstance(v, bool) and v >= 0:
                return ("lit", v)
        if k in ("add", "sub", "mod", "min") and len(t) == 3:
            return (k, self.ix(t[1]), self.ix(t[2]))
        if k == "lv":
            if t[1] == "self." + self.tot:
                return ("tot",)
            if t[1] == "self." + self.cap:
                return ("cap",)
            if self.size_local is not None and t[1] == self.size_local:
                return ("mmax",)
            if self.idx_local is not None and t[1] == self.idx_local:
                return ("idx",)
        if k == "after":
            if t[2] == "self." + self.tot:
                return ("tot",)
            if self.size_local is not None and t[2] == self.size_local and t[1] == 0:
                return ("mmax",)
            if self.idx_local is not None and t[2] == self.idx_local and t[1] == 1:
                return ("idx",)
        raise Unsupported(f"index expression {show(t)[:70]}")

    def cnd(self, c):
        """condition term -> (Cnd, polarity)"""
        pol = True
        if c[0] == "not":
            pol, c = False, c[1]
        if c[0] != "cmp":
            raise Unsupported(f"condition {show(c)[:70]}")
        op, a, b = c[1], self.ix(c[2]), self.ix(c[3])
        if op == "Eq":
            return ("eq", a, b), pol
        if op == "NotEq":
            return ("eq", a, b), not pol
        if op == "GtE":
            return ("le", b, a), pol
        if op == "LtE":
            return ("le", a, b), pol
        if op == "Gt":
            return ("lt", b, a), pol
        if op == "Lt":
            return ("lt", a, b), pol
        raise Unsupported(f"comparison {op}")

    def life_cond(self, c):
        """True / False if `c` is the lifetime flag / its negation, else None"""
        if c == ("truthy", ("cfg", self.flag)):
            return True
        if c == ("not", ("truthy", ("cfg", self.flag))):
            return False
        return None


def guard_of(items, what):
    """items: [(lifetime polarity of the path: True/False/None, happened: bool)] -> Guard name"""
    if all(h for _, h in items):
        return "always"
    if not any(h for _, h in items):
        return "never"
    if all(p is not None for p, _ in items):
        if all(h == p for p, h in items):
            return "lifetime"
        if all(h == (not p) for p, h in items):
            return "notLifetime"
    raise Unsupported(f"{what} happens on some paths only, and not exactly on the enable_lifetime ones")


SL_ALL = ("slice", None, None)


def col_site(sl):
    """`[:, X]` -> X"""
    if isinstance(sl, tuple) and sl and sl[0] == "sl" and len(sl) == 3 and sl[1] == SL_ALL and not (isinstance(sl[2], tuple) and sl[2][:1] == ("slice",)):
        return sl[2]
    return None


def range_site(sl):
    """`[:, LO:HI]` -> (LO | None, HI | None)"""
    if isinstance(sl, tuple) and sl and sl[0] == "sl" and len(sl) == 3 and sl[1] == SL_ALL and isinstance(sl[2], tuple) and sl[2][:1] == ("slice",):
        return sl[2][1], sl[2][2]
    return None


def is_ndim(t, n):
    return isinstance(t, tuple) and t[0] == "cmp" and t[1] == "Eq" and t[2][0] == "attr" and t[2][2] == "ndim" and t[3] == ("const", str(n))


def adopt_cond(c, state_term, x_term):
    """`state.ndim == 0 and x.ndim == 1`"""
    return isinstance(c, tuple) and c[0] == "and" and len(c) == 3 and is_ndim(c[1], 0) and c[1][2][1] == state_term \
        and is_ndim(c[2], 1) and c[2][2][1] == x_term


# ==================================================================== per-method normal forms

def _module_globals(cls):
    g = {}
    for k in reversed(cls.__mro__):
        if k.__module__.startswith("torcheval") and k.__module__ in sys.modules:
            g.update(vars(sys.modules[k.__module__]))
    return g


def _is_const(v):
    return isinstance(v, (str, int, float, bool, type(None)))


def setattr_names(fn: ast.FunctionDef, globs):
    """the attribute names of every `setattr(self, <name>, …)` of a method whose <name> is not a literal, resolved
    statically: <name> may be built (`+` of strings) from constants, from the targets of `for` loops over literal
    tuples / lists, over locals bound ONCE to such a literal, over module-level constant tuples, and over `zip` /
    `enumerate` of those (components that are not constants are unknown and may not reach a name).
    -> (set of names, every name resolved?)"""
    UNKNOWN = None      # abstract values: ("c", python constant) | ("t", [abstract, …]) | UNKNOWN; scopes map a name to a LIST of alternatives

    def lift(v):
        if _is_const(v):
            return ("c", v)
        if isinstance(v, (tuple, list)):
            return ("t", [lift(x) for x in v])
        return UNKNOWN

    assigned = {}       # name -> how many binding sites it has in the method
    for node in ast.walk(fn):
        if isinstance(node, ast.Name) and isinstance(node.ctx, (ast.Store, ast.Del)):
            assigned[node.id] = assigned.get(node.id, 0) + 1
        elif isinstance(node, ast.ExceptHandler) and node.name:
            assigned[node.name] = assigned.get(node.name, 0) + 2
        elif isinstance(node, (ast.Import, ast.ImportFrom)):
            for al in node.names:
                nm_ = (al.asname or al.name).split(".")[0]
                assigned[nm_] = assigned.get(nm_, 0) + 2
        elif isinstance(node, (ast.Global, ast.Nonlocal)):
            for nm_ in node.names:
                assigned[nm_] = assigned.get(nm_, 0) + 2
    params = {a.arg for a in fn.args.args + fn.args.kwonlyargs + fn.args.posonlyargs}

    def alts(node, scope):
        """-> list of alternative abstract values"""
        if isinstance(node, ast.Constant):
            return [("c", node.value)]
        if isinstance(node, (ast.Tuple, ast.List)):
            els = [alts(x, scope) for x in node.elts]
            if all(len(a) == 1 for a in els):
                return [("t", [a[0] for a in els])]
            return [UNKNOWN]
        if isinstance(node, ast.Name):
            if node.id in scope:
                return scope[node.id]
            if node.id in assigned or node.id in params:
                return [UNKNOWN]
            if node.id in globs:
                return [lift(globs[node.id])]
            return [UNKNOWN]
        if isinstance(node, ast.BinOp) and isinstance(node.op, ast.Add):
            out = []
            for a in alts(node.left, scope):
                for b in alts(node.right, scope):
                    if a is not UNKNOWN and b is not UNKNOWN and a[0] == b[0] == "c" and isinstance(a[1], str) and isinstance(b[1], str):
                        out.append(("c", a[1] + b[1]))
                    else:
                        out.append(UNKNOWN)
            return out
        if isinstance(node, ast.Call) and isinstance(node.func, ast.Name) and node.func.id not in scope and node.func.id not in assigned \
                and not node.keywords:
            args = [alts(a, scope) for a in node.args]
            if all(len(a) == 1 and a[0] is not UNKNOWN and a[0][0] == "t" for a in args) and args:
                seqs = [a[0][1] for a in args]
                if node.func.id == "zip":
                    return [("t", [("t", list(r)) for r in zip(*seqs)])]
                if node.func.id == "enumerate" and len(seqs) == 1:
                    return [("t", [("t", [("c", i), x]) for i, x in enumerate(seqs[0])])]
                if node.func.id in ("tuple", "list") and len(seqs) == 1:
                    return [("t", list(seqs[0]))]
        return [UNKNOWN]

    def bind(target, values, scope):
        """bind a loop / assignment target to the alternatives `values`"""
        if isinstance(target, ast.Name):
            scope[target.id] = values
        elif isinstance(target, (ast.Tuple, ast.List)):
            for i, t in enumerate(target.elts):
                vs = []
                for v in values:
                    if v is not UNKNOWN and v[0] == "t" and len(v[1]) == len(target.elts) and not any(isinstance(x, ast.Starred) for x in target.elts):
                        vs.append(v[1][i])
                    else:
                        vs.append(UNKNOWN)
                bind(t, vs, scope)

    names, resolved = set(), [True]

    def visit_expr(node, scope):
        inner = set()       # nodes inside a comprehension / lambda: their variables have a scope of their own -> never resolved
        for x in ast.walk(node):
            if isinstance(x, (ast.ListComp, ast.GeneratorExp, ast.SetComp, ast.DictComp, ast.Lambda)):
                inner |= {id(y) for y in ast.walk(x)} - {id(x)}
        for x in ast.walk(node):
            if isinstance(x, ast.Call) and isinstance(x.func, ast.Name) and x.func.id == "setattr" and x.args \
                    and isinstance(x.args[0], ast.Name) and x.args[0].id == "self":
                vs = alts(x.args[1], scope) if len(x.args) > 1 and id(x) not in inner else [UNKNOWN]
                if vs and all(v is not UNKNOWN and v[0] == "c" and isinstance(v[1], str) for v in vs):
                    names.update(v[1] for v in vs)
                else:
                    resolved[0] = False
            if isinstance(x, ast.NamedExpr) and isinstance(x.target, ast.Name):
                scope[x.target.id] = [UNKNOWN]

    def visit(stmts, scope):
        for s in stmts:
            if isinstance(s, (ast.For, ast.While)):
                # a binding made before the loop is stale inside it if the body re-binds the name (second iteration)
                for y in s.body + s.orelse:
                    for x in ast.walk(y):
                        if isinstance(x, ast.Name) and isinstance(x.ctx, ast.Store):
                            scope.pop(x.id, None)
            if isinstance(s, ast.For):
                visit_expr(s.iter, scope)
                its = alts(s.iter, scope)
                items = []
                for it in its:
                    if it is not UNKNOWN and it[0] == "t":
                        items += it[1]
                    else:
                        items.append(UNKNOWN)
                bind(s.target, items or [UNKNOWN], scope)
                visit(s.body, scope)
                visit(s.orelse, scope)
            elif isinstance(s, (ast.Assign, ast.AugAssign, ast.AnnAssign)):
                visit_expr(s, scope)
                tgs = s.targets if isinstance(s, ast.Assign) else [s.target]
                if isinstance(s, ast.Assign) and len(tgs) == 1 and isinstance(tgs[0], ast.Name) and assigned.get(tgs[0].id) == 1:
                    scope[tgs[0].id] = alts(s.value, scope)       # a local bound once (`components = (("total_entropy", x), …)`)
                else:
                    for t in tgs:
                        for x in ast.walk(t):
                            if isinstance(x, ast.Name) and isinstance(x.ctx, ast.Store):
                                scope[x.id] = [UNKNOWN]
            elif isinstance(s, (ast.If, ast.While)):
                visit_expr(s.test, scope)
                visit(s.body, scope)
                visit(s.orelse, scope)
            elif isinstance(s, ast.With):
                for it in s.items:
                    visit_expr(it.context_expr, scope)
                visit(s.body, scope)
            elif isinstance(s, ast.Try):
                visit(s.body, scope)
                for h in s.handlers:
                    visit(h.body, scope)
                visit(s.orelse, scope)
                visit(s.finalbody, scope)
            elif isinstance(s, (ast.FunctionDef, ast.ClassDef, ast.AsyncFunctionDef)):
                visit_expr(s, scope)
            else:
                visit_expr(s, scope)
    visit(fn.body, {})
    return names, resolved[0]


def plain_written(cls, regs):
    """plain (unregistered) attributes of self written by update / reset / merge_state / compute and the methods of the class
    they call: assignment targets `self.X` and `setattr(self, <name>, …)` whose names resolve statically (setattr_names)."""
    from .states import class_methods, self_writes
    meths = class_methods(cls)
    globs = _module_globals(cls)
    seen, todo, written = set(), ["update", "reset", "merge_state", "compute"], set()
    while todo:
        n = todo.pop()
        if n in seen or n not in meths:
            continue
        seen.add(n)
        w, calls, dyn = self_writes(meths[n])
        written |= w
        todo += list(calls)
        if dyn:
            names, ok = setattr_names(meths[n], globs)
            if not ok:
                raise Unsupported(f"setattr with a computed name in {n}()")
            written |= names
    return {a for a in written if a not in regs}


def consistent(conds):
    """no condition together with its negation (a second `if self.enable_lifetime:` forks infeasible paths)"""
    cs = set(conds)
    return not any(c[0] == "not" and c[1] in cs for c in conds)


def split_paths(outs):
    outs = [(en, oc) for en, oc in outs if consistent(en.conds)]
    ok = [(en, oc) for en, oc in outs if oc is None or oc[0] == "return"]
    bad = [(en, oc) for en, oc in outs if oc is not None and oc[0] == "raise"]
    other = [(en, oc) for en, oc in outs if oc is not None and oc[0] not in ("return", "raise")]
    if other:
        raise Unsupported("stray " + other[0][1][0])
    return ok, bad


def events(en):
    return [c for c in en.checks if c[0] == "ev"]


def analyse_init(cls, regs, plain):
    ex = WExec(cls, regs, set(), plain, "init")
    if "__init__" not in ex.meths:
        raise Unsupported("no __init__ in the class")
    ok, _bad = split_paths(ex.run("__init__"))
    if not ok:
        raise Unsupported("__init__ always raises")
    added = {}       # name -> [(default term, path index)]
    for i, (en, _) in enumerate(ok):
        for ev in events(en):
            if ev[1] == "add_state":
                added.setdefault(ev[2], []).append((ev[3], i))
    return ex, ok, added


def path_polarity(nm: Names, conds, allow=()):
    """lifetime polarity of a path; every other condition must be in `allow`"""
    pol = None
    rest = []
    for c in conds:
        p = nm.life_cond(c)
        if p is not None:
            if pol is not None and pol != p:
                raise Unsupported("contradictory lifetime conditions on a path")
            pol = p
        else:
            rest.append(c)
    return pol, rest


def find_flag(ex_paths):
    flags = set()
    for en, _ in ex_paths:
        for c in en.conds:
            c2 = c[1] if c[0] == "not" else c
            if c2[0] == "truthy" and c2[1][0] == "cfg":
                flags.add(c2[1][1])
    return flags


def helper_ncomp(globs, helper, fallback):
    fn = globs.get(helper)
    try:
        tree = ast.parse(textwrap.dedent(inspect.getsource(fn)))
    except (OSError, TypeError):
        return fallback
    top = tree.body[0]
    lens = set()
    for node in ast.walk(top):
        if isinstance(node, ast.Return):
            if isinstance(node.value, ast.Tuple):
                lens.add(len(node.value.elts))
            else:
                lens.add(None)
    if len(lens) == 1 and None not in lens:
        return lens.pop()
    return fallback


def analyse(name):
    spec = BY_NAME[name]
    regs, defaults = set(), {}
    for c in spec.configs:
        m = new_metric(spec, fresh_cfg(c))
        for k, v in m._state_name_to_default.items():
            regs.add(k)
            defaults.setdefault(k, v)
    cls = type(m)
    row = {"name": name, "untranslated": None}
    try:
        plain = plain_written(cls, regs)
        if len(plain) != 1:
            raise Unsupported(f"plain attributes written after construction: {sorted(plain)} (expected exactly the cursor)")
        cur = next(iter(plain))
        # ---------------------------------------------------------- __init__
        exi, ipaths, added = analyse_init(cls, regs, plain)
        caps = [n for n, l in added.items() if all(d[0] == "arg" for d, _ in l)]
        tots = [n for n, l in added.items() if all(d[0] == "const" and isinstance(eval(d[1]), int) for d, _ in l)]
        if len(caps) != 1 or len(tots) != 1:
            raise Unsupported(f"cannot tell the window size / update counter states apart: {caps} / {tots}")
        cap, tot = caps[0], tots[0]
        flags = find_flag(ipaths)
        if len(flags) > 1:
            raise Unsupported(f"__init__ forks on several flags {sorted(flags)}")
        flag = next(iter(flags)) if flags else "enable_lifetime"
        nm = Names(cap, tot, cur, flag)
        row.update(capName=cap, totName=tot, curName=cur, flag=flag, capIsParam=True)
        pols = []
        for en, _ in ipaths:
            pol, rest = path_polarity(nm, en.conds)
            for c in rest:          # argument validation (`not (num_tasks < 1)` …) is not plumbing
                c2 = c[1] if c[0] == "not" else c
                if c2[0] != "cmp" or mentions(c2, own_state):
                    raise Unsupported(f"__init__ forks on {show(c)[:60]}")
            pols.append(pol)
        t0 = {show(d) for d, _ in added[tot]}
        if len(t0) != 1:
            raise Unsupported("total counter registered with different defaults")
        row["tot0"] = nm.ix(added[tot][0][0])
        c0 = {en.state[cur] for en, _ in ipaths}
        if len(c0) != 1 or next(iter(c0)) == st("self", cur):
            raise Unsupported("__init__ does not set the cursor on every path")
        row["cur0"] = nm.ix(next(iter(c0)))
        bufs, lifes = {}, {}
        for n, l in added.items():
            if n in (cap, tot):
                if len(l) != len(ipaths):
                    raise Unsupported(f"{n} is not registered on every path of __init__")
                continue
            ds = {d for d, _ in l}
            if len(ds) != 1:
                raise Unsupported(f"state {n} registered with different defaults")
            d = next(iter(ds))
            g = guard_of([(pols[i], any(j == i for _, j in l)) for i in range(len(ipaths))], f"registration of {n}")
            if d[0] == "call" and d[1] == "torch.zeros" and len(d[2]) == 2:
                bufs[n] = {"name": n, "regGuard": g, "rowsTasks": d[2][0] == ("cfg", "num_tasks"), "cols": nm.ix(d[2][1])}
            elif d[0] == "call" and d[1] == "torch.zeros" and len(d[2]) == 1:
                lifes[n] = {"name": n, "regGuard": g, "zeroInit": True, "shape": show(d[2][0])}
            elif d[0] == "call" and d[1] == "torch.tensor" and len(d[2]) == 1 and d[2][0][0] == "const":
                lifes[n] = {"name": n, "regGuard": g, "zeroInit": float(eval(d[2][0][1])) == 0.0, "shape": "scalar"}
            else:
                raise Unsupported(f"default of state {n}: {show(d)[:60]}")
        if not bufs:
            raise Unsupported("no (num_tasks, window) buffer is registered")
        # ---------------------------------------------------------- the four methods, each on its own
        fails = []

        def stage(key, fn):
            try:
                row[key] = fn()
            except Unsupported as e:
                fails.append(f"{key}: {e}")
            except RecursionError:
                fails.append(f"{key}: recursion")
            except Exception as e:  # noqa: BLE001 — a source shape the executor was not written for: outside the grammar, never a guess
                fails.append(f"{key}: translator error {type(e).__name__}: {str(e)[:80]}")
        stage("upd", lambda: analyse_update(cls, regs, plain, nm, bufs, lifes))
        if "upd" in row:
            stage("cmp", lambda: analyse_compute(cls, regs, plain, nm, bufs, lifes))
        stage("rst", lambda: analyse_reset(cls, regs, plain, nm))
        stage("mrg", lambda: analyse_merge(cls, regs, plain, nm, bufs, lifes))
        row["bufs"] = sorted(bufs.values(), key=lambda b: (b.get("comp", 0), b["name"]))
        row["lifes"] = sorted(lifes.values(), key=lambda b: (b.get("comp", 0), b["name"]))
        if fails:
            row["untranslated"] = fails[0]
            row["all_fails"] = fails
            try:
                row["srow"] = analyse_sample(name, row)
            except Unsupported as e:
                row["sample_fail"] = str(e)
            except Exception as e:  # noqa: BLE001
                row["sample_fail"] = f"translator error {type(e).__name__}: {str(e)[:80]}"
    except Unsupported as e:
        row["untranslated"] = "init: " + str(e)
    except RecursionError:
        row["untranslated"] = "recursion"
    except Exception as e:  # noqa: BLE001
        row["untranslated"] = f"init: translator error {type(e).__name__}: {str(e)[:80]}"
    return row


def analyse_update(cls, regs, plain, nm: Names, bufs, lifes):
    cur, tot, cap = nm.cur, nm.tot, nm.cap
    exu = WExec(cls, regs, set(), plain, "update")
    if "update" not in exu.meths:
        raise Unsupported("no update()")
    ok, bad = split_paths(exu.run("update"))
    if not ok:
        raise Unsupported("update never returns")
    state0 = {f: st("self", f) for f in exu.states}
    checks_first = all(en.state == state0 for en, _ in bad)
    calls = []
    upols = []
    extra = []
    for en, _ in ok:
        evs = events(en)
        w = [i for i, e in enumerate(evs) if e[1] == "write"]
        c = [i for i, e in enumerate(evs) if e[1] == "call"]
        if w and c and max(c) > min(w):
            checks_first = False
        pol, rest = path_polarity(nm, en.conds)
        upols.append(pol)
        # forks of inlined input checks on the arguments / the configuration are not plumbing (the per-state
        # uniformity tests below make sure nothing depends on them)
        extra.append([c for c in rest if mentions(c, own_state)])
    helper_call = None

    def component(v):
        nonlocal helper_call
        if v[0] == "out" and v[1][0] == "call":
            if helper_call is None:
                helper_call = v[1]
            if v[1] != helper_call:
                raise Unsupported("states are fed from different helper calls")
            return v[2]
        raise Unsupported(f"a state receives {show(v)[:60]}, not a component of the functional helper's result")

    for n, b in bufs.items():
        seen = []
        for (en, _), rest in zip(ok, extra):
            t = en.state[n]
            if t == st("self", n):
                seen.append(None)
                continue
            if t[0] != "setitem" or t[1] != st("self", n):
                raise Unsupported(f"update writes buffer {n} other than by ONE subscript assignment: {show(t)[:70]}")
            col = col_site(t[2])
            if col is None:
                raise Unsupported(f"update writes {n}[{show(t[2])}] (expected [:, <column>])")
            seen.append((nm.ix(col), component(t[3])))
        vals = {s for s in seen if s is not None}
        if len(vals) > 1:
            raise Unsupported(f"buffer {n} is written differently on different paths")
        b["guard"] = guard_of([(p, s is not None) for p, s in zip(upols, seen)], f"write of {n}")
        b["col"], b["comp"] = vals.pop() if vals else (("cur",), 0)
    for n, l in lifes.items():
        kinds = []
        for (en, _), rest, pol in zip(ok, extra, upols):
            t = en.state[n]
            if t == st("self", n):
                kinds.append(None)
            elif t[0] == "add" and t[1] == st("self", n):
                kinds.append(("add", component(t[2]), tuple(rest)))
            elif t[0] == "out":
                kinds.append(("assign", component(t), tuple(rest)))
            else:
                raise Unsupported(f"update of lifetime state {n}: {show(t)[:70]}")
        l["guard"] = guard_of([(p, k is not None) for p, k in zip(upols, kinds)], f"update of {n}")
        ks = [k for k in kinds if k is not None]
        comps = {k[1] for k in ks}
        if len(comps) > 1:
            raise Unsupported(f"lifetime state {n} takes different components on different paths")
        l["comp"] = comps.pop() if comps else 0
        if all(k[0] == "add" for k in ks):
            l["op"] = "add"
        else:
            xt = ("out", helper_call, l["comp"])
            okk = all((k[0] == "assign" and any(adopt_cond(c, st("self", n), xt) for c in k[2]))
                      or (k[0] == "add" and any(c[0] == "not" and adopt_cond(c[1], st("self", n), xt) for c in k[2])) for k in ks)
            if not okk or not any(k[0] == "add" for k in ks):
                raise Unsupported(f"lifetime state {n} is assigned, not accumulated")
            l["op"] = "adopt"
    # every extra path condition must be an adoption test of some lifetime state
    for rest in extra:
        for c in rest:
            c2 = c[1] if c[0] == "not" else c
            if not any(adopt_cond(c2, st("self", n), ("out", helper_call, l["comp"])) for n, l in lifes.items()):
                raise Unsupported(f"update forks on {show(c2)[:70]}")
    if helper_call is None:
        raise Unsupported("update stores nothing that comes from a functional helper")

    def counter(field, what):
        seen = []
        for en, _ in ok:
            t = en.state[field]
            seen.append(None if t == st("self", field) else nm.ix(t))
        vals = {s for s in seen if s is not None}
        if len(vals) > 1:
            raise Unsupported(f"{what} is advanced differently on different paths")
        return guard_of([(p, s is not None) for p, s in zip(upols, seen)], f"advance of {what}"), (vals.pop() if vals else (field_ix[field],))

    field_ix = {cur: "cur", tot: "tot"}
    cg, cn = counter(cur, "the cursor")
    tg, tn = counter(tot, "the update counter")
    for en, _ in ok:
        if en.state[cap] != st("self", cap):
            raise Unsupported(f"update writes {cap}")
    ncomp = helper_ncomp(exu.globs, helper_call[1], max([b["comp"] for b in bufs.values()] + [l["comp"] for l in lifes.values()]) + 1)
    return {"helper": helper_call[1], "call": show(helper_call), "ncomp": ncomp, "checksFirst": checks_first,
                  "curGuard": cg, "curNew": cn, "totGuard": tg, "totNew": tn}


def analyse_reset(cls, regs, plain, nm: Names):
    cur = nm.cur
    exr = WExec(cls, regs, set(), plain, "reset")
    if "reset" not in exr.meths:
        return {"callsSuper": True, "cursorTo": None, "override": False}
    if True:
        okr, badr = split_paths(exr.run("reset"))
        if len(okr) != 1 or badr:
            raise Unsupported("reset() forks or raises")
        en = okr[0][0]
        for f in regs:
            if en.state[f] != st("self", f):
                raise Unsupported(f"reset() writes registered state {f} itself")
        calls_super = any(e[1] == "super" and e[2] == "reset" for e in events(en))
        t = en.state[cur]
        return {"callsSuper": calls_super, "cursorTo": None if t == st("self", cur) else nm.ix(t), "override": True}


def analyse_compute(cls, regs, plain, nm: Names, bufs, lifes):
    ex = WExec(cls, regs, set(), plain, "compute")
    if "compute" not in ex.meths:
        raise Unsupported("no compute()")
    ok, bad = split_paths(ex.run("compute"))
    if bad:
        raise Unsupported("compute() raises on some path")
    state0 = {f: st("self", f) for f in ex.states}
    counters = {st("self", nm.cur), st("self", nm.tot), st("self", nm.cap)}

    def abstract(t, reads):
        """replace every read of a buffer (`buf.sum(dim=-1)` / `buf[:, :hi].sum(dim=-1)`) and of a lifetime state by
        ("W", component); anything else that touches the object's state is outside the grammar"""
        if not isinstance(t, tuple):
            return t
        if t and t[0] == "mcall" and t[1] == "sum":
            dims = list(t[3]) + [v for k, v in t[4] if k == "dim"]
            x = t[2]
            b = hi = None
            if x[0] == "st" and x[1] == "self" and x[2] in bufs:
                b = x[2]
            elif x[0] == "idx" and x[1][0] == "st" and x[1][1] == "self" and x[1][2] in bufs:
                r = range_site(x[2])
                if r is None or r[0] is not None or r[1] is None:
                    raise Unsupported(f"compute reads {show(x)[:60]} (expected buf[:, :hi])")
                b, hi = x[1][2], nm.ix(r[1])
            if b is not None:
                if len(dims) != 1 or dims[0] not in (("const", "-1"), ("const", "1")) or len(t[4]) + len(t[3]) != 1:
                    raise Unsupported(f"compute sums {b} along {[show(d) for d in dims]} (expected the last dimension)")
                reads.append((b, hi))
                return ("W", bufs[b]["comp"])
        if t and t[0] == "st" and t[1] == "self":
            if t[2] in lifes:
                reads.append((t[2], "life"))
                return ("W", lifes[t[2]]["comp"])
            if t[2] in bufs:
                raise Unsupported(f"compute reads buffer {t[2]} other than through .sum over the last dimension")
            if t in counters:
                raise Unsupported("the value formula reads a counter")
        return tuple(abstract(x, reads) for x in t)

    def is_empty(t):
        return t[0] == "call" and t[1] == "torch.empty" and t[2] == (("const", "0"),)

    recs = []
    for en, oc in ok:
        if en.state != state0:
            raise Unsupported("compute() writes a state")
        if oc is None:
            raise Unsupported("compute() falls off its end")
        pol, rest = path_polarity(nm, en.conds)
        cnds = [nm.cnd(c) for c in rest]
        val = oc[1]
        parts = list(val[1:]) if val[0] == "tuple" else [val]
        recs.append({"pol": pol, "cnds": cnds, "parts": parts})
    empties = [r for r in recs if all(is_empty(p) for p in r["parts"])]
    if not empties:
        raise Unsupported("compute() has no empty-result branch")
    e_cnds = {r["cnds"][0] if r["cnds"] else None for r in empties}
    if len(e_cnds) != 1 or None in e_cnds or not next(iter(e_cnds))[1]:
        raise Unsupported("the empty-result branch of compute() is not guarded by one test")
    e_cnd = next(iter(e_cnds))[0]
    for r in recs:
        first = r["cnds"][0] if r["cnds"] else None
        if first is None or first[0] != e_cnd or (first[1] != (r in empties)):
            raise Unsupported("compute(): the emptiness test does not come first on every path")
    full_cnd, part_hi, formula = None, None, None
    win_args = life_args = None
    same = True
    shown = []
    for r in recs:
        if r in empties:
            if len(r["parts"]) not in (1, 2):
                raise Unsupported("arity of the empty result")
            shown.append((r["pol"], len(r["parts"]) == 2))
            continue
        if len(r["parts"]) not in (1, 2):
            raise Unsupported("compute() returns more than (lifetime, windowed)")
        shown.append((r["pol"], len(r["parts"]) == 2))
        reads = []
        w = abstract(r["parts"][-1], reads)
        if any(h == "life" for _, h in reads):
            raise Unsupported("the windowed value reads a lifetime state")
        his = {h for _, h in reads}
        if len(his) != 1:
            raise Unsupported("the windowed value sums different column ranges of different buffers")
        hi = his.pop()
        rest = r["cnds"][1:]
        if len(rest) > 1:
            raise Unsupported("compute() forks on more than the fill test")
        if rest:
            c, pol = rest[0]
            if full_cnd not in (None, c):
                raise Unsupported("compute() uses different fill tests")
            full_cnd = c
            if pol != (hi is None):
                raise Unsupported("compute() sums the whole buffer on the not-yet-full branch (or a prefix on the full one)")
        elif hi is not None:
            raise Unsupported("compute() sums a prefix of the buffer unconditionally")
        if hi is not None:
            if part_hi not in (None, hi):
                raise Unsupported("compute() uses different prefix bounds")
            part_hi = hi
        if formula is None:
            formula = w
            win_args = [c for (b, _), c in zip(reads, [bufs[b]["comp"] for b, _ in reads])]
        elif formula != w:
            same = False
        if len(r["parts"]) == 2:
            lr = []
            lt = abstract(r["parts"][0], lr)
            if any(h != "life" for _, h in lr):
                raise Unsupported("the lifetime value reads a windowed buffer")
            la = [lifes[n]["comp"] for n, _ in lr]
            if life_args is None:
                life_args = la
            if lt != formula or la != life_args:
                same = False
    if formula is None:
        raise Unsupported("compute() has no non-empty branch")
    return {"emptyWhen": e_cnd, "fullWhen": full_cnd if full_cnd is not None else ("tt",), "partHi": part_hi, "sameFormula": same,
            "winArgs": win_args, "lifeArgs": life_args if life_args is not None else [], "lifeShown": guard_of(shown, "the lifetime value"),
            "formula": show(formula)}


def analyse_merge(cls, regs, plain, nm: Names, bufs, lifes):
    ex = WExec(cls, regs, set(), plain, "merge")
    if "merge_state" not in ex.meths:
        raise Unsupported("no merge_state()")
    ok, bad = split_paths(ex.run("merge_state"))
    if bad or len(ok) != 1:
        raise Unsupported("merge_state() forks outside its loops or raises")
    en = ok[0][0]
    if len(ex.loops) != 2:
        raise Unsupported(f"merge_state() has {len(ex.loops)} loops over the sources (expected: size, copy)")
    l0, l1 = ex.loops
    l1["paths"] = [p for p in l1["paths"] if consistent(p["conds"])]
    if l0["fields"] or len(l0["locals"]) != 1 or len(l0["paths"]) != 1 or l0["paths"][0]["conds"]:
        raise Unsupported("the first loop of merge_state() does more than accumulate the new size")
    nm.size_local = l0["locals"][0]
    if l0["pre"]["locals"][nm.size_local] is None:
        raise Unsupported("the size accumulator is not initialised")
    size_init = nm.ix(l0["pre"]["locals"][nm.size_local])
    size_step = nm.ix(l0["paths"][0]["locals"][nm.size_local])
    # the running index: the loop-carried local of the second loop whose step mentions itself
    carried = [n for n in l1["locals"] if all(mentions(p["locals"][n], lambda t, n=n: t == ("lv", n)) for p in l1["paths"])]
    if len(carried) != 1:
        raise Unsupported(f"cannot identify the running copy index among {l1['locals']}")
    nm.idx_local = carried[0]
    if l1["pre"]["locals"][nm.idx_local] is None:
        raise Unsupported("the copy index is not initialised")
    res = {"sizeInit": size_init, "sizeStep": size_step, "idxInit": nm.ix(l1["pre"]["locals"][nm.idx_local])}
    steps = {nm.ix(p["locals"][nm.idx_local]) for p in l1["paths"]}
    if len(steps) != 1:
        raise Unsupported("the copy index advances differently on different paths")
    res["idxStep"] = steps.pop()
    pols = []
    extra = []
    for p in l1["paths"]:
        pol, rest = path_polarity(nm, p["conds"])
        pols.append(pol)
        extra.append(rest)
    # buffers
    own, src = set(), set()
    for n, b in bufs.items():
        if n not in l1["fields"]:
            raise Unsupported(f"merge_state() does not copy the sources' {n}")
        t = l1["pre"]["fields"][n]
        if t[0] != "setitem" or t[1][0] != "call" or t[1][1] != "torch.zeros" or len(t[1][2]) != 2 or t[1][2][0] != ("cfg", "num_tasks"):
            raise Unsupported(f"merge_state(): {n} before the copy loop is {show(t)[:70]} (expected zeros(num_tasks, size)[:, :k] = old[:, :k])")
        r = range_site(t[2])
        v = t[3]
        rv = range_site(v[2]) if v[0] == "idx" else None
        if r is None or r[0] is not None or r[1] is None or rv is None or rv[0] is not None or rv[1] is None or v[1] != st("self", n):
            raise Unsupported(f"merge_state(): own part of {n}: {show(t)[:80]}")
        own.add((nm.ix(t[1][2][1]), nm.ix(r[1]), nm.ix(rv[1])))
        for p in l1["paths"]:
            t = p["fields"][n]
            if t[0] != "setitem" or t[1] != ("lv", "self." + n):
                raise Unsupported(f"merge_state() loop: {n} = {show(t)[:70]}")
            r = range_site(t[2])
            v = t[3]
            rv = range_site(v[2]) if v[0] == "idx" else None
            if r is None or r[0] is None or r[1] is None or rv is None or rv[0] is not None or rv[1] is None \
                    or v[1][0] != "st" or v[1][1] != "m":
                raise Unsupported(f"merge_state() loop: source part of {n}: {show(t)[:80]}")
            src.add((nm.ix(r[0]), nm.ix(r[1]), nm.ix(rv[1])))
            if b.setdefault("msrc", v[1][2]) != v[1][2]:
                raise Unsupported(f"merge_state() reads different source buffers for {n}")
        if en.state[n] != ("after", 1, "self." + n):
            raise Unsupported(f"merge_state() touches {n} after the copy loop")
    if len(own) != 1 or len(src) != 1:
        raise Unsupported("merge_state() treats the windowed buffers differently")
    res["allocCols"], res["ownHi"], res["ownTake"] = own.pop()
    res["srcLo"], res["srcHi"], res["srcTake"] = src.pop()
    # total
    if nm.tot not in l1["fields"]:
        res["totStep"] = ("tot",)
    else:
        ts = {nm.ix(p["fields"][nm.tot]) for p in l1["paths"]}
        if len(ts) != 1:
            raise Unsupported("the update counter is merged differently on different paths")
        res["totStep"] = ts.pop()
    tfin = en.state[nm.tot]
    if tfin not in (("after", 1, "self." + nm.tot), st("self", nm.tot)) or (tfin[0] == "st") != (nm.tot not in l1["fields"]):
        raise Unsupported(f"merge_state() writes {nm.tot} outside the copy loop")
    # lifetime states
    guards = set()
    for n, l in lifes.items():
        if n not in l1["fields"]:
            guards.add("never")
            l["mop"], l["msrc"] = l.get("op", "add"), n
            continue
        kinds = []
        for p, rest in zip(l1["paths"], extra):
            t = p["fields"][n]
            me = ("lv", "self." + n)
            if t == me:
                kinds.append(None)
            elif t[0] == "add" and t[1] == me and t[2][0] == "st" and t[2][1] == "m":
                kinds.append(("add", t[2][2], tuple(rest), t[2]))
            elif t[0] == "st" and t[1] == "m":
                kinds.append(("assign", t[2], tuple(rest), t))
            else:
                raise Unsupported(f"merge_state() loop: lifetime state {n} = {show(t)[:70]}")
        guards.add(guard_of([(pl, k is not None) for pl, k in zip(pols, kinds)], f"merge of {n}"))
        ks = [k for k in kinds if k is not None]
        srcs = {k[1] for k in ks}
        if len(srcs) > 1:
            raise Unsupported(f"merge of {n} reads different source states")
        l["msrc"] = srcs.pop() if srcs else n
        if all(k[0] == "add" for k in ks):
            l["mop"] = "add"
        else:
            me = ("lv", "self." + n)
            okk = all((k[0] == "assign" and any(adopt_cond(c, me, k[3]) for c in k[2]))
                      or (k[0] == "add" and any(c[0] == "not" and adopt_cond(c[1], me, k[3]) for c in k[2])) for k in ks)
            if not okk or not any(k[0] == "add" for k in ks):
                raise Unsupported(f"merge of lifetime state {n} assigns instead of accumulating")
            l["mop"] = "adopt"
    for rest in extra:
        for c in rest:
            c2 = c[1] if c[0] == "not" else c
            if not (c2[0] == "and" and len(c2) == 3 and is_ndim(c2[1], 0) and is_ndim(c2[2], 1)):
                raise Unsupported(f"merge_state() loop forks on {show(c2)[:70]}")
    if len(guards) > 1:
        raise Unsupported("lifetime states are merged under different guards")
    res["lifeGuard"] = guards.pop() if guards else "never"
    # after the loops
    t = en.state[nm.cur]
    if t == st("self", nm.cur):
        raise Unsupported("merge_state() does not set the cursor")
    capt = en.state[nm.cap]
    # the cursor's final value may mention the (possibly re-assigned) window size
    res["capFinal"] = ("cap",) if capt == st("self", nm.cap) else nm.ix(capt)

    def subst_cap(x):
        if x == capt and capt != st("self", nm.cap):
            return ("CAPNEW",)
        if isinstance(x, tuple):
            return tuple(subst_cap(y) for y in x)
        return x
    res["curFinal"] = nm.ix(t)
    for f in lifes:
        if en.state[f] not in (("after", 1, "self." + f), st("self", f)):
            raise Unsupported(f"merge_state() writes {f} outside the copy loop")
    return res


# ==================================================================== sample-windowed grammar (WindowedBinaryAUROC)

def _strip_block(v):
    """value of a buffer write -> (argument block term, slice): `blk`, `blk[:, :k]`, `blk[:, -k:]`"""
    if v[0] == "idx":
        r = range_site(v[2])
        if r is not None:
            lo, hi = r
            if lo is None and hi is None:
                return v[1], ("all",)
            if lo is None:
                return v[1], ("first", hi)
            if hi is None and lo[0] == "un" and lo[1] == "USub":
                return v[1], ("last", lo[2])
            raise Unsupported(f"slice of the argument block {show(v[2])[:50]}")
    return v, ("all",)


def _block_arg(blk, conds):
    """which argument of update() a block is: `x` / `x.reshape(1, -1)` -> x; `ones_like(..)` on a path where `w is None` -> w"""
    t = blk
    if t[0] == "mcall" and t[1] == "reshape" and t[3] == (("const", "1"), ("const", "-1")):
        t = t[2]
    if t[0] == "arg":
        return t[1]
    if t[0] == "call" and t[1] == "torch.ones_like":
        nones = [c[1][1] for c in conds if c[0] == "isnone" and c[1][0] == "arg"]
        if len(nones) == 1:
            return nones[0]
    raise Unsupported(f"a sample buffer is fed {show(blk)[:60]}, not an argument of update()")


def _subst(t, old, new):
    if t == old:
        return new
    if isinstance(t, tuple):
        return tuple(_subst(x, old, new) for x in t)
    return t


def analyse_supdate(cls, regs, plain, nm: Names, bufs):
    ex = WExec(cls, regs, set(), plain, "supdate")
    ok, bad = split_paths(ex.run("update"))
    if not ok:
        raise Unsupported("update never returns")
    state0 = {f: st("self", f) for f in ex.states}
    checks_first = all(en.state == state0 for en, _ in bad)
    fn = ex.meths["update"]
    params = [a.arg for a in fn.args.args][1:]
    variants = {}
    arg_of = {}
    for en, _ in ok:
        evs = events(en)
        w = [i for i, e in enumerate(evs) if e[1] == "write"]
        c = [i for i, e in enumerate(evs) if e[1] == "call"]
        if w and c and max(c) > min(w):
            checks_first = False
        per_buf = {}
        blocks = {}
        for n in bufs:
            t = en.state[n]
            ws = []
            while t != st("self", n):
                if t[0] == "copy":
                    blk, sl = _strip_block(t[1])
                    ws.append((("whole",), sl, blk))
                    break                      # whatever was written before is overwritten
                if t[0] != "setitem":
                    raise Unsupported(f"update of sample buffer {n}: {show(t)[:70]}")
                r = range_site(t[2])
                if r is None:
                    raise Unsupported(f"update writes {n}[{show(t[2])[:50]}] (expected [:, lo:hi])")
                blk, sl = _strip_block(t[3])
                ws.append((("range", r[0] if r[0] is not None else ("const", "0"), r[1]), sl, blk))
                t = t[1]
            ws.reverse()
            bl = {show(b) for _, _, b in ws}
            if len(bl) > 1:
                raise Unsupported(f"sample buffer {n} is fed from different blocks on one path")
            if not ws:
                raise Unsupported(f"sample buffer {n} is not written on some path of update()")
            blocks[n] = ws[0][2]
            a = _block_arg(ws[0][2], en.conds)
            if arg_of.setdefault(n, a) != a:
                raise Unsupported(f"sample buffer {n} is fed from different arguments on different paths")
            per_buf[n] = [(d, s_) for d, s_, _ in ws]
        # the batch size: shape[1] of the block of the buffer fed from the first parameter
        first = [n for n in bufs if arg_of[n] == params[0]]
        if len(first) != 1:
            raise Unsupported("no sample buffer is fed from the first argument of update()")
        nterm = ("idx", ("attr", blocks[first[0]], "shape"), ("const", "1"))
        sub = lambda t: _subst(t, nterm, ("batch",))   # noqa: E731
        shapes = {tuple(per_buf[n]) for n in bufs}
        if len({show(("tuple",) + tuple(("tuple", d, sl) for d, sl in per_buf[n])) for n in bufs}) != 1 or len(shapes) != 1:
            raise Unsupported("the sample buffers receive different slices")
        writes = []
        for d, sl in per_buf[first[0]]:
            dd = ("whole",) if d[0] == "whole" else ("range", nm.ix(sub(d[1])), nm.ix(sub(d[2])))
            ss = sl if sl[0] == "all" else (sl[0], nm.ix(sub(sl[1])))
            writes.append((dd, ss))
        key, conds = [], []
        for cnd in en.conds:
            if mentions(cnd, own_state) or mentions(sub(cnd), lambda t: t == ("batch",)):
                conds.append(nm.cnd(sub(cnd)))
            else:
                key.append(show(cnd))
        if en.state[nm.cap] != st("self", nm.cap):
            raise Unsupported(f"update writes {nm.cap}")
        br = (tuple(conds), tuple(writes), nm.ix(sub(en.state[nm.cur])), nm.ix(sub(en.state[nm.tot])))
        variants.setdefault(tuple(key), []).append(br)
    tables = {tuple(v) for v in variants.values()}
    if len(tables) != 1:
        raise Unsupported("update() does different things for different argument layouts (1-D / 2-D input, weight given or not)")
    return {"branches": list(tables.pop()), "checksFirst": checks_first, "argOf": arg_of, "variants": len(variants)}


def analyse_scompute(cls, regs, plain, nm: Names, bufs):
    ex = WExec(cls, regs, set(), plain, "compute")
    ok, bad = split_paths(ex.run("compute"))
    if bad or len(ok) != 2:
        raise Unsupported("compute() is not a two-way branch")
    state0 = {f: st("self", f) for f in ex.states}
    res = {}
    calls = {}
    for en, oc in ok:
        if en.state != state0 or oc is None:
            raise Unsupported("compute() writes a state or falls off its end")
        if len(en.conds) != 1:
            raise Unsupported("compute() forks on more than one test")
        c = en.conds[0]
        pol = True
        if c[0] == "not":
            pol, c = False, c[1]
        if not (c[0] == "truthy" and c[1][0] == "call" and c[1][1] == "torch.all" and len(c[1][2]) == 1 and c[1][2][0][0] == "cmp"
                and c[1][2][0][1] == "Eq" and c[1][2][0][3] == ("const", "0")):
            raise Unsupported(f"compute() tests {show(c)[:70]}")
        x = c[1][2][0][2]
        r = range_site(x[2]) if x[0] == "idx" else None
        if r is None or r[0] is None or r[1] is not None or x[1][0] != "st" or x[1][1] != "self" or x[1][2] not in bufs:
            raise Unsupported(f"compute() tests {show(x)[:70]} (expected buf[:, from:])")
        res.setdefault("zeroBuf", x[1][2])
        res.setdefault("zeroFrom", nm.ix(r[0]))
        if res["zeroBuf"] != x[1][2] or res["zeroFrom"] != nm.ix(r[0]):
            raise Unsupported("compute(): the two branches test different things")
        v = oc[1]
        if v[0] != "call" or v[3]:
            raise Unsupported(f"compute() returns {show(v)[:60]}")
        reads = []
        for a in v[2]:
            sq = a[0] == "mcall" and a[1] == "squeeze" and not a[3] and not a[4]
            y = a[2] if sq else a
            hi = None
            if y[0] == "idx":
                rr = range_site(y[2])
                if rr is None or rr[0] is not None or rr[1] is None:
                    raise Unsupported(f"compute() reads {show(y)[:60]}")
                hi, y = nm.ix(rr[1]), y[1]
            if y[0] != "st" or y[1] != "self" or y[2] not in bufs:
                raise Unsupported(f"compute() hands {show(a)[:60]} to the functional")
            reads.append((y[2], hi, sq))
        calls[pol] = (v[1], reads)
    (h1, r1), (h0, r0) = calls[True], calls[False]
    if h1 != h0 or [b for b, _, _ in r1] != [b for b, _, _ in r0]:
        raise Unsupported("compute(): the two branches call different functionals / argument orders")
    his = {h for _, h, _ in r1}
    if len(his) != 1 or None in his or any(h is not None for _, h, _ in r0):
        raise Unsupported("compute(): the all-zero branch must read one prefix of every buffer, the other branch the whole buffers")
    res.update(partHi=his.pop(), squeezed=all(s_ for _, _, s_ in r1 + r0), helper=h1, argBufs=[b for b, _, _ in r1])
    if not res["squeezed"] and any(s_ for _, _, s_ in r1 + r0):
        raise Unsupported("compute() squeezes some reads only")
    return res


def analyse_sample(name, row):
    """second chance for a class outside the update-windowed grammar: the sample-windowed one"""
    spec = BY_NAME[name]
    regs = set()
    for c in spec.configs:
        m = new_metric(spec, fresh_cfg(c))
        regs |= set(m._state_name_to_default)
    cls = type(m)
    plain = plain_written(cls, regs)
    nm = Names(row["capName"], row["totName"], row["curName"], row["flag"])
    bufs = {b["name"]: b for b in row["bufs"]}
    if row["lifes"]:
        raise Unsupported("a sample-windowed class with lifetime states")
    if "rst" not in row or "mrg" not in row:
        raise Unsupported((row.get("all_fails") or ["?"])[-1])
    u = analyse_supdate(cls, regs, plain, nm, bufs)
    c = analyse_scompute(cls, regs, plain, nm, bufs)
    fn = WExec(cls, regs, set(), plain, "supdate").meths["update"]
    params = [a.arg for a in fn.args.args][1:]
    order = sorted(bufs, key=lambda n: params.index(u["argOf"][n]) if u["argOf"][n] in params else 99)
    return {"name": name, "capName": row["capName"], "totName": row["totName"], "curName": row["curName"], "capIsParam": row["capIsParam"],
            "tot0": row["tot0"], "cur0": row["cur0"],
            "bufs": [(n, u["argOf"][n], bufs[n]["msrc"]) for n in order],
            "bufShapesOk": all(b["regGuard"] == "always" and b["rowsTasks"] and b["cols"] == ("cap",) for b in bufs.values()),
            "checksFirst": u["checksFirst"], "branches": u["branches"], "variants": u["variants"], "cmp": c, "rst": row["rst"], "mrg": row["mrg"]}


# ==================================================================== Lean table

def b2l(b):
    return "true" if b else "false"


def opt(x, f):
    return "none" if x is None else f"(some {f(x)})"


def lean_rst(r):
    return f'{{ callsSuper := {b2l(r["callsSuper"])}, cursorTo := {opt(r["cursorTo"], ix_show)} }}'


def lean_mrg(m):
    keys = ["sizeInit", "sizeStep", "allocCols", "ownHi", "ownTake", "idxInit", "srcLo", "srcHi", "srcTake", "idxStep", "totStep"]
    return ("{ " + ", ".join(f"{k} := {ix_show(m[k])}" for k in keys) + f', lifeGuard := .{m["lifeGuard"]}, '
            + f'curFinal := {ix_show(m["curFinal"])}, capFinal := {ix_show(m["capFinal"])} }}')


def lean_row(r):
    bufs = ",\n      ".join(
        f'{{ name := {q(b["name"])}, regGuard := .{b["regGuard"]}, rowsTasks := {b2l(b["rowsTasks"])}, cols := {ix_show(b["cols"])}, '
        f'guard := .{b["guard"]}, col := {ix_show(b["col"])}, comp := {b["comp"]}, msrc := {q(b["msrc"])} }}' for b in r["bufs"])
    lifes = ",\n      ".join(
        f'{{ name := {q(l["name"])}, regGuard := .{l["regGuard"]}, zeroInit := {b2l(l["zeroInit"])}, guard := .{l["guard"]}, '
        f'op := .{l["op"]}, comp := {l["comp"]}, mop := .{l["mop"]}, msrc := {q(l["msrc"])} }}' for l in r["lifes"])
    u, c = r["upd"], r["cmp"]
    nats = lambda l: "[" + ", ".join(str(x) for x in l) + "]"
    return (f'{{ name := {q(r["name"])}, capName := {q(r["capName"])}, totName := {q(r["totName"])}, curName := {q(r["curName"])},\n'
            f'    capIsParam := {b2l(r["capIsParam"])}, tot0 := {ix_show(r["tot0"])}, cur0 := {ix_show(r["cur0"])},\n'
            f'    bufs := [\n      {bufs}],\n    lifes := [\n      {lifes}],\n'
            f'    upd := {{ helper := {q(u["helper"])}, ncomp := {u["ncomp"]}, checksFirst := {b2l(u["checksFirst"])}, curGuard := .{u["curGuard"]}, '
            f'curNew := {ix_show(u["curNew"])}, totGuard := .{u["totGuard"]}, totNew := {ix_show(u["totNew"])} }},\n'
            f'    cmp := {{ emptyWhen := {cnd_show(c["emptyWhen"])}, fullWhen := {cnd_show(c["fullWhen"])}, partHi := {opt(c["partHi"], ix_show)}, '
            f'sameFormula := {b2l(c["sameFormula"])}, winArgs := {nats(c["winArgs"])}, lifeArgs := {nats(c["lifeArgs"])}, lifeShown := .{c["lifeShown"]} }},\n'
            f'    rst := {lean_rst(r["rst"])},\n    mrg := {lean_mrg(r["mrg"])} }}')


def lean_srow(r):
    def sl(x):
        return ".all" if x[0] == "all" else f"(.{x[0]} {ix_show(x[1])})"

    def dst(d):
        return ".whole" if d[0] == "whole" else f"(.range {ix_show(d[1])} {ix_show(d[2])})"
    brs = []
    for conds, writes, cn, tn in r["branches"]:
        cs = ", ".join(f"({cnd_show(c)}, {b2l(p)})" for c, p in conds)
        ws = ", ".join(f"⟨{dst(d)}, {sl(x)}⟩" for d, x in writes)
        brs.append(f"{{ conds := [{cs}], writes := [{ws}], curNew := {ix_show(cn)}, totNew := {ix_show(tn)} }}")
    c = r["cmp"]
    strs = lambda l: "[" + ", ".join(q(x) for x in l) + "]"
    bufs = ", ".join(f"({q(a)}, {q(b)}, {q(c_)})" for a, b, c_ in r["bufs"])
    return (f'{{ name := {q(r["name"])}, capName := {q(r["capName"])}, totName := {q(r["totName"])}, curName := {q(r["curName"])},\n'
            f'    capIsParam := {b2l(r["capIsParam"])}, tot0 := {ix_show(r["tot0"])}, cur0 := {ix_show(r["cur0"])},\n'
            f'    bufs := [{bufs}], bufShapesOk := {b2l(r["bufShapesOk"])}, checksFirst := {b2l(r["checksFirst"])},\n'
            f'    branches := [\n      ' + ",\n      ".join(brs) + '],\n'
            f'    cmp := {{ zeroBuf := {q(c["zeroBuf"])}, zeroFrom := {ix_show(c["zeroFrom"])}, partHi := {ix_show(c["partHi"])}, '
            f'squeezed := {b2l(c["squeezed"])}, helper := {q(c["helper"])}, argBufs := {strs(c["argBufs"])} }},\n'
            f'    rst := {lean_rst(r["rst"])},\n    mrg := {lean_mrg(r["mrg"])} }}')


def facts():
    rows = [analyse(n) for n in CLASSES]
    for r in rows:
        # a class outside the update-windowed grammar but inside the sample-windowed one is translated (as an `SRow`)
        if r["untranslated"] is not None and r.get("srow") is not None:
            r["update_grammar_fail"], r["untranslated_update"] = r["untranslated"], r["untranslated"]
    return rows


def translated(r):
    return r["untranslated"] is None or r.get("srow") is not None


def generate(rep: Report | None = None):
    rows = facts()
    out = ["/- GENERATED by harness/translators/winplumb.py from /repo's working tree — do not edit. -/",
           "import TE.Model.WinPlumb", "namespace TE.Gen", "open TE.WinPlumb", ""]
    names = []
    for r in rows:
        ident = "win" + r["name"]
        names.append(ident)
        if r["untranslated"] is None:
            out += [f"def {ident}Row : WinRow :=", "  " + lean_row(r), "",
                    f"def {ident} : WinClass := ⟨{q(r['name'])}, some {ident}Row, none, none, none, none⟩", ""]
        elif r.get("srow") is not None:
            out += [f"def {ident}Row : SRow :=", "  " + lean_srow(r["srow"]), "",
                    f"def {ident} : WinClass := ⟨{q(r['name'])}, none, some {ident}Row, none, none, none⟩", ""]
        else:
            why = r["untranslated"] + (f" / sample grammar: {r['sample_fail']}" if r.get("sample_fail") else "")
            out += [f"def {ident} : WinClass :=", f"  ⟨{q(r['name'])}, none, none, some {q(why)},",
                    f"   {opt(r.get('rst'), lean_rst)},", f"   {opt(r.get('mrg'), lean_mrg)}⟩", ""]
    out += ["def winPlumbing : List WinClass := [" + ", ".join(names) + "]", "", "end TE.Gen", ""]
    p = LEAN / "TE" / "Gen" / "WinPlumbing.lean"
    new = "\n".join(out)
    if not p.exists() or p.read_text() != new:
        p.write_text(new)
    if rep is not None:
        okc = [r["name"] for r in rows if r["untranslated"] is None]
        rep.notes.append(f"window-plumbing translator: {len(okc)} of {len(rows)} windowed classes in the update-windowed ring-buffer grammar, "
                         + f"{sum(1 for r in rows if r['untranslated'] and r.get('srow'))} in the sample-windowed one; outside both: "
                         + ("; ".join(f"{r['name']} ({r['untranslated']} / {r.get('sample_fail')})" for r in rows if not translated(r)) or "none"))
        for r in rows:
            if r["untranslated"] and r.get("srow"):
                rep.notes.append(f"winplumb {r['name']}: sample-windowed (update grammar: {r['untranslated']}); {r['srow']['variants']} argument "
                                 f"layouts × {len(r['srow']['branches'])} branches; buffers " + ", ".join(f"{a}<-{b}" for a, b, _ in r["srow"]["bufs"]))
        for r in rows:
            if r["untranslated"] is None:
                rep.notes.append(f"winplumb {r['name']}: helper {r['upd']['call']}; value formula {r['cmp']['formula']}; buffers "
                                 + ", ".join(f"{b['name']}<-[{b['comp']}]" for b in r["bufs"]) + "; lifetime "
                                 + ", ".join(f"{l['name']} {l['op']}<-[{l['comp']}]" for l in r["lifes"]))
    return rows


if __name__ == "__main__":
    import pprint
    for r in facts():
        print("OK" if translated(r) else "UNTRANSLATED", r["name"], r["untranslated"] or "", r.get("sample_fail") or "")
        if "-v" in sys.argv:
            pprint.pprint(r, width=180)


# ==================================================================== dynamic cross-check

def _teq(a, b):
    import torch
    a, b = torch.as_tensor(a).to(torch.float64), torch.as_tensor(b).to(torch.float64)
    if a.shape != b.shape:
        return False
    return bool(torch.all((a == b) | (torch.isnan(a) & torch.isnan(b))))


def _env(m, row):
    return {"cur": int(getattr(m, row["curName"])), "tot": int(getattr(m, row["totName"])), "cap": int(getattr(m, row["capName"])),
            "idx": 0, "mmax": 0, "stot": 0, "scap": 0}


def _holds(g, life):
    return {"always": True, "never": False, "lifetime": life, "notLifetime": not life}[g]


def _helper_components(m, row, batch):
    """evaluate the helper call expression of update() on the real arguments (the helper is pure) -> tuple | None"""
    from .states import class_methods
    fn = class_methods(type(m)).get("update")
    if fn is None:
        return None
    node = next((n for n in ast.walk(fn) if isinstance(n, ast.Call) and isinstance(n.func, ast.Name) and n.func.id == row["upd"]["helper"]), None)
    if node is None:
        return None
    try:
        ba = inspect.signature(type(m).update).bind(m, *batch.args, **batch.kwargs)
        ba.apply_defaults()
        g = dict(vars(sys.modules[type(m).__module__]))
        out = eval(compile(ast.Expression(body=node), "<winplumb>", "eval"), g, dict(ba.arguments))
    except Exception:  # noqa: BLE001
        return None
    return out if isinstance(out, tuple) else None


def _outs(m):
    r = m.compute()
    return list(r) if isinstance(r, tuple) else [r]


def _life_apply(op, a, x):
    if op == "adopt" and a.ndim == 0 and x.ndim == 1:
        return x
    return a + x


def crosscheck(rep: Report, rows, rng):
    """confirm the extracted facts on instrumented real instances over a short random stream:
    update  — every buffer changes at most in the column the row names (evaluated on the state before the call) and holds there
              the component the row names (of the real helper's result on the real arguments, and of what a fresh instance stores);
              cursor / counter / lifetime states move as the row's expressions say;
    compute — empty exactly when the row's test holds; poisoning (NaN) the columns OUTSIDE the row's read range does not change
              the result, poisoning one INSIDE does; the lifetime value is shown under the row's guard;
    reset   — cursor and registered states as the row says;
    merge   — buffers, counter, cursor, window size and lifetime states after merge_state equal what the row's expressions
              give on the states before the call."""
    import torch
    from ..engine import gen_stream

    def broke(row, what, msg):
        rep.broke(f"winplumb:{row['name']}.{what}", msg + " — the translator misread the method (or the method is inconsistent with "
                  "the extracted row)", {"class": row["name"], "method": what})

    for row in rows:
        if row["untranslated"] is not None:
            if row.get("srow") is not None:
                try:
                    _crosscheck_srow(rep, row["srow"], rng, broke)
                except Exception as e:  # noqa: BLE001
                    broke(row, "crosscheck", f"replaying the sample-windowed row next to the real class raised {type(e).__name__}: {str(e)[:160]}")
            continue
        try:
            _crosscheck_row(rep, row, rng, broke)
        except Exception as e:  # noqa: BLE001 — e.g. the row's slices do not fit the real tensors
            broke(row, "crosscheck", f"replaying the row next to the real class raised {type(e).__name__}: {str(e)[:160]}")


def _crosscheck_row(rep, row, rng, broke):
    import torch
    from ..engine import gen_stream
    if True:
        spec = BY_NAME[row["name"]]
        for cfg0 in spec.configs:
            cfg = fresh_cfg(cfg0)
            m = new_metric(spec, cfg)
            life = bool(getattr(m, row["flag"], True))
            N = int(getattr(m, row["capName"]))
            bufs, lifes = row["bufs"], row["lifes"]
            ok = True
            for step, b in enumerate(gen_stream(spec, cfg, rng, 2 * N + 2)):
                # ---- compute() before this update
                ok = ok and _check_compute(rep, row, m, life, broke)
                env = _env(m, row)
                before = {x["name"]: getattr(m, x["name"]).clone() for x in bufs}
                lbefore = {x["name"]: getattr(m, x["name"]).clone() for x in lifes} if life else {}
                comps = _helper_components(m, row, b)
                fresh = new_metric(spec, cfg)
                try:
                    b.apply(fresh)
                    b.apply(m)
                except Exception:  # noqa: BLE001
                    continue
                rep.traces += 1
                rep.count("winplumb:update-crosscheck")
                fenv = {"cur": ix_eval(row["cur0"], {"cap": N}), "tot": 0, "cap": N}
                for x in bufs:
                    now, was = getattr(m, x["name"]), before[x["name"]]
                    col = ix_eval(x["col"], env)
                    if not _holds(x["guard"], life):
                        if not _teq(now, was):
                            broke(row, "update", f"buffer {x['name']} changed although the row says it is not written when enable_lifetime={life}")
                        continue
                    if now.shape != was.shape or not (0 <= col < now.shape[1]):
                        broke(row, "update", f"buffer {x['name']}: shape {tuple(was.shape)} -> {tuple(now.shape)}, column {col}")
                        continue
                    others = [j for j in range(now.shape[1]) if j != col]
                    if not _teq(now[:, others], was[:, others]):
                        broke(row, "update", f"update #{step + 1} changed columns of {x['name']} other than column {col} = [{ix_show(x['col'])}]")
                    stored = getattr(fresh, x["name"])[:, ix_eval(x["col"], fenv)]
                    if not _teq(now[:, col], stored):
                        broke(row, "update", f"column {col} of {x['name']} does not hold what a fresh instance stores for the same batch")
                    if comps is not None and (x["comp"] >= len(comps) or not _teq(torch.as_tensor(comps[x["comp"]]).reshape(-1).to(now.dtype),
                                                                                    now[:, col].reshape(-1))
                                              and not _teq(torch.as_tensor(comps[x["comp"]]).to(now.dtype).expand(now.shape[0]), now[:, col])):
                        broke(row, "update", f"column {col} of {x['name']} is not component {x['comp']} of {row['upd']['helper']}(...)")
                if comps is not None and len(comps) != row["upd"]["ncomp"]:
                    broke(row, "update", f"{row['upd']['helper']} returned {len(comps)} components, the row says {row['upd']['ncomp']}")
                for x in lifes:
                    if not life:
                        continue
                    now = getattr(m, x["name"])
                    if _holds(x["guard"], life) and comps is not None and x["comp"] < len(comps):
                        exp = _life_apply(x["op"], lbefore[x["name"]], torch.as_tensor(comps[x["comp"]]))
                        if not _teq(exp, now):
                            broke(row, "update", f"lifetime state {x['name']} is not `{x['op']}` of component {x['comp']}")
                    elif not _holds(x["guard"], life) and not _teq(now, lbefore[x["name"]]):
                        broke(row, "update", f"lifetime state {x['name']} changed although the row says it does not")
                u = row["upd"]
                exp_cur = ix_eval(u["curNew"], env) if _holds(u["curGuard"], life) else env["cur"]
                exp_tot = ix_eval(u["totNew"], env) if _holds(u["totGuard"], life) else env["tot"]
                after = _env(m, row)
                if (after["cur"], after["tot"], after["cap"]) != (exp_cur, exp_tot, env["cap"]):
                    broke(row, "update", f"update #{step + 1}: (cursor, counter, size) = {(after['cur'], after['tot'], after['cap'])}, "
                                         f"the row's expressions give {(exp_cur, exp_tot, env['cap'])} from {(env['cur'], env['tot'], env['cap'])}")
            _check_compute(rep, row, m, life, broke)
            # ---- merge_state on states with history (before the reset check uses the object up)
            _check_merge(rep, row, spec, cfg, rng, life, broke)
            # ---- reset()
            env = _env(m, row)
            m.reset()
            rep.count("winplumb:reset-crosscheck")
            rs = row["rst"]
            exp_cur = env["cur"] if rs["cursorTo"] is None else ix_eval(rs["cursorTo"], env)
            if int(getattr(m, row["curName"])) != exp_cur:
                broke(row, "reset", f"after reset() the cursor is {getattr(m, row['curName'])}, the row says {exp_cur}")
            if rs["callsSuper"]:
                for k, d in m._state_name_to_default.items():
                    if not _teq(getattr(m, k), d):
                        broke(row, "reset", f"after reset() state {k} is not its default although the row says super().reset() ran")


def _spush(sr, env, bufs, blocks):
    """python mirror of TE.WinPlumb.sPush: the first branch whose tests hold; -> (new buffers, cursor, total) | None"""
    import torch
    for conds, writes, cn, tn in sr["branches"]:
        if all(cnd_eval(c, env) == pol for c, pol in conds):
            out = {}
            for name, arg, _ in sr["bufs"]:
                buf, blk = bufs[name].clone(), blocks[arg]
                for d, sl in writes:
                    if sl[0] == "all":
                        src = blk
                    elif sl[0] == "first":
                        src = blk[:, :ix_eval(sl[1], env)]
                    else:
                        k = ix_eval(sl[1], env)
                        src = blk if k == 0 else blk[:, blk.shape[1] - min(k, blk.shape[1]):]
                    if d[0] == "whole":
                        if src.shape != buf.shape:
                            return None
                        buf = src.to(buf.dtype).clone()
                    else:
                        lo = ix_eval(d[1], env)
                        if lo + src.shape[1] > buf.shape[1] or ix_eval(d[2], env) - lo != src.shape[1]:
                            return None
                        buf[:, lo:lo + src.shape[1]] = src
                out[name] = buf
            return out, ix_eval(cn, env), ix_eval(tn, env)
    return None


def _crosscheck_srow(rep, sr, rng, broke):
    import torch
    from ..engine import gen_stream
    spec = BY_NAME[sr["name"]]
    names = [n for n, _, _ in sr["bufs"]]
    for cfg0 in spec.configs:
        cfg = fresh_cfg(cfg0)
        m = new_metric(spec, cfg)
        N = int(getattr(m, sr["capName"]))
        for step, b in enumerate(gen_stream(spec, cfg, rng, 2 * N + 2)):
            env = {**_env(m, sr), "n": 0}
            before = {n: getattr(m, n).clone() for n in names}
            ba = inspect.signature(type(m).update).bind(m, *b.args, **b.kwargs)
            ba.apply_defaults()
            x = ba.arguments["input"] if "input" in ba.arguments else list(ba.arguments.values())[1]
            T = before[names[0]].shape[0]
            blocks = {}
            for _, arg, _ in sr["bufs"]:
                v = ba.arguments.get(arg)
                v = torch.ones_like(x, dtype=torch.double) if v is None else v
                blocks[arg] = v.reshape(T, -1)
            env["n"] = blocks[sr["bufs"][0][1]].shape[1]
            try:
                b.apply(m)
            except Exception:  # noqa: BLE001
                continue
            rep.traces += 1
            rep.count("winplumb:sample-update-crosscheck")
            pred = _spush(sr, env, before, blocks)
            if pred is None:
                broke(sr, "update", f"no branch of the row applies (or its slices do not fit) at cursor {env['cur']}, batch {env['n']}, window {env['cap']}")
                continue
            bufs, cur, tot = pred
            after = _env(m, sr)
            if (after["cur"], after["tot"], after["cap"]) != (cur, tot, env["cap"]):
                broke(sr, "update", f"update #{step + 1} (batch {env['n']}): (cursor, counter, size) = {(after['cur'], after['tot'], after['cap'])}, "
                                    f"the row's branch gives {(cur, tot, env['cap'])} from {(env['cur'], env['tot'], env['cap'])}")
            for n in names:
                if not _teq(getattr(m, n), bufs[n]):
                    broke(sr, "update", f"buffer {n} after update #{step + 1} (batch {env['n']}, cursor {env['cur']}) differs from what the row's branch writes")
            # ---- compute(): columns outside the row's read range are not read
            c = sr["cmp"]
            e2 = _env(m, sr)
            zero = bool(torch.all(getattr(m, c["zeroBuf"])[:, ix_eval(c["zeroFrom"], e2):] == 0))
            hi = ix_eval(c["partHi"], e2) if zero else getattr(m, names[0]).shape[1]
            try:
                base = _outs(m)
            except Exception:  # noqa: BLE001 — the recorded single-sample findings
                continue
            rep.count("winplumb:sample-compute-crosscheck")
            if hi < getattr(m, names[0]).shape[1]:
                m2 = copy.deepcopy(m)
                for n in names:
                    if n != c["zeroBuf"]:
                        getattr(m2, n)[:, hi:] = float("nan")
                try:
                    if not all(_teq(a, b_) for a, b_ in zip(base, _outs(m2))):
                        broke(sr, "compute", f"compute() reads columns at or beyond {hi} although the row says the all-zero branch reads [:{hi}]")
                except Exception as e:  # noqa: BLE001
                    broke(sr, "compute", f"compute() on a twin poisoned outside the row's read range raised {e!r}")
            m2 = copy.deepcopy(m)
            getattr(m2, names[-1])[:, hi - 1] = float("nan")
            try:
                o2 = _outs(m2)
                if all(_teq(a, b_) for a, b_ in zip(base, o2)):
                    broke(sr, "compute", f"compute() does not read column {hi - 1} of {names[-1]} although the row's read range is [:{hi}]")
            except Exception:  # noqa: BLE001
                pass
        # ---- merge_state / reset through the generic checks (no lifetime states)
        pseudo = {"name": sr["name"], "capName": sr["capName"], "totName": sr["totName"], "curName": sr["curName"],
                  "bufs": [{"name": n, "msrc": ms} for n, _, ms in sr["bufs"]], "lifes": [], "mrg": sr["mrg"]}
        _check_merge(rep, pseudo, spec, cfg, rng, False, broke)
        env = _env(m, sr)
        m.reset()
        rep.count("winplumb:reset-crosscheck")
        rs = sr["rst"]
        exp_cur = env["cur"] if rs["cursorTo"] is None else ix_eval(rs["cursorTo"], env)
        if int(getattr(m, sr["curName"])) != exp_cur:
            broke(sr, "reset", f"after reset() the cursor is {getattr(m, sr['curName'])}, the row says {exp_cur}")
        if rs["callsSuper"]:
            for k, d in m._state_name_to_default.items():
                if not _teq(getattr(m, k), d):
                    broke(sr, "reset", f"after reset() state {k} is not its default although the row says super().reset() ran")


def _check_compute(rep, row, m, life, broke):
    import torch
    c = row["cmp"]
    env = _env(m, row)
    try:
        outs = _outs(m)
    except Exception as e:  # noqa: BLE001
        broke(row, "compute", f"compute() raised {e!r} at cursor/counter {env['cur']}/{env['tot']}")
        return False
    rep.count("winplumb:compute-crosscheck")
    shown = _holds(c["lifeShown"], life)
    if len(outs) != (2 if shown else 1):
        broke(row, "compute", f"compute() returned {len(outs)} value(s) with enable_lifetime={life}")
        return False
    empty = cnd_eval(c["emptyWhen"], env)
    if empty != all(o.numel() == 0 for o in outs):
        broke(row, "compute", f"compute() is {'not ' if empty else ''}empty at counter {env['tot']} although the row's test [{cnd_show(c['emptyWhen'])}] says otherwise")
        return False
    if empty:
        return True
    full = cnd_eval(c["fullWhen"], env)
    ncols = getattr(m, row["bufs"][0]["name"]).shape[1]
    hi = ncols if full or c["partHi"] is None else ix_eval(c["partHi"], env)
    if not (0 < hi <= ncols):
        broke(row, "compute", f"the row's read range [:{hi}] is empty or exceeds the buffer ({ncols} columns)")
        return False
    # outside the read range: poison must be invisible
    if hi < ncols:
        m2 = copy.deepcopy(m)
        for x in row["bufs"]:
            getattr(m2, x["name"])[:, hi:] = float("nan")
        o2 = _outs(m2)
        if not all(_teq(a, b) for a, b in zip(outs, o2)):
            broke(row, "compute", f"compute() reads columns at or beyond {hi} = [{opt(c['partHi'], ix_show)}] (cursor {env['cur']}, counter {env['tot']})")
            return False
    # inside: poison must show in the windowed value
    for j in {0, hi - 1}:
        for x in row["bufs"]:
            m2 = copy.deepcopy(m)
            getattr(m2, x["name"])[:, j] = float("nan")
            o2 = _outs(m2)
            if not bool(torch.isnan(o2[-1].to(torch.float64)).any()):
                broke(row, "compute", f"compute() does not read column {j} of {x['name']} although the row's read range is [:{hi}]")
                return False
    return True


def _check_merge(rep, row, spec, cfg, rng, life, broke):
    import torch
    from ..engine import gen_stream, fed
    mg = row["mrg"]
    N = int(getattr(new_metric(spec, cfg), row["capName"]))
    for kt, ks in ((rng.choice([0, 1, N]), (1, 0)), (N + 1, (N + 2, 1))):
        tgt = fed(spec, cfg, gen_stream(spec, cfg, rng, kt))
        srcs = [fed(spec, cfg, gen_stream(spec, cfg, rng, k)) for k in ks]
        e0 = _env(tgt, row)
        mm = ix_eval(mg["sizeInit"], e0)
        for s in srcs:
            es = _env(s, row)
            mm = ix_eval(mg["sizeStep"], {**e0, "mmax": mm, "stot": es["tot"], "scap": es["cap"]})
        e0["mmax"] = mm
        exp_buf = {}
        for x in row["bufs"]:
            old = getattr(tgt, x["name"])
            new = torch.zeros(old.shape[0], ix_eval(mg["allocCols"], e0), dtype=torch.float64)
            k = ix_eval(mg["ownTake"], e0)
            new[:, :ix_eval(mg["ownHi"], e0)] = old[:, :k]
            exp_buf[x["name"]] = new
        exp_life = {x["name"]: getattr(tgt, x["name"]).clone() for x in row["lifes"]} if life else {}
        idx, tot = ix_eval(mg["idxInit"], e0), e0["tot"]
        try:
            for s in srcs:
                es = _env(s, row)
                e = {**e0, "idx": idx, "tot": tot, "stot": es["tot"], "scap": es["cap"]}
                for x in row["bufs"]:
                    exp_buf[x["name"]][:, ix_eval(mg["srcLo"], e):ix_eval(mg["srcHi"], e)] = getattr(s, x["msrc"])[:, :ix_eval(mg["srcTake"], e)]
                if life and _holds(mg["lifeGuard"], life):
                    for x in row["lifes"]:
                        exp_life[x["name"]] = _life_apply(x["mop"], exp_life[x["name"]], getattr(s, x["msrc"]))
                idx, tot = ix_eval(mg["idxStep"], e), ix_eval(mg["totStep"], e)
        except RuntimeError as ex:
            broke(row, "merge_state", f"the row's slices do not fit ({ex})")
            continue
        e1 = {**e0, "idx": idx, "tot": tot}
        exp = (ix_eval(mg["curFinal"], e1), tot, ix_eval(mg["capFinal"], e1))
        try:
            tgt.merge_state(srcs)
        except Exception as ex:  # noqa: BLE001
            broke(row, "merge_state", f"merge_state raised {ex!r}")
            continue
        rep.traces += 1
        rep.count("winplumb:merge-crosscheck")
        a = _env(tgt, row)
        if (a["cur"], a["tot"], a["cap"]) != exp:
            broke(row, "merge_state", f"(cursor, counter, size) after merge_state = {(a['cur'], a['tot'], a['cap'])}, the row's expressions give {exp}")
        for x in row["bufs"]:
            if not _teq(getattr(tgt, x["name"]), exp_buf[x["name"]]):
                broke(row, "merge_state", f"buffer {x['name']} after merge_state differs from what the row's slices give")
        for x in row["lifes"]:
            if life and not _teq(getattr(tgt, x["name"]), exp_life[x["name"]]):
                broke(row, "merge_state", f"lifetime state {x['name']} after merge_state differs from what the row says")
