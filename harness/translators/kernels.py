"""(T) kernel translator (C04): the numeric kernels of the count-based classification metrics
(torcheval/metrics/functional/classification/{accuracy,precision,recall,f1_score,confusion_matrix}.py) are
translated from their Python AST (working tree of /repo, `TE_REPO`) into closed terms of the tensor-expression
language of lean/TE/Model/TExpr.lean; the result is lean/TE/Gen/Kernels.lean (rewritten only when its text
changes).  lean/TE/Props/C04_Kernels.lean proves for ALL inputs that evaluating the generated term gives the
hand-written model of lean/TE/Model/Count.lean, so the theorems are re-checked against what the code says now.

The translator is a symbolic executor of straight-line code:
  * locals are substituted by the term they hold (`input = torch.where(...)` re-binds `input`), so the
    generated term mentions only the kernel's PARAMETERS — renaming a local or naming an intermediate mask
    does not change the output;
  * every `if` forks the path and continues both branches with the rest of the block (early `return`s are
    therefore just leaves): a condition on configuration values (`average == "micro"`, `k == 1`,
    `input.ndim == 2`, `isinstance(average, str) and …`, `x in (…)`) becomes `.ite`, a condition on a
    one-element tensor (`if isnan_class.any():`) becomes `.iteT`; when both continuations are the same term
    the `if` disappears (bodies that only log, the `target.dtype == torch.bool` split of
    `_binary_accuracy_update` whose two constructors of a 0-d tensor coincide on rationals);
  * `assert c` becomes `.assert c <rest>`;
  * a call of a private helper of the same module that is itself a kernel (`_update`, `_multilabel_update`) is
    inlined; the `_*_input_check(...)` statement at the top of a kernel is skipped (C18 owns the checks);
    `logging.*(...)` statements are skipped;
  * storage dtypes are not modelled: `.long() .float() .int() .double() .type(..) .to(..) .clone() .detach()`
    are identities, `dtype= / device= / requires_grad=` keywords are ignored;
  * conditions have a normal form (`norm_cond`, `Exec.ite`): `isinstance(x, (A, B))` is `isinstance(x, A) or isinstance(x, B)`,
    nested `and` / `or` are flattened, an all-negated `and` / `or` is the negation of the dual, and `if <negated c>: A else: B`
    is `if c: B else: A` — so `if k is not None: X` + fall-through and the guard clause `if k is None: return …` + `X`
    give one term, as do `else: raise` and `if not (…) or …: raise` in front of the rest;
  * a private helper may also be called in expression position with a Boolean result (`-> bool`: `if c: return True` /
    `return d` is `c or d`) or at statement level (a validation fragment that raises or returns None: its statements run
    in place, then the caller's remaining statements); method and function spelling of one torch operation coincide
    (`x.reciprocal()` / `torch.reciprocal(x)`, `torch.abs(x)` / `x.abs()`, `a.eq(b)` / `torch.eq(a, b)` / `a == b`);
  * values that never reach the result (arguments of log messages) may be opaque.
Anything outside the grammar makes the kernel `untranslated "<name>" "<reason>"` — never a guess."""
from __future__ import annotations
import ast
import re
from fractions import Fraction
from ..common import LEAN, REPO

BASE = "torcheval/metrics/functional/classification"
# (module, function, kernel id used in Lean / by the driver)
KERNELS = [
    ("accuracy", "_binary_accuracy_update", "binary_accuracy_update"),
    ("precision", "_binary_precision_update", "binary_precision_update"),
    ("recall", "_binary_recall_update", "binary_recall_update"),
    ("f1_score", "_binary_f1_score_update", "binary_f1_score_update"),
    ("confusion_matrix", "_binary_confusion_matrix_update", "binary_confusion_matrix_update"),
    ("accuracy", "_accuracy_compute", "accuracy_compute"),
    ("accuracy", "_multiclass_accuracy_update", "multiclass_accuracy_update"),
    ("accuracy", "_multilabel_update", "multilabel_update"),
    ("accuracy", "_multilabel_accuracy_update", "multilabel_accuracy_update"),
    ("accuracy", "_topk_multilabel_accuracy_update", "topk_multilabel_accuracy_update"),
    ("precision", "_precision_update", "precision_update"),
    ("precision", "_precision_compute", "precision_compute"),
    ("recall", "_recall_update", "recall_update"),
    ("recall", "_recall_compute", "recall_compute"),
    ("recall", "_binary_recall_compute", "binary_recall_compute"),
    ("f1_score", "_update", "f1_score__update"),
    ("f1_score", "_f1_score_update", "f1_score_update"),
    ("f1_score", "_f1_score_compute", "f1_score_compute"),
    ("confusion_matrix", "_update", "confusion_matrix__update"),
    ("confusion_matrix", "_confusion_matrix_update", "confusion_matrix_update"),
    ("confusion_matrix", "_confusion_matrix_compute", "confusion_matrix_compute"),
    ("confusion_matrix", "_binary_confusion_matrix_compute", "binary_confusion_matrix_compute"),
]

# C07: aggregation / regression / image kernels (module path relative to torcheval/metrics/functional)
KERNELS_AGG = [
    ("aggregation/mean", "_mean_update", "mean_update"),
    ("aggregation/mean", "_mean_compute", "mean_compute"),
    ("aggregation/sum", "_sum_update", "sum_update"),
    ("aggregation/auc", "_auc_compute", "auc_compute"),
    ("regression/mean_squared_error", "_update", "mse__update"),
    ("regression/mean_squared_error", "_mean_squared_error_update", "mean_squared_error_update"),
    ("regression/mean_squared_error", "_mean_squared_error_compute", "mean_squared_error_compute"),
    ("regression/r2_score", "_update", "r2__update"),
    ("regression/r2_score", "_r2_score_update", "r2_score_update"),
    ("regression/r2_score", "_compute", "r2__compute"),
    ("regression/r2_score", "_r2_score_compute", "r2_score_compute"),
    ("image/psnr", "_psnr_update", "psnr_update"),
    ("image/psnr", "_psnr_compute", "psnr_compute"),
]
# C08: ranking kernels
KERNELS_RANK = [
    ("ranking/click_through_rate", "_click_through_rate_update", "click_through_rate_update"),
    ("ranking/click_through_rate", "_click_through_rate_compute", "click_through_rate_compute"),
    ("ranking/weighted_calibration", "_weighted_calibration_update", "weighted_calibration_update"),
    ("ranking/weighted_calibration", "_weighted_calibration_compute", "weighted_calibration_compute"),
    ("ranking/hit_rate", "hit_rate", "hit_rate"),
    ("ranking/reciprocal_rank", "reciprocal_rank", "reciprocal_rank"),
    ("ranking/frequency", "frequency_at_k", "frequency_at_k"),
    ("ranking/num_collisions", "num_collisions", "num_collisions"),
]
# C05: curve kernels
KERNELS_CURVE = [
    ("tensor_utils", "_riemann_integral", "riemann_integral"),
    ("classification/precision_recall_curve", "_compute_for_each_class", "compute_for_each_class"),
    ("classification/precision_recall_curve", "_binary_precision_recall_curve_compute", "binary_precision_recall_curve_compute"),
    ("classification/auroc", "_binary_auroc_compute_jit", "binary_auroc_compute_jit"),
    ("classification/auprc", "_binary_auprc_compute", "binary_auprc_compute"),
    ("classification/recall_at_fixed_precision", "_recall_at_precision", "recall_at_precision"),
    ("classification/recall_at_fixed_precision", "_binary_recall_at_fixed_precision_compute", "binary_recall_at_fixed_precision_compute"),
]
# C06: binned curve kernels
KERNELS_BINNED = [
    ("classification/binned_precision_recall_curve", "_update", "binned_update"),
    ("classification/binned_precision_recall_curve", "_binary_binned_precision_recall_curve_update",
     "binary_binned_precision_recall_curve_update"),
    ("classification/binned_precision_recall_curve", "_binary_binned_precision_recall_curve_compute",
     "binary_binned_precision_recall_curve_compute"),
    ("classification/binned_auroc", "_binary_binned_auroc_compute", "binary_binned_auroc_compute"),
    ("tensor_utils", "_riemann_integral", "riemann_integral"),
    ("classification/binned_auprc", "_binary_binned_auprc_compute", "binary_binned_auprc_compute"),
]
# family -> where the source lives, which kernels, where the generated terms go; `partial`: kernels in which a branch
# on a configuration value that leaves the grammar becomes an `.unsupported "<reason>"` leaf instead of dropping the kernel
FAMILIES = {
    "C04": {"base": BASE, "kernels": KERNELS, "file": "Kernels.lean", "ns": "TE.Gen", "partial": set()},
    "C07": {"base": "torcheval/metrics/functional", "kernels": KERNELS_AGG, "file": "KernelsAgg.lean", "ns": "TE.Gen.Agg",
            "partial": {"auc_compute"}},
    "C08": {"base": "torcheval/metrics/functional", "kernels": KERNELS_RANK, "file": "KernelsRank.lean", "ns": "TE.Gen.Rank",
            "partial": set()},
    "C05": {"base": "torcheval/metrics/functional", "kernels": KERNELS_CURVE, "file": "KernelsCurve.lean", "ns": "TE.Gen.Curve",
            "partial": {"binary_auroc_compute_jit"}},
    "C06": {"base": "torcheval/metrics/functional", "kernels": KERNELS_BINNED, "file": "KernelsBinned.lean", "ns": "TE.Gen.Binned",
            "partial": set()},
}
EXC = {"ValueError": "value", "TypeError": "type", "RuntimeError": "runtime", "IndexError": "index", "AssertionError": "assertion",
       "NotImplementedError": "notImpl"}
FINFO = {("float64", "eps"): Fraction(1, 2 ** 52), ("float32", "eps"): Fraction(1, 2 ** 23), ("float", "eps"): Fraction(1, 2 ** 23),
         ("double", "eps"): Fraction(1, 2 ** 52)}

IDENT_METHODS = {"long", "float", "int", "double", "half", "type", "to", "clone", "detach", "contiguous", "cpu"}
IGNORED_KW = {"dtype", "device", "requires_grad"}
CMP = {"Lt": "lt", "Gt": "gt", "LtE": "le", "GtE": "ge", "Eq": "eq", "NotEq": "ne"}
TORCH_CMP = {"lt": "lt", "gt": "gt", "le": "le", "ge": "ge", "eq": "eq", "ne": "ne",
             "less": "lt", "greater": "gt", "less_equal": "le", "greater_equal": "ge", "not_equal": "ne"}
ARITH = {"Add": "add", "Sub": "sub", "Mult": "mul", "Div": "div"}
TORCH_ARITH = {"add": "add", "sub": "sub", "subtract": "sub", "mul": "mul", "multiply": "mul", "div": "div", "divide": "div",
               "true_divide": "div"}


# one torch operation, two spellings: functions `torch.f(x, …)` that `Exec.torch_call` knows and that exist as the method
# `x.f(…)`, and methods `x.m(…)` that `Exec.method` knows and that exist as the function `torch.m(x, …)`
FUNCTION_FORM = {"reciprocal", "square", "pow", "log10", "isnan", "nan_to_num", "argmax", "logical_and", "logical_or", "inner", "all"}
METHOD_FORM = {"squeeze", "unsqueeze", "sign", "abs", "clamp", "diff", "cumsum", "flip", "any", "repeat_interleave",
               "masked_scatter_", "clone", "detach"}


class Unsupported(Exception):
    pass


class SV:
    """symbolic value: `term` is a nested tuple, `kind` one of
       T  numeric tensor      B  boolean tensor     P  python configuration value (int / float / str / None / bool)
       R  result of an inlined kernel (may only be returned)
       tuple (items = list of SV)       pseudo (term[0] names it: zeros / vstack / size / coo / maxdim / shape / glob / dtype)
       D  dynamically typed parameter (`float | int | Tensor`, `Tensor | None`): accepted wherever a tensor or a number is
       O  opaque (must not reach the result)"""
    __slots__ = ("term", "kind", "items")

    def __init__(self, term, kind, items=None):
        self.term, self.kind, self.items = term, kind, items

    def is_tensor(self):
        return self.kind in ("T", "B", "U", "D")


def opaque(why):
    return SV(("opaque", why), "O")


def tuple_arity(t) -> int:
    """static length of the (right-nested) tuple a term evaluates to, through its branches (1: not known to be a tuple)"""
    if t[0] == "pair":
        return 1 + tuple_arity(t[2])
    if t[0] in ("ite", "iteT"):
        ns = {tuple_arity(b) for b in (t[2], t[3]) if b[0] not in ("raise_", "unsupported")}
        return ns.pop() if len(ns) == 1 else 1
    if t[0] == "assert":
        return tuple_arity(t[2])
    if t[0] == "scripted":
        return tuple_arity(t[1])
    return 1


def proj_fst(t):
    """first component of a (right-nested) tuple term: a literal pair is projected syntactically (`a, b = helper(..)` where the
    inlined helper ends in `return a, b` gives the terms the un-extracted code has)"""
    if t[0] == "pair":
        return t[1]
    if t[0] == "scripted" and t[1][0] == "pair":
        return ("scripted", t[1][1]) if mentions(t[1][1], ("first", "last")) else t[1][1]
    return ("fst", t)


def proj_snd(t):
    if t[0] == "pair":
        return t[2]
    if t[0] == "scripted" and t[1][0] == "pair":
        return ("scripted", t[1][2]) if mentions(t[1][2], ("first", "last")) else t[1][2]
    return ("snd", t)


def known_2d(t) -> bool:
    """is the term known to be a 2-d tensor from its head (the ranks of parameters are not tracked)?"""
    return isinstance(t, tuple) and t[0] in ("reshape2", "transpose", "flipRows", "cumsumRows")


def mentions(t, heads) -> bool:
    return isinstance(t, tuple) and (t[0] in heads or any(mentions(a, heads) for a in t[1:]))


def maybe_scripted(fn, t):
    """inside a `@torch.jit.script` function an out-of-range position (`x[-1]` of an empty tensor) is a RuntimeError"""
    scripted = any((dotted(d) or "") == "torch.jit.script" for d in fn.decorator_list)
    if scripted and mentions(t, ("first", "last")) and t[0] != "scripted":
        return ("scripted", t)
    return t


def returns_tuple(t) -> bool:
    """does the term of an inlined function end in a tuple (through its branches)?"""
    if t[0] == "pair":
        return True
    if t[0] in ("ite", "iteT"):
        return returns_tuple(t[2]) or returns_tuple(t[3])
    if t[0] == "assert":
        return returns_tuple(t[2])
    if t[0] == "scripted":
        return returns_tuple(t[1])
    return False


BOOL_HEADS = {"bool", "pyEq", "pyCmp", "pyNot", "isStr", "isInt", "isFloat", "isTensor", "isNone", "sameSize"}
DUAL = {"pyAnd": "pyOr", "pyOr": "pyAnd"}


def is_bool(t) -> bool:
    """does the term evaluate to a Python `bool` (or fail)?  (`eval`: these constructors answer `.bool _`)"""
    return t[0] in BOOL_HEADS or (t[0] in DUAL and is_bool(t[1]) and is_bool(t[2]))


def chain(op, t):
    """operands of a (nested) `and` / `or`: short-circuit evaluation is associative"""
    return chain(op, t[1]) + chain(op, t[2]) if t[0] == op else [t]


def mk_chain(op, items):
    t = items[-1]
    for x in reversed(items[:-1]):
        t = (op, x, t)
    return t


TYPE_TESTS = ("isFloat", "isInt", "isNone", "isStr", "isTensor")


def sort_type_tests(items):
    """adjacent type tests of ONE value inside an `and` / `or` (total, never failing) in a fixed order:
    `isinstance(w, (int, float))` = `isinstance(w, (float, int))`"""
    out, i = [], 0
    while i < len(items):
        j = i
        while j < len(items) and items[j][0] in TYPE_TESTS and items[j][1] == items[i][1]:
            j += 1
        if j > i + 1:
            out += sorted(items[i:j], key=lambda x: TYPE_TESTS.index(x[0]))
            i = j
        else:
            out.append(items[i])
            i += 1
    return out


def norm_cond(t):
    """normal form of a condition: nested `and` / `or` flattened (right-nested), `not not c` = `c`, and a conjunction /
    disjunction whose operands are ALL negated is the negation of the dual (`not a or not b` = `not (a and b)`), so
    that a condition and its negation differ by one leading `pyNot` (the `if` then swaps its branches)."""
    if t[0] == "pyNot":
        x = norm_cond(t[1])
        return x[1] if x[0] == "pyNot" else ("pyNot", x)
    if t[0] in DUAL:
        flat = []
        for x in chain(t[0], t):
            flat += chain(t[0], norm_cond(x))
        flat = sort_type_tests(flat)
        if all(x[0] == "pyNot" for x in flat):
            inner = []
            for x in flat:
                inner += chain(DUAL[t[0]], x[1])
            return ("pyNot", mk_chain(DUAL[t[0]], inner))
        return mk_chain(t[0], flat)
    return t


def isinstance_alternatives(test):
    """`isinstance(x, (A, B))` = `isinstance(x, A) or isinstance(x, B)`: the list of one-type tests, or None"""
    if isinstance(test, ast.Call) and isinstance(test.func, ast.Name) and test.func.id == "isinstance" and len(test.args) == 2 \
            and not test.keywords and isinstance(test.args[1], ast.Tuple) and test.args[1].elts:
        return [ast.Call(func=test.func, args=[test.args[0], ty], keywords=[]) for ty in test.args[1].elts]
    return None


def const_of(sv):
    """python constant of a literal term, else raises"""
    t = sv.term
    if sv.kind == "P" and t[0] in ("int", "flt", "str", "bool"):
        return t[1]
    if sv.kind == "P" and t[0] == "none":
        return None
    raise Unsupported("a constant is required here")


class Module:
    def __init__(self, name, base=BASE):
        self.name = name
        path = REPO / base / f"{name}.py"
        self.tree = ast.parse(path.read_text())
        self.funcs = {n.name: n for n in self.tree.body if isinstance(n, ast.FunctionDef)}
        # module-level aliases such as `norm = torch.nn.functional.normalize`
        self.alias = {}
        for n in self.tree.body:
            if isinstance(n, ast.Assign) and len(n.targets) == 1 and isinstance(n.targets[0], ast.Name):
                d = dotted(n.value)
                if d:
                    self.alias[n.targets[0].id] = d
            if isinstance(n, ast.ImportFrom) and n.module:
                for a in n.names:
                    self.alias[a.asname or a.name] = n.module + "." + a.name
            if isinstance(n, ast.Import):
                for a in n.names:
                    if a.asname and (a.name.startswith("torch.") or a.name.startswith("torcheval.")):
                        self.alias[a.asname] = a.name


def dotted(e):
    if isinstance(e, ast.Name):
        return e.id
    if isinstance(e, ast.Attribute):
        b = dotted(e.value)
        return b + "." + e.attr if b else None
    return None


class _Resume(ast.stmt):
    """synthetic last statement of a private helper inlined at STATEMENT level (`_require_weight(input, weight)`, a
    validation fragment that returns None): go on with the caller's remaining statements in the caller's environment"""
    _fields = ()

    def __init__(self, rest, env, depth, outer, ret_kinds):
        super().__init__()
        self.rest, self.env, self.depth, self.outer, self.ret_kinds = rest, env, depth, outer, ret_kinds


class Exec:
    def __init__(self, mod: Module, kernel_names, partial=False, known=None):
        self.mod = mod
        self.known = known or {}                  # dotted name of a function of ANOTHER module -> its (translated) row
        self.kernel_names = kernel_names          # private helpers of this module that may be inlined
        self.depth = 0
        self.partial = partial
        self.ret_kinds = set()                    # kinds of the values returned by the function being executed
        self.resume = None                        # innermost statement-level inlining in progress (a `_Resume`)

    # ------------------------------------------------------------------ refinement of dynamically typed parameters
    def refine(self, test, env, truth):
        """environment in which `test` is known to be `truth`: `isinstance(w, torch.Tensor)`, `isinstance(w, float)`,
        `w is None`, `w is not None`, conjunctions (when true) and disjunctions (when false) of these"""
        alts = isinstance_alternatives(test)
        if alts is not None:
            test = alts[0] if len(alts) == 1 else ast.BoolOp(op=ast.Or(), values=alts)
        if isinstance(test, ast.BoolOp):
            if (isinstance(test.op, ast.And) and truth) or (isinstance(test.op, ast.Or) and not truth):
                for v in test.values:
                    env = self.refine(v, env, truth)
            elif isinstance(test.op, ast.Or) and truth:
                # `isinstance(w, float) or isinstance(w, int)`: every disjunct makes the same parameter a number
                envs = [self.refine(v, env, True) for v in test.values]
                names = [[k for k in e_ if e_[k] is not env.get(k)] for e_ in envs]
                if all(len(n) == 1 for n in names) and len({n[0] for n in names}) == 1 \
                        and len({envs[i][names[i][0]].kind for i in range(len(envs))}) == 1:
                    return envs[0]
            return env
        if isinstance(test, ast.UnaryOp) and isinstance(test.op, ast.Not):
            return self.refine(test.operand, env, not truth)
        name, kind = None, None
        if isinstance(test, ast.Call) and isinstance(test.func, ast.Name) and test.func.id == "isinstance" and len(test.args) == 2 \
                and isinstance(test.args[0], ast.Name):
            ty = dotted(test.args[1])
            if ty in ("torch.Tensor", "Tensor"):
                name, kind = test.args[0].id, ("T" if truth else None)
            elif ty in ("float", "int") and truth:
                name, kind = test.args[0].id, "P"
        if isinstance(test, ast.Compare) and len(test.ops) == 1 and isinstance(test.left, ast.Name) \
                and isinstance(test.comparators[0], ast.Constant) and test.comparators[0].value is None:
            isnone = isinstance(test.ops[0], (ast.Is, ast.Eq))
            if isinstance(test.ops[0], (ast.Is, ast.Eq, ast.IsNot, ast.NotEq)):
                name, kind = test.left.id, ("P" if isnone == truth else "T")
        if name is not None and kind is not None and name in env and env[name].kind == "D":
            env = dict(env)
            env[name] = SV(env[name].term, kind)
        return env

    # ------------------------------------------------------------------ blocks (continuation passing)
    def block(self, stmts, env):
        """term of the value returned by executing `stmts` in `env`"""
        if not stmts:
            raise Unsupported("a path ends without `return`")
        s, rest = stmts[0], stmts[1:]
        if isinstance(s, _Resume) or (isinstance(s, ast.Return) and self.resume is not None and self.resume.depth == self.depth - 1
                                      and (s.value is None or (isinstance(s.value, ast.Constant) and s.value.value is None))):
            # the end (or a bare `return`) of a helper inlined at statement level: back to the caller
            r = s if isinstance(s, _Resume) else self.resume
            saved = (self.resume, self.depth, self.ret_kinds)
            self.resume, self.depth, self.ret_kinds = r.outer, r.depth, r.ret_kinds
            try:
                return self.block(r.rest, r.env)
            finally:
                self.resume, self.depth, self.ret_kinds = saved
        if isinstance(s, ast.Expr):
            if isinstance(s.value, ast.Constant):
                return self.block(rest, env)                      # docstring
            if isinstance(s.value, ast.Call):
                d = dotted(s.value.func) or ""
                if d.endswith("_input_check") or d.endswith("_param_check") or d.startswith("logging.") or d.startswith("warnings."):
                    return self.block(rest, env)
                f = s.value.func
                if isinstance(f, ast.Attribute) and isinstance(f.value, ast.Name) and f.attr.endswith("_") and f.value.id in env \
                        and f.value.id not in ("torch",):
                    # an in-place method on a local (`counts.scatter_(...)` returns self): the local now holds the result
                    env = dict(env)
                    env[f.value.id] = self.ev(s.value, env)
                    return self.block(rest, env)
                if isinstance(f, ast.Name) and f.id in self.mod.funcs and f.id not in env:
                    # a private helper called for its effect (it raises or returns None): its statements run here
                    return self.inline(f.id, s.value, env, rest=rest)
            raise Unsupported("expression statement " + ast.unparse(s)[:60])
        if isinstance(s, ast.Return):
            if s.value is None:
                raise Unsupported("bare return")
            if self.resume is not None and self.resume.depth == self.depth - 1:
                raise Unsupported("a helper called as a statement returns a value")
            return self.result_term(self.ev(s.value, env))
        if isinstance(s, ast.Raise):
            exc = s.exc.func if isinstance(s.exc, ast.Call) else s.exc
            name = dotted(exc) if exc is not None else None
            if name not in EXC:
                raise Unsupported("raise " + str(name))
            return ("raise_", EXC[name])
        if isinstance(s, ast.Assign) and len(s.targets) == 1 and isinstance(s.targets[0], ast.Subscript) \
                and isinstance(s.targets[0].value, ast.Name) and s.targets[0].value.id in env:
            # `a[mask] = <number>`
            tgt = s.targets[0]
            a, m, v = env[tgt.value.id], self.ev(tgt.slice, env), self.ev(s.value, env)
            if not (a.kind == "T" and m.kind == "B" and v.kind == "P" and v.term[0] in ("int", "flt")):
                raise Unsupported("indexed assignment other than `tensor[mask] = <number>`")
            env = dict(env)
            env[tgt.value.id] = SV(("maskedFill", a.term, m.term, v.term), "T")
            return self.block(rest, env)
        if isinstance(s, (ast.Assign, ast.AnnAssign)):
            if isinstance(s, ast.AnnAssign):
                if s.value is None:
                    return self.block(rest, env)
                targets = [s.target]
            else:
                targets = s.targets
            v = self.ev(s.value, env)
            env = dict(env)
            for t in targets:
                self.bind(t, v, env)
            return self.block(rest, env)
        if isinstance(s, ast.Assert):
            c = self.ev(s.test, env)
            if c.kind != "P":
                raise Unsupported("assert on a non-configuration value")
            return ("assert", c.term, self.block(rest, env))
        if isinstance(s, ast.If) and isinstance(s.test, ast.UnaryOp) and isinstance(s.test.op, ast.Not):
            # `if not c: A else: B` is `if c: B else: A` (also for one-element tensors, where `not` has no term)
            return self.block([ast.If(test=s.test.operand, body=list(s.orelse) or [ast.Pass()], orelse=list(s.body))] + rest, env)
        if isinstance(s, ast.If):
            c = self.ev(s.test, env)
            if self.partial and c.kind == "P":
                try:
                    a = self.block(list(s.body) + rest, self.refine(s.test, env, True))
                except Unsupported as u:
                    a = ("unsupported", str(u))
                try:
                    b = self.block(list(s.orelse) + rest, self.refine(s.test, env, False))
                except Unsupported as u:
                    b = ("unsupported", str(u))
            else:
                a = self.block(list(s.body) + rest, self.refine(s.test, env, True))
                b = self.block(list(s.orelse) + rest, self.refine(s.test, env, False))
            if a == b:
                return a
            if c.kind == "P":
                return self.ite(norm_cond(c.term), a, b)
            if c.is_tensor():
                return ("iteT", c.term, a, b)
            raise Unsupported("branch on " + (c.term[1] if c.kind == "O" else c.kind) + " with different outcomes")
        if isinstance(s, ast.Pass):
            return self.block(rest, env)
        if isinstance(s, ast.For):
            env = dict(env)
            name, v = self.collect_loop(s, env)
            env[name] = v
            return self.block(rest, env)
        if isinstance(s, ast.While):
            raise Unsupported("python-level loop")
        raise Unsupported("statement " + type(s).__name__)

    @staticmethod
    def ite(c, a, b):
        """`if c: a else: b` on a normalised condition: a negated condition swaps the branches; a Boolean-valued `if`
        whose one branch is a literal is the `or` / `and` it spells (`if c: return True` / `return d` = `c or d`)"""
        if c[0] == "pyNot":
            c, a, b = c[1], b, a
        if is_bool(c) and is_bool(a) and is_bool(b) and (a[0] == "bool" or b[0] == "bool"):
            if a[0] == "bool":
                t = ("pyOr", c, b) if a[1] else ("pyAnd", ("pyNot", c), b)
            else:
                t = ("pyOr", ("pyNot", c), a) if b[1] else ("pyAnd", c, a)
            return norm_cond(t)
        return ("ite", c, a, b)

    def bind(self, target, v, env):
        if isinstance(target, ast.Name):
            env[target.id] = v
            return
        if isinstance(target, (ast.Tuple, ast.List)):
            if v.kind == "R" and len(target.elts) >= 2:
                # projections of the (right-nested) tuple an inlined kernel returns
                n, t = len(target.elts), v.term
                items = []
                for i in range(n):
                    items.append(SV(proj_fst(t) if i < n - 1 else t, "T"))
                    t = proj_snd(t)
                v = SV(("tuple",), "tuple", items)
            if v.kind != "tuple" or len(v.items) != len(target.elts):
                raise Unsupported("tuple assignment from a non-tuple")
            for t, x in zip(target.elts, v.items):
                self.bind(t, x, env)
            return
        raise Unsupported("assignment target " + type(target).__name__)

    def result_term(self, v):
        if v.kind == "tuple":
            items = [self.result_term(x) for x in v.items]
            if len(items) < 2:
                raise Unsupported("tuple of length < 2 returned")
            # `a, b, c = helper(..); return a, b, c` is `return helper(..)`: all the projections, in order, of one term that is
            # statically a tuple of this length
            root = items[-1]
            for _ in range(len(items) - 1):
                root = root[1] if root[0] == "snd" else None
                if root is None:
                    break
            if root is not None and tuple_arity(root) == len(items):
                t, ok = root, True
                for i, x in enumerate(items):
                    ok = ok and x == (("fst", t) if i < len(items) - 1 else t)
                    t = ("snd", t)
                if ok:
                    return root
            t = items[-1]
            for x in reversed(items[:-1]):
                t = ("pair", x, t)
            return t
        if v.kind in ("T", "B", "R", "U"):
            self.ret_kinds.add("T")
            return v.term
        if v.kind == "P" and self.depth > 0:
            # a private helper that returns a configuration value (`-> bool`): usable where the call stands
            self.ret_kinds.add("P")
            return v.term
        raise Unsupported("returns a value of kind " + v.kind + (" (" + str(v.term[1]) + ")" if v.kind == "O" else ""))

    # ------------------------------------------------------------------ expressions
    def ev(self, e, env) -> SV:
        if isinstance(e, ast.Constant):
            return self.const(e.value)
        if isinstance(e, ast.Name):
            if e.id in env:
                return env[e.id]
            if e.id in self.mod.alias:
                return SV(("glob", self.mod.alias[e.id]), "pseudo")
            if e.id in self.mod.funcs or e.id in ("torch", "logging", "isinstance", "len", "int", "float", "str", "bool", "math"):
                return SV(("glob", e.id), "pseudo")
            # a local that is not bound on this path (Python raises UnboundLocalError when it is used; `eval` fails on
            # the unbound variable): reachable only for configurations the earlier branches exclude
            return SV(("var", "<unbound " + e.id + ">"), "U")
        if isinstance(e, ast.Tuple):
            return SV(("tuple",), "tuple", [self.ev(x, env) for x in e.elts])
        if isinstance(e, ast.Attribute):
            return self.attr(e, env)
        if isinstance(e, ast.Compare):
            return self.compare(e, env)
        if isinstance(e, ast.BoolOp):
            vals, env_i = [], env
            for v in e.values:
                vals.append(self.ev(v, env_i))
                env_i = self.refine(v, env_i, isinstance(e.op, ast.And))
            if all(v.kind == "P" for v in vals):
                op = "pyAnd" if isinstance(e.op, ast.And) else "pyOr"
                items = []
                for v in vals:
                    items += chain(op, v.term)            # `(a or b) or c` = `a or (b or c)`
                return SV(mk_chain(op, items), "P")
            return opaque("`and`/`or` mixing configuration and tensor values")
        if isinstance(e, ast.UnaryOp):
            v = self.ev(e.operand, env)
            if isinstance(e.op, ast.Invert):
                if v.kind == "B":
                    return SV(("lnot", v.term), "B")
                raise Unsupported("`~` on a non-boolean tensor")
            if isinstance(e.op, ast.Not):
                if v.kind == "P":
                    return SV(("pyNot", v.term), "P")
                return opaque("`not` on a tensor")
            if isinstance(e.op, ast.USub) and v.kind == "P" and v.term[0] in ("int", "flt"):
                return self.const(-v.term[1])
            if isinstance(e.op, ast.USub) and v.kind == "T":
                return SV(("neg", v.term), "T")
            raise Unsupported("unary " + type(e.op).__name__)
        if isinstance(e, ast.BinOp):
            return self.binop(e, env)
        if isinstance(e, ast.Subscript):
            return self.subscript(e, env)
        if isinstance(e, ast.Call):
            return self.call(e, env)
        if isinstance(e, ast.JoinedStr):
            return opaque("f-string")
        if isinstance(e, ast.IfExp):
            if isinstance(e.test, ast.UnaryOp) and isinstance(e.test.op, ast.Not):
                return self.ev(ast.IfExp(test=e.test.operand, body=e.orelse, orelse=e.body), env)
            c = self.ev(e.test, env)
            a, b = self.ev(e.body, self.refine(e.test, env, True)), self.ev(e.orelse, self.refine(e.test, env, False))
            if c.kind == "O":
                # a choice on a value that is not modelled (`torch.float64 if input.dtype == torch.float64 else None`)
                return a if a.term == b.term and a.kind == b.kind else opaque("conditional expression on " + str(c.term[1]))
            if c.kind != "P" or not all(v.kind in ("T", "B", "P") for v in (a, b)):
                raise Unsupported("conditional expression on other than a configuration value")
            if a.term == b.term:
                return a
            t = self.ite(norm_cond(c.term), a.term, b.term)
            return SV(t, "T" if "T" in (a.kind, b.kind) else a.kind)
        if isinstance(e, ast.List):
            return SV(("list",), "tuple", [self.ev(x, env) for x in e.elts])
        if isinstance(e, ast.ListComp) and len(e.generators) == 1 and not e.generators[0].ifs and not e.generators[0].is_async:
            return self.range_loop(e.generators[0].target, e.generators[0].iter, [], e.elt, env)
        if isinstance(e, (ast.ListComp, ast.GeneratorExp, ast.SetComp, ast.DictComp)):
            raise Unsupported("python-level loop")                 # a comprehension is the loop it abbreviates
        raise Unsupported("expression " + type(e).__name__)

    @staticmethod
    def const(v):
        if v is None:
            return SV(("none",), "P")
        if isinstance(v, bool):
            return SV(("bool", v), "P")
        if isinstance(v, int):
            return SV(("int", v), "P")
        if isinstance(v, float):
            return SV(("flt", Fraction(v)), "P")
        if isinstance(v, Fraction):
            return SV(("flt", v), "P")
        if isinstance(v, str):
            return SV(("str", v), "P")
        raise Unsupported("constant " + repr(v))

    def attr(self, e, env):
        d = dotted(e)
        if d and d.split(".")[0] in ("torch", "logging") and d.split(".")[0] not in env:
            return SV(("glob", d), "pseudo")
        base = self.ev(e.value, env)
        if base.is_tensor():
            if e.attr == "ndim":
                return SV(("ndim", base.term), "P")
            if e.attr == "shape":
                return SV(("shape", base.term), "pseudo")
            if e.attr == "dtype":
                return opaque("dtype")
            if e.attr == "device":
                return opaque("device")
            if e.attr == "T":
                if not known_2d(base.term):
                    raise Unsupported("transpose of a tensor that is not known to be 2-d")
                return SV(("transpose", base.term), base.kind)
        if base.kind == "pseudo" and base.term[0] == "glob":
            return SV(("glob", base.term[1] + "." + e.attr), "pseudo")
        if base.kind == "pseudo" and base.term[0] == "finfo":
            if base.term[1] is None:
                if e.attr in ("tiny", "eps"):
                    # the dtype is not modelled: the constant is a PARAMETER of the term (bound by the theorem / the driver request)
                    return SV(("var", "finfo." + e.attr), "P")
            elif (base.term[1], e.attr) in FINFO:
                return self.const(FINFO[(base.term[1], e.attr)])
            raise Unsupported("torch.finfo(...)." + e.attr)
        if base.kind == "pseudo" and base.term[0] == "topk" and e.attr in ("indices", "values"):
            raise Unsupported("torch.topk (tie order unspecified)")
        raise Unsupported("attribute ." + e.attr)

    def compare(self, e, env):
        if len(e.ops) != 1:
            raise Unsupported("chained comparison")
        a, b = self.ev(e.left, env), self.ev(e.comparators[0], env)
        op = type(e.ops[0]).__name__
        if a.kind == "O" or b.kind == "O":
            return opaque("comparison of " + (a.term[1] if a.kind == "O" else b.term[1]))
        if a.kind == "D" and b.kind == "P" and b.term == ("none",) and op in ("Is", "Eq", "IsNot", "NotEq"):
            t = ("isNone", a.term)
            return SV(t if op in ("Is", "Eq") else ("pyNot", t), "P")
        if a.kind == "pseudo" and b.kind == "pseudo" and a.term[0] == "sizeof" and b.term[0] == "sizeof" and op in ("Eq", "NotEq"):
            t = ("sameSize", a.term[1], b.term[1])
            return SV(t if op == "Eq" else ("pyNot", t), "P")
        if a.is_tensor() or b.is_tensor():
            if op not in CMP:
                raise Unsupported("comparison " + op + " on tensors")
            self.need_operand(a), self.need_operand(b)
            return SV(("cmp", CMP[op], a.term, b.term), "B")
        if a.kind == "P" and op in ("In", "NotIn") and b.kind == "tuple" and b.items and all(x.kind == "P" for x in b.items):
            t = ("pyEq", a.term, b.items[-1].term)
            for x in reversed(b.items[:-1]):
                t = ("pyOr", ("pyEq", a.term, x.term), t)
            return SV(t if op == "In" else ("pyNot", t), "P")
        if a.kind == "P" and b.kind == "P":
            if op in ("Eq", "Is"):
                return SV(("pyEq", a.term, b.term), "P")
            if op in ("NotEq", "IsNot"):
                return SV(("pyNot", ("pyEq", a.term, b.term)), "P")
            if op in CMP:
                return SV(("pyCmp", CMP[op], a.term, b.term), "P")
            raise Unsupported("comparison " + op + " on configuration values")
        raise Unsupported("comparison " + op + " of " + a.kind + " and " + b.kind)

    @staticmethod
    def need_operand(v):
        if v.kind not in ("T", "B", "P", "U", "D"):
            raise Unsupported("operand of kind " + v.kind)
        if v.kind == "P" and v.term[0] in ("str", "none"):
            raise Unsupported("string operand of a tensor operation")

    def binop(self, e, env):
        a, b = self.ev(e.left, env), self.ev(e.right, env)
        op = type(e.op).__name__
        if a.kind == "O" or b.kind == "O":
            return opaque("arithmetic on an opaque value")
        if not (a.is_tensor() or b.is_tensor()):
            if a.kind == "P" and b.kind == "P" and op in ARITH:
                # Python numbers: evaluated as a 0-d value (`eval` has one arithmetic)
                self.need_operand(a), self.need_operand(b)
                return SV(("arith", ARITH[op], a.term, b.term), "P")
            raise Unsupported("python-level arithmetic " + op)
        self.need_operand(a), self.need_operand(b)
        if op in ARITH:
            return SV(("arith", ARITH[op], a.term, b.term), "T")
        if op == "BitAnd":
            if a.kind == "B" and b.kind == "B":
                return SV(("land", a.term, b.term), "B")
            if a.kind in ("T", "B") and b.kind in ("T", "B"):
                return SV(("band", a.term, b.term), "T")
        if op == "BitOr" and a.kind == "B" and b.kind == "B":
            return SV(("lor", a.term, b.term), "B")
        raise Unsupported("operator " + op + " on " + a.kind + ", " + b.kind)

    def subscript(self, e, env):
        base = self.ev(e.value, env)
        if base.kind == "O":
            return opaque("index into an opaque value")
        if base.kind == "pseudo" and base.term[0] == "shape":
            i = self.ev(e.slice, env)
            if i.kind == "P" and i.term == ("int", 0):
                return SV(("shape0", base.term[1]), "P")
            raise Unsupported("shape[" + ast.unparse(e.slice) + "]")
        if base.kind == "pseudo" and base.term[0] == "maxdim1":
            i = self.ev(e.slice, env)
            if i.kind == "P" and i.term == ("int", 0):
                return SV(("maxDim1", base.term[1]), "T")
            raise Unsupported("index of max(dim=1)")
        if base.kind == "R" and isinstance(base.items, int) and base.items >= 2:
            # `curve[1]` of the tuple an inlined / referenced kernel returns = the name `p, r, t = curve` would bind
            i = self.ev(e.slice, env)
            n = base.items
            if i.kind == "P" and i.term[0] == "int" and -n <= i.term[1] < n:
                k, t = i.term[1] % n, base.term
                for _ in range(k):
                    t = proj_snd(t)
                return SV(proj_fst(t) if k < n - 1 else t, "T")
            raise Unsupported("tuple index")
        if base.kind == "tuple":
            i = self.ev(e.slice, env)
            if i.kind == "P" and i.term[0] == "int" and -len(base.items) <= i.term[1] < len(base.items):
                return base.items[i.term[1]]
            raise Unsupported("tuple index")
        if base.is_tensor() and isinstance(e.slice, ast.Tuple) and len(e.slice.elts) == 2 and isinstance(e.slice.elts[1], ast.Slice) \
                and e.slice.elts[1].lower is None and e.slice.elts[1].upper is None and e.slice.elts[1].step is None \
                and not isinstance(e.slice.elts[0], ast.Slice):
            i = self.ev(e.slice.elts[0], env)
            if i.kind == "P" and i.term[0] == "var" and i.term[1].startswith("$i"):
                return SV(("rowDyn", base.term, i.term), base.kind)            # `a[i, :]` with a loop index
        if base.is_tensor() and isinstance(e.slice, ast.Tuple):
            raise Unsupported("multi-dimensional index " + ast.unparse(e.slice))
        if base.is_tensor() and isinstance(e.slice, ast.Slice):
            lo = self.ev(e.slice.lower, env) if e.slice.lower is not None else None
            hi = self.ev(e.slice.upper, env) if e.slice.upper is not None else None
            if e.slice.step is None and lo is not None and hi is None and lo.kind == "P" and lo.term == ("int", 1):
                return SV(("dropFirst", base.term), base.kind)
            if e.slice.step is None and lo is None and hi is not None and hi.kind == "P" and hi.term == ("int", -1):
                return SV(("dropLast", base.term), base.kind)
            raise Unsupported("slice other than [1:] / [:-1]")
        if base.is_tensor():
            i = self.ev(e.slice, env)
            if i.kind in ("B", "U"):
                return SV(("maskSel", base.term, i.term), base.kind)
            if i.kind == "P" and i.term[0] == "int" and i.term[1] >= 0 and known_2d(base.term):
                return SV(("rowAt", base.term, ("lit", i.term[1])), base.kind)
            if i.kind == "P" and i.term in (("int", 0), ("int", -1)):
                return SV(("first" if i.term[1] == 0 else "last", base.term), base.kind)
            if i.kind == "T":
                # `target[indices]` of 1-d tensors = gather
                return SV(("gatherLast", base.term, i.term), base.kind)
            raise Unsupported("tensor index that is not a boolean mask, 0 / -1 or an index tensor")
        raise Unsupported("subscript of " + base.kind)

    # ------------------------------------------------------------------ calls
    def args_of(self, e, env, names, ignore=IGNORED_KW, required=None):
        """positional + keyword arguments bound to `names` (SV or None)"""
        if any(k.arg is None for k in e.keywords) or any(isinstance(a, ast.Starred) for a in e.args):
            raise Unsupported("* / ** arguments")
        if len(e.args) > len(names):
            raise Unsupported("too many positional arguments in " + ast.unparse(e.func))
        out = {n: None for n in names}
        for n, a in zip(names, e.args):
            out[n] = self.ev(a, env)
        for k in e.keywords:
            if k.arg in ignore and k.arg not in names:
                continue
            if k.arg not in names:
                raise Unsupported("keyword " + k.arg + " of " + ast.unparse(e.func))
            if out[k.arg] is not None:
                raise Unsupported("argument given twice")
            out[k.arg] = self.ev(k.value, env)
        for n in (required if required is not None else names):
            if out[n] is None:
                raise Unsupported("missing argument " + n + " of " + ast.unparse(e.func))
        return out

    @staticmethod
    def int_const(v, allowed=None):
        if v is None or v.kind != "P" or v.term[0] != "int":
            raise Unsupported("a literal integer is required")
        if allowed is not None and v.term[1] not in allowed:
            raise Unsupported("dim=" + str(v.term[1]))
        return v.term[1]

    def tensor_arg(self, v):
        if v is None or not v.is_tensor():
            raise Unsupported("a tensor argument is required")
        return v

    def call(self, e, env):
        f = e.func
        if isinstance(f, ast.Name):
            alts = isinstance_alternatives(e)
            if alts is not None:
                return self.ev(alts[0] if len(alts) == 1 else ast.BoolOp(op=ast.Or(), values=alts), env)
            if f.id == "isinstance" and len(e.args) == 2 and not e.keywords:
                x = self.ev(e.args[0], env)
                ty = dotted(e.args[1])
                if x.kind == "P" and ty == "str":
                    return SV(("isStr", x.term), "P")
                if x.kind == "P" and ty == "int":
                    return SV(("isInt", x.term), "P")
                if x.kind in ("P", "D", "T") and ty in ("int", "float", "str", "torch.Tensor", "Tensor"):
                    return SV(({"int": "isInt", "float": "isFloat", "str": "isStr"}.get(ty, "isTensor"), x.term), "P")
                raise Unsupported("isinstance(" + ast.unparse(e.args[1]) + ")")
            if f.id == "len" and len(e.args) == 1 and not e.keywords:
                x = self.ev(e.args[0], env)
                if x.kind == "pseudo" and x.term[0] in ("shape", "sizeof"):
                    return SV(("ndim", x.term[1]), "P")
                if x.kind in ("T", "B"):
                    return SV(("shape0", x.term), "P")           # `len(t)` = `t.shape[0]`
                raise Unsupported("len() of other than a shape or a tensor")
            if f.id == "float" and len(e.args) == 1 and not e.keywords:
                x = self.ev(e.args[0], env)
                if x.kind in ("P", "D"):
                    return x                                  # Python numbers are exact rationals here
                raise Unsupported("float() of a value of kind " + x.kind)
            if f.id in self.mod.alias and self.mod.alias[f.id] in self.known and f.id not in env:
                return self.call_kernel(self.known[self.mod.alias[f.id]], e, env)
            if f.id in self.mod.alias:
                return self.torch_call(self.mod.alias[f.id], e, env)
            if f.id in self.mod.funcs:
                return self.inline(f.id, e, env)
            raise Unsupported("call of " + f.id)
        if isinstance(f, ast.Attribute):
            d = dotted(f)
            if d and d.split(".")[0] in self.mod.alias and d.split(".")[0] not in env \
                    and self.mod.alias[d.split(".")[0]] + "." + d.split(".", 1)[1] in self.known:
                # `import … as prc` / `from … import precision_recall_curve as prc`, then `prc._kernel(..)`
                return self.call_kernel(self.known[self.mod.alias[d.split(".")[0]] + "." + d.split(".", 1)[1]], e, env)
            if d and d.split(".")[0] == "torch" and "torch" not in env:
                return self.torch_call(d, e, env)
            if d and d.split(".")[0] in ("logging", "warnings"):
                return opaque("logging")
            if d and d.split(".")[0] in self.mod.alias and d.split(".")[0] not in env \
                    and self.mod.alias[d.split(".")[0]].startswith("torch."):
                return self.torch_call(self.mod.alias[d.split(".")[0]] + "." + d.split(".", 1)[1], e, env)
            recv = self.ev(f.value, env)
            return self.method(recv, f.attr, e, env)
        raise Unsupported("call target")

    # ------------------------------------------------------------------ Python-level loops that collect 0-d tensors
    def range_loop(self, target, it, stmts, elt, env):
        """`[elt for i in range(n)]` (after the straight-line assignments `stmts`): one 0-d tensor per index, collected by
        `torch.tensor(..)`.  The bound index has a canonical name (the source name is immaterial)."""
        if not (isinstance(target, ast.Name) and isinstance(it, ast.Call) and isinstance(it.func, ast.Name) and it.func.id == "range"
                and "range" not in env and len(it.args) == 1 and not it.keywords):
            raise Unsupported("python-level loop")
        n = self.ev(it.args[0], env)
        if n.kind != "P":
            raise Unsupported("python-level loop")
        self.loop_depth = getattr(self, "loop_depth", 0) + 1
        try:
            iname = "$i" + str(self.loop_depth - 1)
            inner = dict(env)
            inner[target.id] = SV(("var", iname), "P")
            for st in stmts:
                if not (isinstance(st, ast.Assign) and len(st.targets) == 1):
                    raise Unsupported("python-level loop")
                self.bind(st.targets[0], self.ev(st.value, inner), inner)
            v = self.ev(elt, inner)
            if v.kind != "T":
                raise Unsupported("python-level loop")
            return SV(("mapRange", n.term, ("pname", iname), v.term), "LT")
        finally:
            self.loop_depth -= 1

    def collect_loop(self, s, env):
        """`for i in range(n): <assignments>; acc.append(elt)` with `acc = []` before it = `acc = [elt for i in range(n)]`"""
        last = s.body[-1] if s.body else None
        if s.orelse or not (isinstance(last, ast.Expr) and isinstance(last.value, ast.Call) and isinstance(last.value.func, ast.Attribute)
                            and last.value.func.attr == "append" and isinstance(last.value.func.value, ast.Name)
                            and len(last.value.args) == 1 and not last.value.keywords):
            raise Unsupported("python-level loop")
        acc = last.value.func.value.id
        if not (acc in env and env[acc].kind == "tuple" and env[acc].term == ("list",) and not env[acc].items):
            raise Unsupported("python-level loop")
        return acc, self.range_loop(s.target, s.iter, s.body[:-1], last.value.args[0], env)

    def call_kernel(self, row, e, env):
        """call of a kernel of ANOTHER module that this family's table translates (earlier row): not inlined but referenced —
        `.callN p₁ a₁ … k_<id>` evaluates the arguments here and the callee's generated term on exactly its parameters"""
        if row["term"] is None:
            raise Unsupported("call of " + row["func"] + " (untranslated: " + str(row["reason"]) + ")")
        if row["partial"]:
            raise Unsupported("call of " + row["func"] + " (partially translated)")
        params = row["params"]
        if not 1 <= len(params) <= 4:
            raise Unsupported("call of " + row["func"] + " with " + str(len(params)) + " parameters")
        bound = self.args_of(e, env, params, ignore=set(), required=[])
        t = ["call" + str(len(params))]
        for p in params:
            v = bound[p]
            if v is None and p in row["defaults"]:
                v = self.const(row["defaults"][p])
            if v is None:
                raise Unsupported("missing argument " + p + " of " + row["func"])
            if v.kind not in ("T", "B", "P", "D"):
                raise Unsupported("argument of kind " + v.kind + " passed to " + row["func"])
            t += [("pname", p), v.term]
        t.append(("kref", row["id"]))
        return SV(tuple(t), "R", tuple_arity(row["term"])) if returns_tuple(row["term"]) else SV(tuple(t), "T")

    def inline(self, name, e, env, rest=None):
        if not name.startswith("_") or name.endswith("_input_check") or name.endswith("_param_check"):
            raise Unsupported("call of " + name + " (not a private helper of this module)")
        if self.depth >= 3:
            raise Unsupported("inlining depth")
        fn = self.mod.funcs[name]
        params = [a.arg for a in fn.args.args]
        if fn.args.vararg or fn.args.kwarg or fn.args.posonlyargs:
            raise Unsupported("signature of " + name)
        if len(e.args) > len(params):
            raise Unsupported("too many positional arguments in the call of " + name)
        kwonly = [a.arg for a in fn.args.kwonlyargs]
        bound = self.args_of(e, env, params + kwonly, ignore=set(), required=[])
        for p, d in zip(params[len(params) - len(fn.args.defaults):], fn.args.defaults):
            if bound[p] is None:
                bound[p] = self.ev(d, {})
        for p, d in zip(kwonly, fn.args.kw_defaults):
            if bound[p] is None and d is not None:
                bound[p] = self.ev(d, {})
        params = params + kwonly
        for p in params:
            if bound[p] is None:
                raise Unsupported("missing argument " + p + " of " + name)
            if bound[p].kind not in ("T", "B", "P", "D", "O"):
                # (an opaque value — a device, a dtype — may be handed on: it still must not reach the result)
                raise Unsupported("argument of kind " + bound[p].kind + " passed to " + name)
        if rest is not None:
            # statement level: the term of the whole continuation (helper body, then the caller's remaining statements)
            if any((dotted(d) or "") == "torch.jit.script" for d in fn.decorator_list):
                raise Unsupported("scripted helper called as a statement")
            saved = (self.resume, self.depth, self.ret_kinds)
            self.resume = _Resume(rest, env, self.depth, self.resume, self.ret_kinds)
            self.depth, self.ret_kinds = self.depth + 1, set()
            try:
                return self.block(list(fn.body) + [self.resume], bound)
            finally:
                self.resume, self.depth, self.ret_kinds = saved
        self.depth += 1
        outer, self.ret_kinds = self.ret_kinds, set()
        outer_resume, self.resume = self.resume, None
        try:
            t = maybe_scripted(fn, self.block(list(fn.body), bound))
            kinds = self.ret_kinds
        finally:
            self.depth -= 1
            self.ret_kinds = outer
            self.resume = outer_resume
        if kinds == {"P"} and not returns_tuple(t):
            return SV(t, "P")
        return SV(t, "R", tuple_arity(t)) if returns_tuple(t) else SV(t, "T")

    def torch_call(self, d, e, env):
        name = d.split(".", 1)[1] if d.startswith("torch.") else d
        if name == "where":
            a = self.args_of(e, env, ["condition", "input", "other"])
            c = self.tensor_arg(a["condition"])
            x, y = a["input"], a["other"]
            if x.kind == "P" and x.term[0] in ("int", "flt") and y.kind == "T":
                return SV(("whereT", c.term, x.term, y.term), "T")
            for v in (x, y):
                if v.kind != "P" or v.term[0] not in ("int", "flt"):
                    raise Unsupported("torch.where with a non-literal branch value")
            return SV(("where_", c.term, x.term, y.term), "T")
        if name == "argmax":
            a = self.args_of(e, env, ["input", "dim"])
            self.int_const(a["dim"], {1})
            return SV(("argmax1", self.tensor_arg(a["input"]).term), "T")
        if name == "gather":
            a = self.args_of(e, env, ["input", "dim", "index"])
            self.int_const(a["dim"], {-1})
            return SV(("gatherLast", self.tensor_arg(a["input"]).term, self.tensor_arg(a["index"]).term), "T")
        if name in TORCH_CMP:
            a = self.args_of(e, env, ["input", "other"])
            self.need_operand(a["input"]), self.need_operand(a["other"])
            if not (a["input"].is_tensor() or a["other"].is_tensor()):
                raise Unsupported("torch." + name + " without a tensor")
            return SV(("cmp", TORCH_CMP[name], a["input"].term, a["other"].term), "B")
        if name in TORCH_ARITH:
            a = self.args_of(e, env, ["input", "other"])
            self.need_operand(a["input"]), self.need_operand(a["other"])
            if not (a["input"].is_tensor() or a["other"].is_tensor()):
                raise Unsupported("torch." + name + " without a tensor")
            return SV(("arith", TORCH_ARITH[name], a["input"].term, a["other"].term), "T")
        if name == "tensor":
            a = self.args_of(e, env, ["data"])
            v = a["data"]
            if v.kind == "P" and v.term[0] not in ("str", "none"):
                return SV(("tensorOf", v.term), "T")
            if v.kind == "LT":
                return SV(v.term, "T")                            # `torch.tensor(<the 0-d tensors a loop collected>)`
            if v.kind == "tuple" and v.term == ("list",) and not v.items:
                return SV(("emptyVec",), "T")
            if v.kind == "tuple" and v.term == ("list",) and len(v.items) == 1 and v.items[0].kind == "P" \
                    and v.items[0].term[0] in ("int", "flt"):
                return SV(("full", ("int", 1), v.items[0].term), "T")          # `torch.tensor([c])`
            raise Unsupported("torch.tensor of a non-number")
        if name == "numel":
            a = self.args_of(e, env, ["input"])
            return SV(("numel", self.tensor_arg(a["input"]).term), "P")
        if name == "searchsorted":
            a = self.args_of(e, env, ["sorted_sequence", "input", "right"], required=["sorted_sequence", "input"])
            if a["right"] is None or const_of(a["right"]) is not True:
                raise Unsupported("torch.searchsorted without right=True")
            return SV(("searchsortedR", self.tensor_arg(a["sorted_sequence"]).term, self.tensor_arg(a["input"]).term), "T")
        if name == "histc":
            a = self.args_of(e, env, ["input", "bins", "min", "max"])
            if a["min"].kind != "P" or a["min"].term not in (("int", 0), ("flt", Fraction(0))) or a["bins"].kind != "P" \
                    or a["max"].term != a["bins"].term:
                raise Unsupported("torch.histc other than histc(x, bins=b, min=0, max=b)")
            return SV(("histcUnit", self.tensor_arg(a["input"]).term, a["bins"].term), "T")
        if name == "max" and len(e.args) == 1 and not e.keywords:
            return SV(("maxAll", self.tensor_arg(self.ev(e.args[0], env)).term), "T")
        if name == "square":
            a = self.args_of(e, env, ["input"])
            t = self.tensor_arg(a["input"]).term
            return SV(("arith", "mul", t, t), "T")
        if name == "pow":
            a = self.args_of(e, env, ["input", "exponent"])
            if a["exponent"].kind != "P" or a["exponent"].term not in (("int", 2), ("flt", Fraction(2))):
                raise Unsupported("torch.pow with an exponent other than 2")
            t = self.tensor_arg(a["input"]).term
            return SV(("arith", "mul", t, t), "T")
        if name == "reciprocal":
            a = self.args_of(e, env, ["input"])
            return SV(("arith", "div", ("int", 1), self.tensor_arg(a["input"]).term), "T")
        if name == "log10":
            a = self.args_of(e, env, ["input"])
            return SV(("ufun", "log10", self.tensor_arg(a["input"]).term), "T")
        if name == "trapz":
            a = self.args_of(e, env, ["y", "x"])
            return SV(("trapz", self.tensor_arg(a["y"]).term, self.tensor_arg(a["x"]).term), "T")
        if name == "arange":
            a = self.args_of(e, env, ["start", "end", "step"])
            if a["start"].kind != "P" or a["end"].term != ("int", 0) or a["step"].term != ("int", -1):
                raise Unsupported("torch.arange other than arange(n, 0, -1)")
            return SV(("arangeDown", a["start"].term), "T")
        if name == "zeros_like":
            a = self.args_of(e, env, ["input"])
            return SV(("zerosLike", self.tensor_arg(a["input"]).term), "T")
        if name == "nn.functional.pad":
            a = self.args_of(e, env, ["input", "pad", "mode", "value"], required=["input", "pad", "value"])
            pd = a["pad"]
            if not (pd.kind == "tuple" and [x.term for x in pd.items] == [("int", 0), ("int", 1)]) or a["mode"] is not None:
                raise Unsupported("F.pad other than [0, 1]")
            if a["value"].kind != "P" or a["value"].term[0] not in ("int", "flt"):
                raise Unsupported("F.pad with a non-literal value")
            x = self.tensor_arg(a["input"])
            return SV(("padRight", x.term, a["value"].term), x.kind)
        if name == "cat":
            a = self.args_of(e, env, ["tensors", "dim"], required=["tensors"])
            v = a["tensors"]
            if a["dim"] is not None:
                self.int_const(a["dim"], {0, -1})
            if v.kind == "tuple" and len(v.items) == 2 and all(x.is_tensor() for x in v.items):
                return SV(("cat", v.items[0].term, v.items[1].term), "T")
            raise Unsupported("torch.cat of other than two tensors")
        if name == "finfo":
            a = self.args_of(e, env, ["type"])
            v = a["type"]
            if v.kind == "pseudo" and v.term[0] == "glob" and v.term[1].startswith("torch."):
                return SV(("finfo", v.term[1][6:]), "pseudo")
            if v.kind == "O" and v.term[1] == "dtype":
                return SV(("finfo", None), "pseudo")
            raise Unsupported("torch.finfo of other than a dtype")
        if name == "sort":
            a = self.args_of(e, env, ["input", "dim", "descending", "stable"], required=["input"])
            if a["stable"] is None or const_of(a["stable"]) is not True:
                raise Unsupported("torch.sort without stable=True (tie order unspecified)")
            if a["descending"] is not None and const_of(a["descending"]) is not False:
                raise Unsupported("torch.sort(descending=True)")
            if a["dim"] is not None:
                self.int_const(a["dim"], {1, -1})          # dim=1 of the 2-d tensors of these kernels is their last dimension
            t = ("sortStable", self.tensor_arg(a["input"]).term)
            return SV(("tuple",), "tuple", [SV(("fst", t), "T"), SV(("snd", t), "T")])
        if name == "all":
            a = self.args_of(e, env, ["input", "dim"])
            self.int_const(a["dim"], {1})
            return SV(("allDim1", self.tensor_arg(a["input"]).term), "B")
        if name == "logical_and":
            a = self.args_of(e, env, ["input", "other"])
            return SV(("land", self.tensor_arg(a["input"]).term, self.tensor_arg(a["other"]).term), "B")
        if name == "logical_or":
            a = self.args_of(e, env, ["input", "other"])
            return SV(("lor", self.tensor_arg(a["input"]).term, self.tensor_arg(a["other"]).term), "B")
        if name == "isnan":
            a = self.args_of(e, env, ["input"])
            return SV(("isnan", self.tensor_arg(a["input"]).term), "B")
        if name == "nan_to_num":
            a = self.args_of(e, env, ["input", "nan"], required=["input"])
            if a["nan"] is None:
                return SV(("nanToNum", self.tensor_arg(a["input"]).term), "T")
            if a["nan"].kind != "P" or a["nan"].term[0] not in ("int", "flt"):
                raise Unsupported("nan_to_num with a non-literal replacement")
            return SV(("nanToNumTo", self.tensor_arg(a["input"]).term, a["nan"].term), "T")
        if name == "inner":
            a = self.args_of(e, env, ["input", "other"])
            return SV(("inner", self.tensor_arg(a["input"]).term, self.tensor_arg(a["other"]).term), "T")
        if name == "sum":
            a = self.args_of(e, env, ["input", "dim"], required=["input"])
            t = self.tensor_arg(a["input"]).term
            if a["dim"] is None:
                return SV(("sum", t), "T")
            d = self.int_const(a["dim"], {0, -1})
            return SV(("sumDim0" if d == 0 else "sumLast", t), "T")
        if name == "mean":
            a = self.args_of(e, env, ["input"])
            return SV(("mean", self.tensor_arg(a["input"]).term), "T")
        if name == "zeros":
            a = self.args_of(e, env, ["size"])
            if a["size"].kind == "pseudo" and a["size"].term[0] == "sizeof":
                return SV(("zerosLike", a["size"].term[1]), "pseudo")
            if a["size"].kind != "P":
                raise Unsupported("torch.zeros of a non-integer size")
            return SV(("zeros", a["size"].term), "pseudo")
        if name == "vstack":
            a = self.args_of(e, env, ["tensors"])
            v = a["tensors"]
            if v.kind == "tuple" and len(v.items) == 2 and all(x.is_tensor() for x in v.items):
                return SV(("vstack", v.items[0].term, v.items[1].term), "pseudo")
            raise Unsupported("torch.vstack of other than two tensors")
        if name == "Size":
            a = self.args_of(e, env, ["sizes"])
            v = a["sizes"]
            if v.kind == "tuple" and len(v.items) == 2 and all(x.kind == "P" for x in v.items):
                return SV(("size", v.items[0].term, v.items[1].term), "pseudo")
            raise Unsupported("torch.Size of other than two integers")
        if name == "ones_like":
            a = self.args_of(e, env, ["input"])
            return SV(("onesLike", self.tensor_arg(a["input"]).term), "T")
        if name == "sparse_coo_tensor":
            a = self.args_of(e, env, ["indices", "values", "size"])
            i, v, s = a["indices"], a["values"], a["size"]
            if i.kind == "pseudo" and i.term[0] == "vstack" and v.is_tensor() and s.kind == "pseudo" and s.term[0] == "size":
                return SV(("coo", i.term[1], i.term[2], v.term, s.term[1], s.term[2]), "pseudo")
            raise Unsupported("torch.sparse_coo_tensor outside the (vstack, values, Size) form")
        if name == "nn.functional.normalize":
            a = self.args_of(e, env, ["input", "p", "dim"])
            if a["p"].kind != "P" or a["p"].term not in (("int", 1), ("flt", Fraction(1))):
                raise Unsupported("normalize with p != 1")
            return SV(("l1norm", self.tensor_arg(a["input"]).term, ("int", self.int_const(a["dim"], {0, 1}))), "T")
        if name == "nonzero":
            return opaque("torch.nonzero")
        if name == "topk":
            raise Unsupported("torch.topk (tie order unspecified)")
        if name in METHOD_FORM and e.args and not any(isinstance(a, ast.Starred) for a in e.args):
            # function spelling of a tensor method: `torch.abs(x)` = `x.abs()`, `torch.unsqueeze(x, -1)` = `x.unsqueeze(-1)`
            recv = self.ev(e.args[0], env)
            if recv.is_tensor():
                return self.method(recv, name, ast.Call(func=e.func, args=list(e.args[1:]), keywords=e.keywords), env)
        raise Unsupported("torch." + name)

    def method(self, recv, m, e, env):
        if recv.kind == "O":
            return opaque("method of an opaque value")
        if recv.kind == "pseudo" and recv.term[0] == "zeros" and m == "scatter_":
            a = self.args_of(e, env, ["dim", "index", "src", "reduce"], required=["dim", "index", "src"])
            self.int_const(a["dim"], {0})
            if a["reduce"] is None or a["reduce"].term != ("str", "add"):
                raise Unsupported("scatter_ without reduce=\"add\"")
            src = a["src"]
            if not (src.is_tensor() or (src.kind == "P" and src.term[0] in ("int", "flt"))):
                raise Unsupported("scatter_ source")
            return SV(("scatterAdd", recv.term[1], self.tensor_arg(a["index"]).term, src.term), "T")
        if recv.kind == "pseudo" and recv.term[0] == "zerosLike" and m == "scatter_":
            for a_ in list(e.args) + [k.value for k in e.keywords]:
                self.ev(a_, env)                      # the arguments decide the reason (torch.topk)
            raise Unsupported("scatter_ along the last dimension of an n-d tensor")
        if recv.kind == "pseudo" and recv.term[0] == "coo" and m == "to_dense" and not e.args and not e.keywords:
            return SV(("cooDense",) + recv.term[1:], "T")
        if recv.kind == "pseudo":
            raise Unsupported("method ." + m + " of " + recv.term[0])
        if not recv.is_tensor():
            raise Unsupported("method ." + m + " of a value of kind " + recv.kind)
        t = recv.term
        if m in IDENT_METHODS:
            return recv
        if m == "sum":
            a = self.args_of(e, env, ["dim", "keepdim"], required=[])
            keep = a["keepdim"] is not None and const_of(a["keepdim"]) is True
            if a["keepdim"] is not None and const_of(a["keepdim"]) not in (True, False):
                raise Unsupported("keepdim")
            if a["dim"] is None:
                if keep:
                    raise Unsupported("sum(keepdim=True) without dim")
                return SV(("sum", t), "T")
            d = self.int_const(a["dim"], {-1, 0, 1} if keep else {-1, 0})
            if keep:
                if d == 0:
                    raise Unsupported("sum(dim=0, keepdim=True)")
                # dim=1 of a 2-d tensor is its last dimension
                return SV(("unsqueezeLast", ("sumLast", t)), "T")
            return SV(("sumDim0" if d == 0 else "sumLast", t), "T")
        if m == "masked_scatter_":
            a = self.args_of(e, env, ["mask", "source"])
            return SV(("maskedScatter", t, self.tensor_arg(a["mask"]).term, self.tensor_arg(a["source"]).term), "T")
        if m == "sort":
            a = self.args_of(e, env, ["dim", "descending", "stable"], required=[])
            if a["descending"] is None or const_of(a["descending"]) is not True or a["stable"] is not None:
                raise Unsupported("tensor.sort other than sort(descending=True)")
            if a["dim"] is not None:
                self.int_const(a["dim"], {0, -1})
            st = ("sortDesc", t)
            return SV(("tuple",), "tuple", [SV(("fst", st), "T"), SV(("snd", st), "T")])
        if m in ("cumsum", "flip") and known_2d(t):
            a = self.args_of(e, env, ["dim"] if m == "cumsum" else ["dims"])
            d = a["dim"] if m == "cumsum" else a["dims"]
            if d.kind == "tuple" and len(d.items) == 1:
                d = d.items[0]
            self.int_const(d, {1, -1})
            return SV((m + "Rows", t), "T")
        if m == "reshape":
            if len(e.args) != 1 or e.keywords:
                raise Unsupported("reshape other than reshape((r, c))")
            sh = self.ev(e.args[0], env)
            if sh.kind != "tuple" or len(sh.items) != 2 or not all(x.kind == "P" for x in sh.items):
                raise Unsupported("reshape other than reshape((r, c))")
            return SV(("reshape2", t, sh.items[0].term, sh.items[1].term), recv.kind)
        if m in ("diff", "cumsum", "flip"):
            a = self.args_of(e, env, ["dim"], required=[] if m == "diff" else ["dim"])
            if a["dim"] is not None:
                self.int_const(a["dim"], {0, -1})
            return SV((m, t), "T" if m == "cumsum" else recv.kind)
        if m in ("new_ones", "new_zeros") and len(e.args) == 1 and isinstance(e.args[0], ast.Constant) and isinstance(e.args[0].value, int):
            return SV(("full", ("int", e.args[0].value), ("int", 1 if m == "new_ones" else 0)), "T")
        if m == "gather":
            a = self.args_of(e, env, ["dim", "index"])
            self.int_const(a["dim"], {1, -1})              # dim=1 of a 2-d tensor is its last dimension
            return SV(("gatherLast", t, self.tensor_arg(a["index"]).term), "T")
        if m == "squeeze" and not e.args and not e.keywords:
            return SV(("squeeze", t), recv.kind)
        if m in ("sign", "abs") and not e.args and not e.keywords:
            return SV((m, t), "T")
        if m == "clamp":
            a = self.args_of(e, env, ["min", "max"], required=[])
            if a["min"] is None or a["max"] is not None or a["min"].kind != "P":
                raise Unsupported("clamp other than clamp(min=<number>)")
            return SV(("clampMin", t, a["min"].term), "T")
        if m == "size" and (e.args or e.keywords):
            a = self.args_of(e, env, ["dim"])
            d = self.int_const(a["dim"], {0, -1})
            return SV(("shape0" if d == 0 else "sizeLast", t), "P")
        if m == "view":
            dims = [self.int_const(self.ev(x, env)) for x in e.args]
            if e.keywords:
                raise Unsupported("view with keywords")
            if dims == [1, -1]:
                return SV(("unsqueeze0", t), recv.kind)
            if dims == [-1, 1]:
                return SV(("unsqueezeLast", t), recv.kind)
            if dims == [-1]:
                return SV(("flatten", t), recv.kind)
            raise Unsupported("view" + str(tuple(dims)))
        if m == "repeat_interleave":
            a = self.args_of(e, env, ["repeats", "dim"])
            self.int_const(a["dim"], {0})
            if a["repeats"].kind != "P":
                raise Unsupported("repeat_interleave with a tensor of repeats")
            return SV(("repeatRows", t, a["repeats"].term), recv.kind)
        if m == "new_ones":
            a = self.args_of(e, env, ["size"])
            if a["size"].kind == "pseudo" and a["size"].term[0] == "sizeof":
                return SV(("onesLike", a["size"].term[1]), "T")
            raise Unsupported("new_ones of other than another tensor's size")
        if m == "mean" and not e.args and not e.keywords:
            return SV(("mean", t), "T")
        if m == "any" and not e.args and not e.keywords:
            return SV(("any", t), "B")
        if m == "numel" and not e.args and not e.keywords:
            return SV(("numel", t), "P")
        if m == "dim" and not e.args and not e.keywords:
            return SV(("ndim", t), "P")
        if m == "unsqueeze":
            a = self.args_of(e, env, ["dim"])
            d = self.int_const(a["dim"], {-1, 0})
            kind = "T" if recv.kind == "D" else recv.kind
            return SV(("unsqueezeLast" if d == -1 else "unsqueeze0", t), kind)
        if m == "max" and not e.args and not e.keywords:
            return SV(("maxAll", t), "T")
        if m == "max":
            a = self.args_of(e, env, ["dim"])
            self.int_const(a["dim"], {1})
            return SV(("maxdim1", t), "pseudo")
        if m == "new_zeros":
            a = self.args_of(e, env, ["size"])
            if a["size"].kind != "P":
                raise Unsupported("new_zeros of a non-integer size")
            return SV(("zeros", a["size"].term), "pseudo")
        if m == "new_tensor":
            a = self.args_of(e, env, ["data"])
            v = a["data"]
            if v.kind == "P" and v.term[0] not in ("str", "none"):
                return SV(("tensorOf", v.term), "T")
            raise Unsupported("new_tensor of a non-number")
        if m == "topk":
            raise Unsupported("torch.topk (tie order unspecified)")
        if m in ("nonzero", "tolist", "item"):
            return opaque("." + m + "()")
        if m == "size" and not e.args and not e.keywords:
            return SV(("sizeof", t), "pseudo")
        if m in FUNCTION_FORM or m in TORCH_CMP or m in TORCH_ARITH:
            # method spelling of a torch function: `x.reciprocal()` = `torch.reciprocal(x)`, `a.eq(b)` = `torch.eq(a, b)`
            return self.torch_call("torch." + m, ast.Call(func=e.func, args=[e.func.value] + list(e.args), keywords=e.keywords), env)
        raise Unsupported("tensor method ." + m)


# ---------------------------------------------------------------------- Lean text

def lq(s: str) -> str:
    return '"' + s.replace("\\", "\\\\").replace('"', '\\"') + '"'


def lint(i: int) -> str:
    return str(i) if i >= 0 else f"({i})"


def lrat(q: Fraction) -> str:
    if q.denominator == 1:
        return f"({q.numerator} : Q)"
    return f"(({q.numerator} : Q) / {q.denominator})"


ATOM = {"var": lambda t: f".var {lq(t[1])}", "int": lambda t: f".int {lint(t[1])}", "flt": lambda t: f".flt {lrat(t[1])}",
        "str": lambda t: f".str {lq(t[1])}", "none": lambda t: ".none", "bool": lambda t: f".bool {'true' if t[1] else 'false'}",
        "pname": lambda t: lq(t[1]), "kref": lambda t: f"k_{t[1]}", "lit": lambda t: lint(t[1]),
        "raise_": lambda t: f".raise_ .{t[1]}", "emptyVec": lambda t: ".emptyVec", "unsupported": lambda t: f".unsupported {lq(t[1])}"}


def lean_term(t, ind=2) -> str:
    """deterministic, parenthesised, one constructor per line above a small size"""
    if t[0] in ATOM:
        return ATOM[t[0]](t)
    if t[0] == "opaque":
        raise Unsupported("an opaque value reaches the result (" + t[1] + ")")
    head = "." + t[0]
    args = list(t[1:])
    if t[0] in ("cmp", "arith", "pyCmp"):
        head += " ." + t[1]
        args = args[1:]
    if t[0] == "ufun":
        head += " " + lq(t[1])
        args = args[1:]
    parts = []
    for a in args:
        s = lean_term(a, ind + 2)
        parts.append(s if a[0] in ("none", "pname", "kref", "lit") else "(" + s + ")")
    flat = head + " " + " ".join(parts)
    if len(flat) + ind <= 110 and "\n" not in flat:
        return flat
    pad = "\n" + " " * (ind + 2)
    return head + pad + pad.join(parts)


SYMMETRIC = {("cmp", "eq"), ("cmp", "ne"), ("arith", "add"), ("arith", "mul"), ("land",), ("lor",), ("band",), ("sameSize",)}
CANON_ARITH = True


def canon(t, params):
    """canonical operand order of the symmetric operations (`==`, `!=`, `&`, `|`, `+`, `*`): the operand that mentions the
    earlier PARAMETER of the kernel comes first (ties keep the source order; an operand that mentions no parameter keeps its
    place), so that `target == input` and `input == target` give one term.  Sound for `eval`: these operations are symmetric in value and in the shapes they accept."""
    if not isinstance(t, tuple):
        return t
    t = tuple(canon(a, params) if isinstance(a, tuple) else a for a in t)
    head = (t[0], t[1]) if t[0] in ("cmp", "arith") else (t[0],)
    if head in SYMMETRIC and (CANON_ARITH or t[0] != "arith"):
        a, b = t[-2], t[-1]
        ka, kb = first_param(a, params), first_param(b, params)
        if kb < ka and ka < len(params):          # an operand without a parameter (a constant) keeps its place
            t = t[:-2] + (b, a)
    return t


def first_param(t, params) -> int:
    if t[0] == "var":
        return params.index(t[1]) if t[1] in params else len(params)
    best = len(params) + 1
    for a in t[1:]:
        if isinstance(a, tuple):
            best = min(best, first_param(a, params))
    return best


def size(t) -> int:
    return 1 + sum(size(a) for a in t[1:] if isinstance(a, tuple))


# ---------------------------------------------------------------------- driver of the translation

_cache = {}


def ann_kind(ann: str) -> str:
    """kind of a parameter from its annotation: T (tensor), P (configuration value), D (tensor or number / tensor or None)"""
    parts = {x.replace("torch.", "") for x in re.split(r"[|,\[\]]", ann.replace(" ", "")) if x} - {"Optional", "Union"}
    if not parts or not parts <= {"Tensor", "float", "int", "str", "bool", "None"}:
        raise Unsupported("parameter of type " + (ann or "?"))
    if parts == {"Tensor"}:
        return "T"
    if "Tensor" not in parts:
        return "P"
    return "D"


def unsupported_leaves(t, out=None):
    out = [] if out is None else out
    if isinstance(t, tuple):
        if t and t[0] == "unsupported":
            if t[1] not in out:
                out.append(t[1])
        else:
            for a in t[1:]:
                unsupported_leaves(a, out)
    return out


def facts(force=False, family="C04"):
    """[{id, module, func, params, term | None, reason | None, lean | None, partial}] in table order"""
    if family in _cache and not force:
        return _cache[family]
    fam = FAMILIES[family]
    mods = {}
    rows = []
    names = {}
    known = {}
    for m, f, _k in fam["kernels"]:
        names.setdefault(m, set()).add(f)
    for m, f, k in fam["kernels"]:
        row = {"id": k, "module": m, "func": f, "params": [], "defaults": {}, "term": None, "reason": None, "lean": None, "partial": []}
        rows.append(row)
        try:
            if m not in mods:
                mods[m] = Module(m, fam["base"])
            mod = mods[m]
            fn = mod.funcs.get(f)
            if fn is None:
                raise Unsupported("function not found in " + m + ".py")
            if fn.args.vararg or fn.args.kwarg or fn.args.posonlyargs:
                raise Unsupported("signature")
            allargs = list(fn.args.args) + list(fn.args.kwonlyargs)
            params = [a.arg for a in allargs]
            row["params"] = params
            npos = len(fn.args.args)
            for p, d in zip(params[npos - len(fn.args.defaults):npos], fn.args.defaults):
                if isinstance(d, ast.Constant):
                    row["defaults"][p] = d.value
            for a, d in zip(fn.args.kwonlyargs, fn.args.kw_defaults):
                if isinstance(d, ast.Constant):
                    row["defaults"][a.arg] = d.value
            env = {}
            for a in allargs:
                ann = ast.unparse(a.annotation) if a.annotation is not None else ""
                env[a.arg] = SV(("var", a.arg), ann_kind(ann))
            ex = Exec(mod, names[m] - {f}, partial=k in fam["partial"],
                      known={d: r for d, r in known.items() if r["module"] != m})
            term = canon(maybe_scripted(fn, ex.block(list(fn.body), env)), params)
            row["lean"] = lean_term(term, 2)
            row["term"] = term
            row["partial"] = unsupported_leaves(term)
        except Unsupported as u:
            row["term"], row["lean"], row["reason"] = None, None, str(u)
        except (OSError, SyntaxError) as u:
            row["reason"] = "source not readable: " + type(u).__name__
        known[(fam["base"] + "/" + m).replace("/", ".") + "." + f] = row
    _cache[family] = rows
    return rows


def emit(rows, family="C04") -> str:
    fam = FAMILIES[family]
    out = ["/- GENERATED by harness/translators/kernels.py from /repo's working tree — do not edit. -/",
           "import TE.Model.TExpr", "namespace " + fam["ns"], "open TE TE.TX", ""]
    for r in rows:
        if r["term"] is not None:
            out.append(f"/-- `{r['module']}.py :: {r['func']}({', '.join(r['params'])})` -/")
            out.append(f"def k_{r['id']} : TExpr :=\n  {r['lean']}")
            out.append("")
    out.append("def kernels : List Kernel := [")
    body = []
    for r in rows:
        if r["term"] is not None:
            body.append(f"  .translated {lq(r['id'])} [{', '.join(lq(p) for p in r['params'])}] k_{r['id']}")
        else:
            body.append(f"  .untranslated {lq(r['id'])} {lq(r['reason'])}")
    out.append(",\n".join(body))
    out += ["]", ""]
    if family != "C04":
        out.append("/-- translated kernels with a branch outside the grammar (an `.unsupported` leaf) and the reasons -/")
        out.append("def partials : List (String × List String) := [")
        out.append(",\n".join(f"  ({lq(r['id'])}, [{', '.join(lq(x) for x in r['partial'])}])" for r in rows if r["partial"]))
        out += ["]", ""]
    out += ["end " + fam["ns"], ""]
    return "\n".join(out)


def generate(rep=None, family="C04"):
    rows = facts(force=True, family=family)
    new = emit(rows, family)
    p = LEAN / "TE" / "Gen" / FAMILIES[family]["file"]
    if not p.exists() or p.read_text() != new:
        p.write_text(new)
    if rep is not None:
        tr = [r["id"] for r in rows if r["term"] is not None]
        rep.notes.append(f"kernel translator: {len(tr)} of {len(rows)} kernels translated; untranslated: "
                         + "; ".join(f"{r['id']} ({r['reason']})" for r in rows if r["term"] is None))
    return rows


if __name__ == "__main__":
    import sys
    fams = [a for a in sys.argv[1:] if a in FAMILIES] or ["C04"]
    for fam_ in fams:
        rows = facts(force=True, family=fam_)
        for r in rows:
            if r["term"] is None:
                print("UNTRANSLATED", r["id"], "--", r["reason"])
            else:
                print("OK", r["id"], r["params"], "size", size(r["term"]), ("PARTIAL " + str(r["partial"])) if r["partial"] else "")
                if "-v" in sys.argv:
                    print("   ", r["lean"])
        if "-w" in sys.argv:
            generate(family=fam_)
