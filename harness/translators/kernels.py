"""(T) kernel translator (C04): the numeric kernels of the count-based classification metrics
(torcheval/metrics/functional/classification/{accuracy,precision,recall,f1_score,confusion_matrix}.py) are
translated from their Python AST (working tree of /repo, `TE_REPO`) into closed terms of the tensor-expression
language of lean/TE/Model/TExpr.lean; the result is lean/TE/Gen/Kernels.lean (rewritten only when its text
changes).  lean/TE/Props/C04_Kernels.lean proves for ALL inputs that evaluating the generated term gives the
hand-written model of lean/TE/Model/Count.lean, so the theorems are re-checked against what the code says now.

The translator is a symbolic executor of straight-line code:
  * locals are substituted by the term they hold (`input = torch.where(...)` re-binds `input`), so the
    generated term mentions only the kernel's PARAMETERS — renaming a local or naming an intermediate mask
    does not change the output;
  * every `if` forks the path and continues both branches with the rest of the block (early `return`s are
    therefore just leaves): a condition on configuration values (`average == "micro"`, `k == 1`,
    `input.ndim == 2`, `isinstance(average, str) and …`, `x in (…)`) becomes `.ite`, a condition on a
    one-element tensor (`if isnan_class.any():`) becomes `.iteT`; when both continuations are the same term
    the `if` disappears (bodies that only log, the `target.dtype == torch.bool` split of
    `_binary_accuracy_update` whose two constructors of a 0-d tensor coincide on rationals);
  * `assert c` becomes `.assert c <rest>`;
  * a call of a private helper of the same module that is itself a kernel (`_update`, `_multilabel_update`) is
    inlined; the `_*_input_check(...)` statement at the top of a kernel is skipped (C18 owns the checks);
    `logging.*(...)` statements are skipped;
  * storage dtypes are not modelled: `.long() .float() .int() .double() .type(..) .to(..) .clone() .detach()`
    are identities, `dtype= / device= / requires_grad=` keywords are ignored;
  * values that never reach the result (arguments of log messages) may be opaque.
Anything outside the grammar makes the kernel `untranslated "<name>" "<reason>"` — never a guess."""
from __future__ import annotations
import ast
from fractions import Fraction
from ..common import LEAN, REPO

BASE = "torcheval/metrics/functional/classification"
# (module, function, kernel id used in Lean / by the driver)
KERNELS = [
    ("accuracy", "_binary_accuracy_update", "binary_accuracy_update"),
    ("precision", "_binary_precision_update", "binary_precision_update"),
    ("recall", "_binary_recall_update", "binary_recall_update"),
    ("f1_score", "_binary_f1_score_update", "binary_f1_score_update"),
    ("confusion_matrix", "_binary_confusion_matrix_update", "binary_confusion_matrix_update"),
    ("accuracy", "_accuracy_compute", "accuracy_compute"),
    ("accuracy", "_multiclass_accuracy_update", "multiclass_accuracy_update"),
    ("accuracy", "_multilabel_update", "multilabel_update"),
    ("accuracy", "_multilabel_accuracy_update", "multilabel_accuracy_update"),
    ("accuracy", "_topk_multilabel_accuracy_update", "topk_multilabel_accuracy_update"),
    ("precision", "_precision_update", "precision_update"),
    ("precision", "_precision_compute", "precision_compute"),
    ("recall", "_recall_update", "recall_update"),
    ("recall", "_recall_compute", "recall_compute"),
    ("recall", "_binary_recall_compute", "binary_recall_compute"),
    ("f1_score", "_update", "f1_score__update"),
    ("f1_score", "_f1_score_update", "f1_score_update"),
    ("f1_score", "_f1_score_compute", "f1_score_compute"),
    ("confusion_matrix", "_update", "confusion_matrix__update"),
    ("confusion_matrix", "_confusion_matrix_update", "confusion_matrix_update"),
    ("confusion_matrix", "_confusion_matrix_compute", "confusion_matrix_compute"),
    ("confusion_matrix", "_binary_confusion_matrix_compute", "binary_confusion_matrix_compute"),
]

IDENT_METHODS = {"long", "float", "int", "double", "half", "type", "to", "clone", "detach", "contiguous", "cpu"}
IGNORED_KW = {"dtype", "device", "requires_grad"}
CMP = {"Lt": "lt", "Gt": "gt", "LtE": "le", "GtE": "ge", "Eq": "eq", "NotEq": "ne"}
TORCH_CMP = {"lt": "lt", "gt": "gt", "le": "le", "ge": "ge", "eq": "eq", "ne": "ne",
             "less": "lt", "greater": "gt", "less_equal": "le", "greater_equal": "ge", "not_equal": "ne"}
ARITH = {"Add": "add", "Sub": "sub", "Mult": "mul", "Div": "div"}
TORCH_ARITH = {"add": "add", "sub": "sub", "subtract": "sub", "mul": "mul", "multiply": "mul", "div": "div", "divide": "div",
               "true_divide": "div"}


class Unsupported(Exception):
    pass


class SV:
    """symbolic value: `term` is a nested tuple, `kind` one of
       T  numeric tensor      B  boolean tensor     P  python configuration value (int / float / str / None / bool)
       R  result of an inlined kernel (may only be returned)
       tuple (items = list of SV)       pseudo (term[0] names it: zeros / vstack / size / coo / maxdim / shape / glob / dtype)
       O  opaque (must not reach the result)"""
    __slots__ = ("term", "kind", "items")

    def __init__(self, term, kind, items=None):
        self.term, self.kind, self.items = term, kind, items

    def is_tensor(self):
        return self.kind in ("T", "B", "U")


def opaque(why):
    return SV(("opaque", why), "O")


def const_of(sv):
    """python constant of a literal term, else raises"""
    t = sv.term
    if sv.kind == "P" and t[0] in ("int", "flt", "str", "bool"):
        return t[1]
    if sv.kind == "P" and t[0] == "none":
        return None
    raise Unsupported("a constant is required here")


class Module:
    def __init__(self, name):
        self.name = name
        path = REPO / BASE / f"{name}.py"
        self.tree = ast.parse(path.read_text())
        self.funcs = {n.name: n for n in self.tree.body if isinstance(n, ast.FunctionDef)}
        # module-level aliases such as `norm = torch.nn.functional.normalize`
        self.alias = {}
        for n in self.tree.body:
            if isinstance(n, ast.Assign) and len(n.targets) == 1 and isinstance(n.targets[0], ast.Name):
                d = dotted(n.value)
                if d:
                    self.alias[n.targets[0].id] = d
            if isinstance(n, ast.ImportFrom) and n.module:
                for a in n.names:
                    self.alias[a.asname or a.name] = n.module + "." + a.name


def dotted(e):
    if isinstance(e, ast.Name):
        return e.id
    if isinstance(e, ast.Attribute):
        b = dotted(e.value)
        return b + "." + e.attr if b else None
    return None


class Exec:
    def __init__(self, mod: Module, kernel_names):
        self.mod = mod
        self.kernel_names = kernel_names          # private helpers of this module that may be inlined
        self.depth = 0

    # ------------------------------------------------------------------ blocks (continuation passing)
    def block(self, stmts, env):
        """term of the value returned by executing `stmts` in `env`"""
        if not stmts:
            raise Unsupported("a path ends without `return`")
        s, rest = stmts[0], stmts[1:]
        if isinstance(s, ast.Expr):
            if isinstance(s.value, ast.Constant):
                return self.block(rest, env)                      # docstring
            if isinstance(s.value, ast.Call):
                d = dotted(s.value.func) or ""
                if d.endswith("_input_check") or d.endswith("_param_check") or d.startswith("logging.") or d.startswith("warnings."):
                    return self.block(rest, env)
            raise Unsupported("expression statement " + ast.unparse(s)[:60])
        if isinstance(s, ast.Return):
            if s.value is None:
                raise Unsupported("bare return")
            return self.result_term(self.ev(s.value, env))
        if isinstance(s, (ast.Assign, ast.AnnAssign)):
            if isinstance(s, ast.AnnAssign):
                if s.value is None:
                    return self.block(rest, env)
                targets = [s.target]
            else:
                targets = s.targets
            v = self.ev(s.value, env)
            env = dict(env)
            for t in targets:
                self.bind(t, v, env)
            return self.block(rest, env)
        if isinstance(s, ast.Assert):
            c = self.ev(s.test, env)
            if c.kind != "P":
                raise Unsupported("assert on a non-configuration value")
            return ("assert", c.term, self.block(rest, env))
        if isinstance(s, ast.If):
            c = self.ev(s.test, env)
            a = self.block(list(s.body) + rest, env)
            b = self.block(list(s.orelse) + rest, env)
            if a == b:
                return a
            if c.kind == "P":
                return ("ite", c.term, a, b)
            if c.is_tensor():
                return ("iteT", c.term, a, b)
            raise Unsupported("branch on " + (c.term[1] if c.kind == "O" else c.kind) + " with different outcomes")
        if isinstance(s, ast.Pass):
            return self.block(rest, env)
        raise Unsupported("statement " + type(s).__name__)

    def bind(self, target, v, env):
        if isinstance(target, ast.Name):
            env[target.id] = v
            return
        if isinstance(target, (ast.Tuple, ast.List)):
            if v.kind != "tuple" or len(v.items) != len(target.elts):
                raise Unsupported("tuple assignment from a non-tuple")
            for t, x in zip(target.elts, v.items):
                self.bind(t, x, env)
            return
        raise Unsupported("assignment target " + type(target).__name__)

    def result_term(self, v):
        if v.kind == "tuple":
            items = [self.result_term(x) for x in v.items]
            if len(items) < 2:
                raise Unsupported("tuple of length < 2 returned")
            t = items[-1]
            for x in reversed(items[:-1]):
                t = ("pair", x, t)
            return t
        if v.kind in ("T", "B", "R", "U"):
            return v.term
        raise Unsupported("returns a value of kind " + v.kind + (" (" + str(v.term[1]) + ")" if v.kind == "O" else ""))

    # ------------------------------------------------------------------ expressions
    def ev(self, e, env) -> SV:
        if isinstance(e, ast.Constant):
            return self.const(e.value)
        if isinstance(e, ast.Name):
            if e.id in env:
                return env[e.id]
            if e.id in self.mod.alias:
                return SV(("glob", self.mod.alias[e.id]), "pseudo")
            if e.id in self.mod.funcs or e.id in ("torch", "logging", "isinstance", "len", "int", "float", "str", "bool"):
                return SV(("glob", e.id), "pseudo")
            # a local that is not bound on this path (Python raises UnboundLocalError when it is used; `eval` fails on
            # the unbound variable): reachable only for configurations the earlier branches exclude
            return SV(("var", "<unbound " + e.id + ">"), "U")
        if isinstance(e, ast.Tuple):
            return SV(("tuple",), "tuple", [self.ev(x, env) for x in e.elts])
        if isinstance(e, ast.Attribute):
            return self.attr(e, env)
        if isinstance(e, ast.Compare):
            return self.compare(e, env)
        if isinstance(e, ast.BoolOp):
            vals = [self.ev(v, env) for v in e.values]
            if all(v.kind == "P" for v in vals):
                op = "pyAnd" if isinstance(e.op, ast.And) else "pyOr"
                t = vals[-1].term
                for v in reversed(vals[:-1]):
                    t = (op, v.term, t)
                return SV(t, "P")
            return opaque("`and`/`or` mixing configuration and tensor values")
        if isinstance(e, ast.UnaryOp):
            v = self.ev(e.operand, env)
            if isinstance(e.op, ast.Invert):
                if v.kind == "B":
                    return SV(("lnot", v.term), "B")
                raise Unsupported("`~` on a non-boolean tensor")
            if isinstance(e.op, ast.Not):
                if v.kind == "P":
                    return SV(("pyNot", v.term), "P")
                return opaque("`not` on a tensor")
            if isinstance(e.op, ast.USub) and v.kind == "P" and v.term[0] in ("int", "flt"):
                return self.const(-v.term[1])
            raise Unsupported("unary " + type(e.op).__name__)
        if isinstance(e, ast.BinOp):
            return self.binop(e, env)
        if isinstance(e, ast.Subscript):
            return self.subscript(e, env)
        if isinstance(e, ast.Call):
            return self.call(e, env)
        if isinstance(e, ast.JoinedStr):
            return opaque("f-string")
        if isinstance(e, ast.List):
            return SV(("list",), "tuple", [self.ev(x, env) for x in e.elts])
        raise Unsupported("expression " + type(e).__name__)

    @staticmethod
    def const(v):
        if v is None:
            return SV(("none",), "P")
        if isinstance(v, bool):
            return SV(("bool", v), "P")
        if isinstance(v, int):
            return SV(("int", v), "P")
        if isinstance(v, float):
            return SV(("flt", Fraction(v)), "P")
        if isinstance(v, Fraction):
            return SV(("flt", v), "P")
        if isinstance(v, str):
            return SV(("str", v), "P")
        raise Unsupported("constant " + repr(v))

    def attr(self, e, env):
        d = dotted(e)
        if d and d.split(".")[0] in ("torch", "logging") and d.split(".")[0] not in env:
            return SV(("glob", d), "pseudo")
        base = self.ev(e.value, env)
        if base.is_tensor():
            if e.attr == "ndim":
                return SV(("ndim", base.term), "P")
            if e.attr == "shape":
                return SV(("shape", base.term), "pseudo")
            if e.attr == "dtype":
                return opaque("dtype")
            if e.attr == "device":
                return opaque("device")
            if e.attr == "T":
                raise Unsupported("transpose")
        if base.kind == "pseudo" and base.term[0] == "glob":
            return SV(("glob", base.term[1] + "." + e.attr), "pseudo")
        if base.kind == "pseudo" and base.term[0] == "topk" and e.attr in ("indices", "values"):
            raise Unsupported("torch.topk (tie order unspecified)")
        raise Unsupported("attribute ." + e.attr)

    def compare(self, e, env):
        if len(e.ops) != 1:
            raise Unsupported("chained comparison")
        a, b = self.ev(e.left, env), self.ev(e.comparators[0], env)
        op = type(e.ops[0]).__name__
        if a.kind == "O" or b.kind == "O":
            return opaque("comparison of " + (a.term[1] if a.kind == "O" else b.term[1]))
        if a.is_tensor() or b.is_tensor():
            if op not in CMP:
                raise Unsupported("comparison " + op + " on tensors")
            self.need_operand(a), self.need_operand(b)
            return SV(("cmp", CMP[op], a.term, b.term), "B")
        if a.kind == "P" and op in ("In", "NotIn") and b.kind == "tuple" and b.items and all(x.kind == "P" for x in b.items):
            t = ("pyEq", a.term, b.items[-1].term)
            for x in reversed(b.items[:-1]):
                t = ("pyOr", ("pyEq", a.term, x.term), t)
            return SV(t if op == "In" else ("pyNot", t), "P")
        if a.kind == "P" and b.kind == "P":
            if op in ("Eq", "Is"):
                return SV(("pyEq", a.term, b.term), "P")
            if op in ("NotEq", "IsNot"):
                return SV(("pyNot", ("pyEq", a.term, b.term)), "P")
            raise Unsupported("comparison " + op + " on configuration values")
        raise Unsupported("comparison " + op + " of " + a.kind + " and " + b.kind)

    @staticmethod
    def need_operand(v):
        if v.kind not in ("T", "B", "P", "U"):
            raise Unsupported("operand of kind " + v.kind)
        if v.kind == "P" and v.term[0] in ("str", "none"):
            raise Unsupported("string operand of a tensor operation")

    def binop(self, e, env):
        a, b = self.ev(e.left, env), self.ev(e.right, env)
        op = type(e.op).__name__
        if a.kind == "O" or b.kind == "O":
            return opaque("arithmetic on an opaque value")
        if not (a.is_tensor() or b.is_tensor()):
            raise Unsupported("python-level arithmetic " + op)
        self.need_operand(a), self.need_operand(b)
        if op in ARITH:
            return SV(("arith", ARITH[op], a.term, b.term), "T")
        if op == "BitAnd":
            if a.kind == "B" and b.kind == "B":
                return SV(("land", a.term, b.term), "B")
            if a.kind in ("T", "B") and b.kind in ("T", "B"):
                return SV(("band", a.term, b.term), "T")
        if op == "BitOr" and a.kind == "B" and b.kind == "B":
            return SV(("lor", a.term, b.term), "B")
        raise Unsupported("operator " + op + " on " + a.kind + ", " + b.kind)

    def subscript(self, e, env):
        base = self.ev(e.value, env)
        if base.kind == "O":
            return opaque("index into an opaque value")
        if base.kind == "pseudo" and base.term[0] == "shape":
            i = self.ev(e.slice, env)
            if i.kind == "P" and i.term == ("int", 0):
                return SV(("shape0", base.term[1]), "P")
            raise Unsupported("shape[" + ast.unparse(e.slice) + "]")
        if base.kind == "pseudo" and base.term[0] == "maxdim1":
            i = self.ev(e.slice, env)
            if i.kind == "P" and i.term == ("int", 0):
                return SV(("maxDim1", base.term[1]), "T")
            raise Unsupported("index of max(dim=1)")
        if base.kind == "tuple":
            i = self.ev(e.slice, env)
            if i.kind == "P" and i.term[0] == "int" and -len(base.items) <= i.term[1] < len(base.items):
                return base.items[i.term[1]]
            raise Unsupported("tuple index")
        if base.is_tensor():
            i = self.ev(e.slice, env)
            if i.kind in ("B", "U"):
                return SV(("maskSel", base.term, i.term), base.kind)
            raise Unsupported("tensor index that is not a boolean mask")
        raise Unsupported("subscript of " + base.kind)

    # ------------------------------------------------------------------ calls
    def args_of(self, e, env, names, ignore=IGNORED_KW, required=None):
        """positional + keyword arguments bound to `names` (SV or None)"""
        if any(k.arg is None for k in e.keywords) or any(isinstance(a, ast.Starred) for a in e.args):
            raise Unsupported("* / ** arguments")
        if len(e.args) > len(names):
            raise Unsupported("too many positional arguments in " + ast.unparse(e.func))
        out = {n: None for n in names}
        for n, a in zip(names, e.args):
            out[n] = self.ev(a, env)
        for k in e.keywords:
            if k.arg in ignore and k.arg not in names:
                continue
            if k.arg not in names:
                raise Unsupported("keyword " + k.arg + " of " + ast.unparse(e.func))
            if out[k.arg] is not None:
                raise Unsupported("argument given twice")
            out[k.arg] = self.ev(k.value, env)
        for n in (required if required is not None else names):
            if out[n] is None:
                raise Unsupported("missing argument " + n + " of " + ast.unparse(e.func))
        return out

    @staticmethod
    def int_const(v, allowed=None):
        if v is None or v.kind != "P" or v.term[0] != "int":
            raise Unsupported("a literal integer is required")
        if allowed is not None and v.term[1] not in allowed:
            raise Unsupported("dim=" + str(v.term[1]))
        return v.term[1]

    def tensor_arg(self, v):
        if v is None or not v.is_tensor():
            raise Unsupported("a tensor argument is required")
        return v

    def call(self, e, env):
        f = e.func
        if isinstance(f, ast.Name):
            if f.id == "isinstance" and len(e.args) == 2 and not e.keywords:
                x = self.ev(e.args[0], env)
                ty = dotted(e.args[1])
                if x.kind == "P" and ty == "str":
                    return SV(("isStr", x.term), "P")
                if x.kind == "P" and ty == "int":
                    return SV(("isInt", x.term), "P")
                raise Unsupported("isinstance(" + ast.unparse(e.args[1]) + ")")
            if f.id in self.mod.alias:
                return self.torch_call(self.mod.alias[f.id], e, env)
            if f.id in self.mod.funcs:
                return self.inline(f.id, e, env)
            raise Unsupported("call of " + f.id)
        if isinstance(f, ast.Attribute):
            d = dotted(f)
            if d and d.split(".")[0] == "torch" and "torch" not in env:
                return self.torch_call(d, e, env)
            if d and d.split(".")[0] in ("logging", "warnings"):
                return opaque("logging")
            recv = self.ev(f.value, env)
            return self.method(recv, f.attr, e, env)
        raise Unsupported("call target")

    def inline(self, name, e, env):
        if name not in self.kernel_names:
            raise Unsupported("call of " + name + " (not a kernel of this module)")
        if self.depth >= 3:
            raise Unsupported("inlining depth")
        fn = self.mod.funcs[name]
        params = [a.arg for a in fn.args.args]
        if fn.args.vararg or fn.args.kwarg or fn.args.kwonlyargs or fn.args.posonlyargs:
            raise Unsupported("signature of " + name)
        bound = self.args_of(e, env, params, ignore=set(), required=[])
        for p, d in zip(params[len(params) - len(fn.args.defaults):], fn.args.defaults):
            if bound[p] is None:
                bound[p] = self.ev(d, {})
        for p in params:
            if bound[p] is None:
                raise Unsupported("missing argument " + p + " of " + name)
            if bound[p].kind not in ("T", "B", "P"):
                raise Unsupported("argument of kind " + bound[p].kind + " passed to " + name)
        self.depth += 1
        try:
            return SV(self.block(list(fn.body), bound), "R")
        finally:
            self.depth -= 1

    def torch_call(self, d, e, env):
        name = d.split(".", 1)[1] if d.startswith("torch.") else d
        if name == "where":
            a = self.args_of(e, env, ["condition", "input", "other"])
            c = self.tensor_arg(a["condition"])
            x, y = a["input"], a["other"]
            for v in (x, y):
                if v.kind != "P" or v.term[0] not in ("int", "flt"):
                    raise Unsupported("torch.where with a non-literal branch value")
            return SV(("where_", c.term, x.term, y.term), "T")
        if name == "argmax":
            a = self.args_of(e, env, ["input", "dim"])
            self.int_const(a["dim"], {1})
            return SV(("argmax1", self.tensor_arg(a["input"]).term), "T")
        if name == "gather":
            a = self.args_of(e, env, ["input", "dim", "index"])
            self.int_const(a["dim"], {-1})
            return SV(("gatherLast", self.tensor_arg(a["input"]).term, self.tensor_arg(a["index"]).term), "T")
        if name in TORCH_CMP:
            a = self.args_of(e, env, ["input", "other"])
            self.need_operand(a["input"]), self.need_operand(a["other"])
            if not (a["input"].is_tensor() or a["other"].is_tensor()):
                raise Unsupported("torch." + name + " without a tensor")
            return SV(("cmp", TORCH_CMP[name], a["input"].term, a["other"].term), "B")
        if name in TORCH_ARITH:
            a = self.args_of(e, env, ["input", "other"])
            self.need_operand(a["input"]), self.need_operand(a["other"])
            if not (a["input"].is_tensor() or a["other"].is_tensor()):
                raise Unsupported("torch." + name + " without a tensor")
            return SV(("arith", TORCH_ARITH[name], a["input"].term, a["other"].term), "T")
        if name == "tensor":
            a = self.args_of(e, env, ["data"])
            v = a["data"]
            if v.kind == "P" and v.term[0] not in ("str", "none"):
                return SV(("tensorOf", v.term), "T")
            raise Unsupported("torch.tensor of a non-number")
        if name == "all":
            a = self.args_of(e, env, ["input", "dim"])
            self.int_const(a["dim"], {1})
            return SV(("allDim1", self.tensor_arg(a["input"]).term), "B")
        if name == "logical_and":
            a = self.args_of(e, env, ["input", "other"])
            return SV(("land", self.tensor_arg(a["input"]).term, self.tensor_arg(a["other"]).term), "B")
        if name == "logical_or":
            a = self.args_of(e, env, ["input", "other"])
            return SV(("lor", self.tensor_arg(a["input"]).term, self.tensor_arg(a["other"]).term), "B")
        if name == "isnan":
            a = self.args_of(e, env, ["input"])
            return SV(("isnan", self.tensor_arg(a["input"]).term), "B")
        if name == "nan_to_num":
            a = self.args_of(e, env, ["input"])
            return SV(("nanToNum", self.tensor_arg(a["input"]).term), "T")
        if name == "inner":
            a = self.args_of(e, env, ["input", "other"])
            return SV(("inner", self.tensor_arg(a["input"]).term, self.tensor_arg(a["other"]).term), "T")
        if name == "sum":
            a = self.args_of(e, env, ["input"])
            return SV(("sum", self.tensor_arg(a["input"]).term), "T")
        if name == "mean":
            a = self.args_of(e, env, ["input"])
            return SV(("mean", self.tensor_arg(a["input"]).term), "T")
        if name == "zeros":
            a = self.args_of(e, env, ["size"])
            if a["size"].kind == "pseudo" and a["size"].term[0] == "sizeof":
                return SV(("zerosLike", a["size"].term[1]), "pseudo")
            if a["size"].kind != "P":
                raise Unsupported("torch.zeros of a non-integer size")
            return SV(("zeros", a["size"].term), "pseudo")
        if name == "vstack":
            a = self.args_of(e, env, ["tensors"])
            v = a["tensors"]
            if v.kind == "tuple" and len(v.items) == 2 and all(x.is_tensor() for x in v.items):
                return SV(("vstack", v.items[0].term, v.items[1].term), "pseudo")
            raise Unsupported("torch.vstack of other than two tensors")
        if name == "Size":
            a = self.args_of(e, env, ["sizes"])
            v = a["sizes"]
            if v.kind == "tuple" and len(v.items) == 2 and all(x.kind == "P" for x in v.items):
                return SV(("size", v.items[0].term, v.items[1].term), "pseudo")
            raise Unsupported("torch.Size of other than two integers")
        if name == "ones_like":
            a = self.args_of(e, env, ["input"])
            return SV(("onesLike", self.tensor_arg(a["input"]).term), "T")
        if name == "sparse_coo_tensor":
            a = self.args_of(e, env, ["indices", "values", "size"])
            i, v, s = a["indices"], a["values"], a["size"]
            if i.kind == "pseudo" and i.term[0] == "vstack" and v.is_tensor() and s.kind == "pseudo" and s.term[0] == "size":
                return SV(("coo", i.term[1], i.term[2], v.term, s.term[1], s.term[2]), "pseudo")
            raise Unsupported("torch.sparse_coo_tensor outside the (vstack, values, Size) form")
        if name == "nn.functional.normalize":
            a = self.args_of(e, env, ["input", "p", "dim"])
            if a["p"].kind != "P" or a["p"].term not in (("int", 1), ("flt", Fraction(1))):
                raise Unsupported("normalize with p != 1")
            return SV(("l1norm", self.tensor_arg(a["input"]).term, ("int", self.int_const(a["dim"], {0, 1}))), "T")
        if name == "nonzero":
            return opaque("torch.nonzero")
        if name == "topk":
            raise Unsupported("torch.topk (tie order unspecified)")
        raise Unsupported("torch." + name)

    def method(self, recv, m, e, env):
        if recv.kind == "O":
            return opaque("method of an opaque value")
        if recv.kind == "pseudo" and recv.term[0] == "zeros" and m == "scatter_":
            a = self.args_of(e, env, ["dim", "index", "src", "reduce"], required=["dim", "index", "src"])
            self.int_const(a["dim"], {0})
            if a["reduce"] is None or a["reduce"].term != ("str", "add"):
                raise Unsupported("scatter_ without reduce=\"add\"")
            src = a["src"]
            if not (src.is_tensor() or (src.kind == "P" and src.term[0] in ("int", "flt"))):
                raise Unsupported("scatter_ source")
            return SV(("scatterAdd", recv.term[1], self.tensor_arg(a["index"]).term, src.term), "T")
        if recv.kind == "pseudo" and recv.term[0] == "zerosLike" and m == "scatter_":
            for a_ in list(e.args) + [k.value for k in e.keywords]:
                self.ev(a_, env)                      # the arguments decide the reason (torch.topk)
            raise Unsupported("scatter_ along the last dimension of an n-d tensor")
        if recv.kind == "pseudo" and recv.term[0] == "coo" and m == "to_dense" and not e.args and not e.keywords:
            return SV(("cooDense",) + recv.term[1:], "T")
        if recv.kind == "pseudo":
            raise Unsupported("method ." + m + " of " + recv.term[0])
        if not recv.is_tensor():
            raise Unsupported("method ." + m + " of a value of kind " + recv.kind)
        t = recv.term
        if m in IDENT_METHODS:
            return recv
        if m == "sum":
            a = self.args_of(e, env, ["dim"], required=[])
            if a["dim"] is None:
                return SV(("sum", t), "T")
            self.int_const(a["dim"], {-1})
            return SV(("sumLast", t), "T")
        if m == "mean" and not e.args and not e.keywords:
            return SV(("mean", t), "T")
        if m == "any" and not e.args and not e.keywords:
            return SV(("any", t), "B")
        if m == "numel" and not e.args and not e.keywords:
            return SV(("numel", t), "P")
        if m == "unsqueeze":
            a = self.args_of(e, env, ["dim"])
            self.int_const(a["dim"], {-1})
            return SV(("unsqueezeLast", t), recv.kind)
        if m == "max":
            a = self.args_of(e, env, ["dim"])
            self.int_const(a["dim"], {1})
            return SV(("maxdim1", t), "pseudo")
        if m == "new_zeros":
            a = self.args_of(e, env, ["size"])
            if a["size"].kind != "P":
                raise Unsupported("new_zeros of a non-integer size")
            return SV(("zeros", a["size"].term), "pseudo")
        if m == "new_tensor":
            a = self.args_of(e, env, ["data"])
            v = a["data"]
            if v.kind == "P" and v.term[0] not in ("str", "none"):
                return SV(("tensorOf", v.term), "T")
            raise Unsupported("new_tensor of a non-number")
        if m == "topk":
            raise Unsupported("torch.topk (tie order unspecified)")
        if m in ("nonzero", "tolist", "item"):
            return opaque("." + m + "()")
        if m == "size" and not e.args and not e.keywords:
            return SV(("sizeof", t), "pseudo")
        raise Unsupported("tensor method ." + m)


# ---------------------------------------------------------------------- Lean text

def lq(s: str) -> str:
    return '"' + s.replace("\\", "\\\\").replace('"', '\\"') + '"'


def lint(i: int) -> str:
    return str(i) if i >= 0 else f"({i})"


def lrat(q: Fraction) -> str:
    if q.denominator == 1:
        return f"({q.numerator} : Q)"
    return f"(({q.numerator} : Q) / {q.denominator})"


ATOM = {"var": lambda t: f".var {lq(t[1])}", "int": lambda t: f".int {lint(t[1])}", "flt": lambda t: f".flt {lrat(t[1])}",
        "str": lambda t: f".str {lq(t[1])}", "none": lambda t: ".none", "bool": lambda t: f".bool {'true' if t[1] else 'false'}"}


def lean_term(t, ind=2) -> str:
    """deterministic, parenthesised, one constructor per line above a small size"""
    if t[0] in ATOM:
        return ATOM[t[0]](t)
    if t[0] == "opaque":
        raise Unsupported("an opaque value reaches the result (" + t[1] + ")")
    head = "." + t[0]
    args = list(t[1:])
    if t[0] in ("cmp", "arith"):
        head += " ." + t[1]
        args = args[1:]
    parts = []
    for a in args:
        s = lean_term(a, ind + 2)
        parts.append(s if a[0] == "none" else "(" + s + ")")
    flat = head + " " + " ".join(parts)
    if len(flat) + ind <= 110 and "\n" not in flat:
        return flat
    pad = "\n" + " " * (ind + 2)
    return head + pad + pad.join(parts)


def size(t) -> int:
    return 1 + sum(size(a) for a in t[1:] if isinstance(a, tuple))


# ---------------------------------------------------------------------- driver of the translation

_cache = None


def facts(force=False):
    """[{id, module, func, params, term | None, reason | None, lean | None}] in KERNELS order"""
    global _cache
    if _cache is not None and not force:
        return _cache
    mods = {}
    rows = []
    names = {}
    for m, f, _k in KERNELS:
        names.setdefault(m, set()).add(f)
    for m, f, k in KERNELS:
        row = {"id": k, "module": m, "func": f, "params": [], "defaults": {}, "term": None, "reason": None, "lean": None}
        rows.append(row)
        try:
            if m not in mods:
                mods[m] = Module(m)
            mod = mods[m]
            fn = mod.funcs.get(f)
            if fn is None:
                raise Unsupported("function not found in " + m + ".py")
            if fn.args.vararg or fn.args.kwarg or fn.args.kwonlyargs or fn.args.posonlyargs:
                raise Unsupported("signature")
            params = [a.arg for a in fn.args.args]
            row["params"] = params
            for p, d in zip(params[len(params) - len(fn.args.defaults):], fn.args.defaults):
                if isinstance(d, ast.Constant):
                    row["defaults"][p] = d.value
            env = {}
            for a in fn.args.args:
                ann = ast.unparse(a.annotation) if a.annotation is not None else ""
                if "Tensor" in ann:
                    env[a.arg] = SV(("var", a.arg), "T")
                elif ann.replace(" ", "") in ("float", "int", "str", "bool", "str|None", "int|None", "float|None", "Optional[str]",
                                               "Optional[int]", "Optional[float]"):
                    env[a.arg] = SV(("var", a.arg), "P")
                else:
                    raise Unsupported("parameter " + a.arg + " of type " + (ann or "?"))
            ex = Exec(mod, names[m] - {f})
            term = ex.block(list(fn.body), env)
            row["lean"] = lean_term(term, 2)
            row["term"] = term
        except Unsupported as u:
            row["term"], row["lean"], row["reason"] = None, None, str(u)
        except (OSError, SyntaxError) as u:
            row["reason"] = "source not readable: " + type(u).__name__
    _cache = rows
    return rows


def emit(rows) -> str:
    out = ["/- GENERATED by harness/translators/kernels.py from /repo's working tree — do not edit. -/",
           "import TE.Model.TExpr", "namespace TE.Gen", "open TE TE.TX", ""]
    for r in rows:
        if r["term"] is not None:
            out.append(f"/-- `{r['module']}.py :: {r['func']}({', '.join(r['params'])})` -/")
            out.append(f"def k_{r['id']} : TExpr :=\n  {r['lean']}")
            out.append("")
    out.append("def kernels : List Kernel := [")
    body = []
    for r in rows:
        if r["term"] is not None:
            body.append(f"  .translated {lq(r['id'])} [{', '.join(lq(p) for p in r['params'])}] k_{r['id']}")
        else:
            body.append(f"  .untranslated {lq(r['id'])} {lq(r['reason'])}")
    out.append(",\n".join(body))
    out += ["]", "", "end TE.Gen", ""]
    return "\n".join(out)


def generate(rep=None):
    rows = facts(force=True)
    new = emit(rows)
    p = LEAN / "TE" / "Gen" / "Kernels.lean"
    if not p.exists() or p.read_text() != new:
        p.write_text(new)
    if rep is not None:
        tr = [r["id"] for r in rows if r["term"] is not None]
        rep.notes.append(f"kernel translator: {len(tr)} of {len(rows)} kernels translated; untranslated: "
                         + "; ".join(f"{r['id']} ({r['reason']})" for r in rows if r["term"] is None))
    return rows


if __name__ == "__main__":
    import sys
    rows = facts(force=True)
    for r in rows:
        if r["term"] is None:
            print("UNTRANSLATED", r["id"], "--", r["reason"])
        else:
            print("OK", r["id"], r["params"], "size", size(r["term"]))
            if "-v" in sys.argv:
                print("   ", r["lean"])
    if "-w" in sys.argv:
        generate()
