/-
  tedriver — one request per input line, one response per output line.
    fn <name> k=v …          → `ok <values>` | `err <Kind>` | `bad <message>`
  `bad` is a protocol/adapter problem (never a modelled outcome).
-/
import TE.Driver.Proto
import TE.Driver.Count
open TE TE.Driver

def allFns : List (String × (Args → RS)) := countFns

def handle (line : String) : String :=
  match (line.trimAscii.toString.splitOn " ").filter (· ≠ "") with
  | "fn" :: name :: rest =>
    match allFns.find? (·.1 = name) with
    | none => s!"bad unknown function {name}"
    | some (_, f) =>
      match parseArgs rest with
      | .error m => s!"bad {m}"
      | .ok a =>
        match f a with
        | .error m => s!"bad {m}"
        | .ok (.error e) => errOut e
        | .ok (.ok s) => s!"ok {s}"
  | "ping" :: _ => "pong"
  | [] => "bad empty"
  | c :: _ => s!"bad unknown command {c}"

partial def loop (h : IO.FS.Stream) (out : IO.FS.Stream) : IO Unit := do
  let line ← h.getLine
  if line.isEmpty then return ()
  out.putStrLn (handle line)
  loop h out

def main : IO Unit := do
  let out ← IO.getStdout
  loop (← IO.getStdin) out
  out.flush
