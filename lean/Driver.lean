/-
  tedriver — one request per input line, one response per output line.
    fn <name> k=v …                    → `ok <values>` | `err <Kind>` | `bad <message>`
    prog <Class> k=v … | op | op …     → results of the ops joined by ` | `
        ops:  u <i> k=v …   update instance i        → ok | err Kind
              m <i> <j,k,…> merge_state              → ok | err Kind
              o <i>         compute                  → ok <values> | err Kind
              r <i>         reset                    → ok
              c <i> <j>     instance j := copy of i  → ok
        instances are numbered from 0 and created fresh on first use.
  `bad` is a protocol/adapter problem (never a modelled outcome).
-/
import TE.Driver.Proto
import TE.Driver.Fam
import TE.Driver.Count
import TE.Driver.Agg
import TE.Driver.Curve
import TE.Driver.Binned
import TE.Driver.Rank
import TE.Driver.Text
import TE.Driver.Window
import TE.Driver.Sync
import TE.Driver.Multi
import TE.Driver.Meta
import TE.Driver.Shape
import TE.Driver.Ops
import TE.Driver.Kernels
open TE TE.Driver

def allFams : List (String × String × (Args → Except String Fam)) :=
  countFams ++ aggFams ++ curveFams ++ binnedFams ++ rankFams ++ textFams ++ windowFams

def allPacks : List (String × (Args → Except String Pack)) :=
  aggPacks ++ curvePacks ++ binnedPacks ++ rankPacks ++ textPacks ++ windowPacks

def allFns : List (String × (Args → Except Err String)) :=
  aggFns ++ curveFns ++ binnedFns ++ rankFns ++ textFns ++ windowFns ++ syncFns ++ multiFns ++ metaFns ++ shapeFns ++ opsFns ++ kernelFns

def findFn (name : String) : Option (Args → Except String Fam) :=
  (allFams.find? (·.1 = name)).map (·.2.2)

def findClass (name : String) (cfg : Args) : Except String Pack :=
  match allPacks.find? (·.1 = name) with
  | some (_, mk) => mk cfg
  | none =>
    match allFams.find? (·.2.1 = name) with
    | some (_, _, mk) =>
      match mk cfg with
      | .ok f => .ok f.pack
      | .error m => .error m
    | none => .error s!"unknown class {name}"

def showRes (r : Except Err String) : String :=
  match r with
  | .ok s => if s = "" then "ok" else s!"ok {s}"
  | .error e => errOut e

def toks (s : String) : List String := (s.trimAscii.toString.splitOn " ").filter (· ≠ "")

def getInst {S} (tbl : Array S) (init : S) (i : Nat) : Array S × S :=
  if h : i < tbl.size then (tbl, tbl[i]) else
    let tbl' := tbl ++ Array.replicate (i + 1 - tbl.size) init
    (tbl', init)

def runOps (p : Pack) (ops : List String) : List String := Id.run do
  let mut tbl : Array p.S := #[]
  let mut outs : List String := []
  for op in ops do
    match toks op with
    | "u" :: i :: rest =>
      match i.toNat?, parseArgs rest with
      | some i, .ok a =>
        let (t, s) := getInst tbl p.impl.init i
        match p.impl.upd s a with
        | .ok s' => tbl := t.set! i s'; outs := "ok" :: outs
        | .error e => tbl := t; outs := errOut e :: outs
      | _, _ => outs := "bad update op" :: outs
    | ["m", i, js] =>
      match i.toNat?, (js.splitOn ",").mapM String.toNat? with
      | some i, some js =>
        let (t, s) := getInst tbl p.impl.init i
        let mut t := t
        let mut srcs : List p.S := []
        for j in js do
          let (t', sj) := getInst t p.impl.init j
          t := t'; srcs := srcs ++ [sj]
        match p.impl.mrg s srcs with
        | .ok s' => tbl := t.set! i s'; outs := "ok" :: outs
        | .error e => tbl := t; outs := errOut e :: outs
      | _, _ => outs := "bad merge op" :: outs
    | ["m", i] =>
      match i.toNat? with
      | some i =>
        let (t, s) := getInst tbl p.impl.init i
        match p.impl.mrg s [] with
        | .ok s' => tbl := t.set! i s'; outs := "ok" :: outs
        | .error e => tbl := t; outs := errOut e :: outs
      | none => outs := "bad merge op" :: outs
    | ["o", i] =>
      match i.toNat? with
      | some i =>
        let (t, s) := getInst tbl p.impl.init i
        tbl := t; outs := showRes (p.impl.out s) :: outs
      | none => outs := "bad out op" :: outs
    | ["r", i] =>
      match i.toNat? with
      | some i =>
        let (t, _) := getInst tbl p.impl.init i
        tbl := t.set! i p.impl.init; outs := "ok" :: outs
      | none => outs := "bad reset op" :: outs
    | ["c", i, j] =>
      match i.toNat?, j.toNat? with
      | some i, some j =>
        let (t, s) := getInst tbl p.impl.init i
        let (t, _) := getInst t p.impl.init j
        tbl := t.set! j s; outs := "ok" :: outs
      | _, _ => outs := "bad copy op" :: outs
    | _ => outs := s!"bad op '{op}'" :: outs
  return outs.reverse

def handle (line : String) : String :=
  match toks line with
  | "fn" :: name :: rest =>
    match findFn name with
    | none =>
      match allFns.find? (·.1 = name), parseArgs rest with
      | some (_, f), .ok a => showRes (f a)
      | none, _ => s!"bad unknown function {name}"
      | _, .error m => s!"bad {m}"
    | some mk =>
      match parseArgs rest with
      | .error m => s!"bad {m}"
      | .ok a =>
        match mk a with
        | .error m => s!"bad {m}"
        | .ok fam => showRes (fam.fn a)
  | "prog" :: cls :: _ =>
    match line.splitOn "|" with
    | hd :: ops =>
      match parseArgs ((toks hd).drop 2) with
      | .error m => s!"bad {m}"
      | .ok cfg =>
        match findClass cls cfg with
        | .error m => s!"bad {m}"
        | .ok p => " | ".intercalate (runOps p ops)
    | [] => "bad empty prog"
  | "ping" :: _ => "pong"
  | [] => "bad empty"
  | c :: _ => s!"bad unknown command {c}"

partial def loop (h : IO.FS.Stream) (out : IO.FS.Stream) : IO Unit := do
  let line ← h.getLine
  if line.isEmpty then return ()
  out.putStrLn (handle line)
  loop h out

def main : IO Unit := do
  let out ← IO.getStdout
  loop (← IO.getStdin) out
  out.flush
