import TE.Model.Basic
import TE.Model.ClassSM
