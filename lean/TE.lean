import TE.Lemmas.ClassSM
import TE.Model.Basic
import TE.Model.ClassSM
import TE.Model.Count
import TE.Props.C04
import TE.Spec.Count
