import TE.Driver.Sync
open TE TE.Driver
def toks (s : String) : List String := (s.trimAscii.toString.splitOn " ").filter (· ≠ "")
def handle (line : String) : String :=
  match toks line with
  | "fn" :: name :: rest =>
    match syncFns.find? (·.1 = name), parseArgs rest with
    | some (_, f), .ok a => (match f a with | .ok s => s!"ok {s}" | .error e => errOut e)
    | none, _ => s!"bad unknown function {name}"
    | _, .error m => s!"bad {m}"
  | _ => "bad"
partial def loop (h : IO.FS.Stream) (out : IO.FS.Stream) : IO Unit := do
  let line ← h.getLine
  if line.isEmpty then return ()
  out.putStrLn (handle line)
  loop h out
def main : IO Unit := do
  let out ← IO.getStdout
  loop (← IO.getStdin) out
  out.flush
