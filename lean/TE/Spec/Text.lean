/-
  TE.Spec.Text — textbook definitions of the text metrics (C08).
-/
import TE.Model.Basic
namespace TE.Spec.Text
open TE

section
variable {α : Type} [DecidableEq α]

/-- Levenshtein distance between the prefixes `a[:i]` and `b[:j]` (the textbook
    recurrence, always the minimum over deletion, insertion and
    substitution/match):
      lev(i,0) = i,  lev(0,j) = j,
      lev(i,j) = min( lev(i−1,j)+1, lev(i,j−1)+1, lev(i−1,j−1)+[aᵢ ≠ bⱼ] ). -/
def levP (a b : List α) : Nat → Nat → Nat
  | 0, j => j
  | i + 1, 0 => i + 1
  | i + 1, j + 1 =>
    min (levP a b i (j + 1) + 1)
      (min (levP a b (i + 1) j + 1) (levP a b i j + if a[i]? = b[j]? then 0 else 1))

/-- Levenshtein distance of two token sequences. -/
def lev (a b : List α) : Nat := levP a b a.length b.length

/-- the same distance by recursion on the sequences themselves (first tokens):
    an independent second definition, proved equal in TE/Lemmas/TextLev. -/
def levL : List α → List α → Nat
  | [], b => b.length
  | a, [] => a.length
  | x :: a, y :: b =>
    min (levL a (y :: b) + 1) (min (levL (x :: a) b + 1) (levL a b + if x = y then 0 else 1))
termination_by a b => a.length + b.length

/-- word error rate of a corpus: total edit distance over total reference length. -/
def wer (pairs : List (List α × List α)) : XQ :=
  xdiv ((pairs.map fun p => (lev p.1 p.2 : Q)).sum) ((pairs.map fun p => (p.2.length : Q)).sum)

/-- "correct words" of a corpus as torcheval (and torchmetrics) define them:
    Σ max(|hyp|, |ref|) − lev(hyp, ref). -/
def correct (pairs : List (List α × List α)) : Q :=
  (pairs.map fun p => ((max p.2.length p.1.length : Nat) : Q) - (lev p.1 p.2 : Q)).sum

def refTotal (pairs : List (List α × List α)) : Q := (pairs.map fun p => (p.2.length : Q)).sum
def hypTotal (pairs : List (List α × List α)) : Q := (pairs.map fun p => (p.1.length : Q)).sum

/-- word information preserved `C/N_ref · C/N_hyp` (with non-zero totals). -/
def wip (pairs : List (List α × List α)) : Q :=
  correct pairs / refTotal pairs * (correct pairs / hypTotal pairs)

/-- word information lost `1 − WIP`. -/
def wil (pairs : List (List α × List α)) : Q := 1 - wip pairs

/-! ### BLEU -/

/-- contiguous n-grams of a sentence. -/
def ngrams (n : Nat) (s : List α) : List (List α) :=
  (List.range (s.length + 1 - n)).map fun i => (s.drop i).take n

end

section
variable {κ : Type} [DecidableEq κ]

/-- the distinct elements of a list, in order of first occurrence. -/
def distinct (l : List κ) : List κ := l.foldl (fun acc g => if g ∈ acc then acc else acc ++ [g]) []

/-- number of occurrences of `g` in `l`. -/
def occ (g : κ) (l : List κ) : Nat := l.count g

/-- largest number of occurrences of `g` in any of the lists (0 for no list). -/
def maxCount (g : κ) (ls : List (List κ)) : Nat := (ls.map (occ g)).foldl max 0

end

section
variable {α : Type} [DecidableEq α]

/-- clipped n-gram matches of order `n`: Σ over the distinct candidate n-grams of
    min(count in the candidate, max over the references of the count in the reference). -/
def clippedMatches (n : Nat) (cand : List α) (refs : List (List α)) : Nat :=
  ((distinct (ngrams n cand)).map fun g =>
    min (occ g (ngrams n cand)) (maxCount g (refs.map (ngrams n)))).sum

/-- number of n-grams of order `n` in a candidate of length `len`. -/
def possibleMatches (n len : Nat) : Nat := len + 1 - n

/-- the closest reference length: minimal `|r − c|`, the shorter one on a tie. -/
def IsClosestRefLen (c : Nat) (lens : List Nat) (r : Nat) : Prop :=
  r ∈ lens ∧ ∀ x ∈ lens,
    (if r ≤ c then c - r else r - c) < (if x ≤ c then c - x else x - c) ∨
    ((if r ≤ c then c - r else r - c) = (if x ≤ c then c - x else x - c) ∧ r ≤ x)

end

end TE.Spec.Text
