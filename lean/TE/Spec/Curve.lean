/-
  TE.Spec.Curve — textbook definitions of AUROC, the precision-recall curve,
  AUPRC and recall at fixed precision (C05).  No sorting, no masks: double sums
  and counting of the samples scored at or above a threshold.
-/
import TE.Model.Basic
namespace TE.Spec.Curve
open TE

/-! ### AUROC -/

/-- a weighted, labelled sample: score, label (1 = positive, 0 = negative), weight. -/
structure Sample where
  s : Q
  t : Q
  w : Q
deriving DecidableEq, Repr

/-- `[sᵢ > sⱼ] + ½·[sᵢ = sⱼ]` -/
def kernel (si sj : Q) : Q := if sj < si then 1 else if si = sj then 1 / 2 else 0

def isPos (x : Sample) : Bool := x.t == 1
def isNeg (x : Sample) : Bool := x.t == 0

/-- total weight of the positives / negatives -/
def wPos (l : List Sample) : Q := ((l.filter isPos).map (·.w)).sum
def wNeg (l : List Sample) : Q := ((l.filter isNeg).map (·.w)).sum

/-- Σ_{i positive} Σ_{j negative} wᵢ·wⱼ·([sᵢ > sⱼ] + ½[sᵢ = sⱼ]) -/
def aurocNum (l : List Sample) : Q :=
  ((l.filter isPos).map fun i => ((l.filter isNeg).map fun j => i.w * j.w * kernel i.s j.s).sum).sum

/-- weighted probability that a random positive is scored above a random
    negative, ties counting one half; `0.5` when one class carries no weight. -/
def auroc (l : List Sample) : Q :=
  if wPos l * wNeg l = 0 then 1 / 2 else aurocNum l / (wPos l * wNeg l)

/-! ### precision-recall curve -/

/-- a labelled sample for the curve functionals: score, "is positive". -/
abbrev LS := Q × Bool

def tpAt (l : List LS) (t : Q) : Nat := l.countP fun x => x.2 && decide (t ≤ x.1)
def fpAt (l : List LS) (t : Q) : Nat := l.countP fun x => !x.2 && decide (t ≤ x.1)
def nPos (l : List LS) : Nat := l.countP fun x => x.2

/-- insertion into a strictly ascending list, dropping duplicates. -/
def insertDistinct (t : Q) : List Q → List Q
  | [] => [t]
  | u :: r => if t < u then t :: u :: r else if t = u then u :: r else u :: insertDistinct t r

/-- the distinct values of a list, ascending. -/
def distinctAsc (l : List Q) : List Q := l.foldr insertDistinct []

def precisionAt (l : List LS) (t : Q) : Q := (tpAt l t : Q) / ((tpAt l t : Q) + (fpAt l t : Q))

/-- recall at a threshold; convention of the code when there is no positive: `1`. -/
def recallAt (l : List LS) (t : Q) : Q := if nPos l = 0 then 1 else (tpAt l t : Q) / (nPos l : Q)

structure Curve where
  precision  : List Q
  recall     : List Q
  thresholds : List Q
deriving DecidableEq, Repr

/-- one point per distinct score (ascending), counting the samples scored at or
    above it, followed by the point (precision 1, recall 0). -/
def prCurve (l : List LS) : Curve :=
  let T := distinctAsc (l.map (·.1))
  ⟨T.map (precisionAt l) ++ [1], T.map (recallAt l) ++ [0], T⟩

/-! ### AUPRC -/

/-- Σₖ (rₖ − rₖ₊₁)·pₖ over consecutive curve points. -/
def stepSum : List Q → List Q → Q
  | r₀ :: r₁ :: rs, p₀ :: ps => (r₀ - r₁) * p₀ + stepSum (r₁ :: rs) ps
  | _, _ => 0

def auprc (l : List LS) : Q := stepSum (prCurve l).recall (prCurve l).precision

/-! ### recall at fixed precision -/

/-- `r` is the largest recall among the curve points whose precision reaches `bound`. -/
def IsMaxRecall (c : Curve) (bound r : Q) : Prop :=
  (∃ rp ∈ c.recall.zip c.precision, bound ≤ rp.2 ∧ rp.1 = r) ∧
  ∀ rp ∈ c.recall.zip c.precision, bound ≤ rp.2 → rp.1 ≤ r

/-- `t` is the largest threshold among the points of recall `r`; the appended
    point (1, 0) carries the pseudo-threshold −1. -/
def IsBestThreshold (c : Curve) (r t : Q) : Prop :=
  (∃ tr ∈ (c.thresholds ++ [-1]).zip c.recall, tr.2 = r ∧ tr.1 = t) ∧
  ∀ tr ∈ (c.thresholds ++ [-1]).zip c.recall, tr.2 = r → tr.1 ≤ t

/-- executable form of `IsMaxRecall` (for the `spec.*` oracle): maximum by a plain scan. -/
def maxOf : List Q → Option Q
  | [] => none
  | x :: xs => match maxOf xs with
    | none => some x
    | some m => some (if m ≤ x then x else m)

def recallAtPrecision (l : List LS) (bound : Q) : Option Q :=
  let c := prCurve l
  maxOf (((c.recall.zip c.precision).filter fun (rp : Q × Q) => decide (bound ≤ rp.2)).map fun (rp : Q × Q) => rp.1)

def bestThreshold (l : List LS) (r : Q) : Option Q :=
  let c := prCurve l
  maxOf ((((c.thresholds ++ [-1]).zip c.recall).filter fun (tr : Q × Q) => tr.2 == r).map fun (tr : Q × Q) => tr.1)

/-! ### multiclass / multilabel -/

/-- one-vs-rest view of class `c`: unit weights, label 1 iff the target is `c`. -/
def ovrSamples (c : Nat) (col labs : List Q) : List Sample :=
  (col.zip labs).map fun p => ⟨p.1, b2q (p.2 == (c : Q)), 1⟩

def ovrLS (c : Nat) (col labs : List Q) : List LS :=
  (col.zip labs).map fun p => (p.1, p.2 == (c : Q))

def posLS (xs ts : List Q) : List LS := (xs.zip ts).map fun p => (p.1, p.2 == 1)

def samples (xs ts ws : List Q) : List Sample :=
  (xs.zip (ts.zip ws)).map fun p => ⟨p.1, p.2.1, p.2.2⟩

def mean (l : List Q) : XQ := xdiv l.sum l.length

end TE.Spec.Curve
