/-
  TE.Spec.Agg — textbook definitions for C07 (aggregation, regression, statistical,
  image, entropy metrics).  Every definition is the shortest direct formula over
  the raw samples; no sufficient statistics, no streaming, no index arithmetic.
  `ln`, `exp` are arbitrary function parameters where the definition uses them.
-/
import TE.Model.Basic
namespace TE.Spec.Agg
open TE

/-- `Σ wᵢ·xᵢ` -/
def wsum (ws xs : List Q) : Q := (List.zipWith (· * ·) ws xs).sum

/-- weighted mean `Σ wᵢxᵢ / Σ wᵢ` -/
def wmean (ws xs : List Q) : Q := wsum ws xs / ws.sum

/-- arithmetic mean -/
def mean (xs : List Q) : Q := xs.sum / (xs.length : Q)

/-- `m` is the maximum of the samples: attained and an upper bound. -/
def IsMax (l : List Q) (m : Q) : Prop := m ∈ l ∧ ∀ x ∈ l, x ≤ m
def IsMin (l : List Q) (m : Q) : Prop := m ∈ l ∧ ∀ x ∈ l, m ≤ x

/-! ### area under a polyline -/

/-- stable insertion of a point by abscissa -/
def insertPt (p : Q × Q) : List (Q × Q) → List (Q × Q)
  | [] => [p]
  | q :: l => if p.1 ≤ q.1 then p :: q :: l else q :: insertPt p l

/-- the points ordered by abscissa (equal abscissae keep their arrival order). -/
def sortPts : List (Q × Q) → List (Q × Q)
  | [] => []
  | p :: l => insertPt p (sortPts l)

/-- trapezoid rule over a polyline: `Σ (x_{k+1} − x_k)·(y_k + y_{k+1})/2` -/
def trapzPts : List (Q × Q) → Q
  | p :: q :: l => (q.1 - p.1) * (p.2 + q.2) / 2 + trapzPts (q :: l)
  | _ => 0

/-- AUC with `reorder=True`: trapezoid rule over the points ordered by `x`. -/
def auc (pts : List (Q × Q)) : Q := trapzPts (sortPts pts)

/-! ### sample mean / covariance -/

/-- `Σ (xₖ − x̄)(yₖ − ȳ)` -/
def scatter (xs ys : List Q) : Q :=
  (List.zipWith (fun x y => (x - mean xs) * (y - mean ys)) xs ys).sum

/-- unbiased sample covariance `Σ (xₖ − x̄)(yₖ − ȳ) / (n − 1)` -/
def cov (xs ys : List Q) : Q := scatter xs ys / ((xs.length : Q) - 1)

/-! ### regression -/

/-- weighted mean squared error `Σ wₖ (tₖ − xₖ)² / Σ wₖ` -/
def wmse (ws xs ts : List Q) : Q :=
  wsum ws (List.zipWith (fun x t => (t - x) * (t - x)) xs ts) / ws.sum

/-- mean squared error `Σ (tₖ − xₖ)² / n` -/
def mse (xs ts : List Q) : Q := (List.zipWith (fun x t => (t - x) * (t - x)) xs ts).sum / (ts.length : Q)

/-- residual sum of squares `Σ (yₖ − ŷₖ)²` -/
def rss (pred ys : List Q) : Q := (List.zipWith (fun a y => (y - a) * (y - a)) pred ys).sum

/-- total sum of squares `Σ (yₖ − ȳ)²` -/
def tss (ys : List Q) : Q := (ys.map fun y => (y - mean ys) * (y - mean ys)).sum

/-- coefficient of determination `1 − RSS/TSS` -/
def r2 (pred ys : List Q) : Q := 1 - rss pred ys / tss ys

/-- adjusted R² with `p` regressors over `n` samples -/
def r2adj (n : Q) (p : Nat) (r : Q) : Q := 1 - (1 - r) * (n - 1) / (n - (p : Q) - 1)

/-- variance-weighted multi-output R²: per-output scores weighted by the outputs' total sums of squares -/
def r2vw (preds ys : List (List Q)) : Q :=
  (List.zipWith (fun p y => r2 p y * tss y) preds ys).sum / (ys.map tss).sum

/-! ### Wasserstein-1 between two weighted empirical distributions -/

/-- weighted empirical CDF of the points `(value, weight)` : `W{xᵢ ≤ v} / W` -/
def cdf (pts : List (Q × Q)) (v : Q) : Q :=
  ((pts.filter fun p => decide (p.1 ≤ v)).map (·.2)).sum / (pts.map (·.2)).sum

def absQ (a : Q) : Q := if a < 0 then -a else a

/-- `Σ |F_x(v_k) − F_y(v_k)|·(v_{k+1} − v_k)` over consecutive points of an (ordered) support -/
def w1On (px py : List (Q × Q)) : List Q → Q
  | a :: b :: l => absQ (cdf px a - cdf py a) * (b - a) + w1On px py (b :: l)
  | _ => 0

/-- ordered list of values -/
def insertQ (a : Q) : List Q → List Q
  | [] => [a]
  | b :: l => if a ≤ b then a :: b :: l else b :: insertQ a l
def sortQ : List Q → List Q
  | [] => []
  | a :: l => insertQ a (sortQ l)

/-- Wasserstein-1 distance: integral of `|F_x − F_y|` (piecewise constant between merged support points). -/
def w1 (px py : List (Q × Q)) : Q := w1On px py (sortQ (px.map (·.1) ++ py.map (·.1)))

/-- weights actually used: the given ones, or unit weights. -/
def unitOr (xs : List Q) (w : Option (List Q)) : List Q := w.getD (xs.map fun _ => 1)

/-! ### PSNR, entropy, perplexity, throughput -/

/-- the quantity whose `10·log10` is the PSNR: `range² / MSE` -/
def psnrRatio (range : Q) (xs ts : List Q) : Q :=
  range * range / ((List.zipWith (fun x t => (x - t) * (x - t)) xs ts).sum / (ts.length : Q))

/-- binary entropy function -/
def H (ln : Q → Q) (p : Q) : Q := -(p * ln p) - (1 - p) * ln (1 - p)

/-- cross entropy of one prediction `x` against label `t` (probability input) -/
def ce (ln : Q → Q) (x t : Q) : Q := -(t * ln x + (1 - t) * ln (1 - x))

/-- cross entropy of one logit `z` against label `t` : `−t·ln σ(z) − (1−t)·ln(1−σ(z)) = (1−t)z + ln(1+e^{−z})` -/
def ceLogit (ln exp : Q → Q) (z t : Q) : Q := (1 - t) * z + ln (1 + exp (-z))

/-- normalized entropy: weighted mean cross entropy over the entropy of the (given) base rate `p` -/
def ne (ces ws : List Q) (hp : Q) : Q := (wsum ws ces / ws.sum) / hp

/-- softmax probability of class `t` -/
def softmax (exp : Q → Q) (row : List Q) (t : Nat) : Q := exp (row.getD t 0) / (row.map exp).sum

/-- mean negative log-likelihood of the tokens `(logits, label)` -/
def meanNLL (exp ln : Q → Q) (toks : List (List Q × Nat)) : Q :=
  (toks.map fun p => -(ln (softmax exp p.1 p.2))).sum / (toks.length : Q)

/-- items per second -/
def throughput (items : List Q) (elapsed : List Q) : Q := items.sum / elapsed.sum

end TE.Spec.Agg
