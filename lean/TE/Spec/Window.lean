/-
  TE.Spec.Window — the trivially correct queue (C13).

  A windowed metric is specified by remembering EVERYTHING it was fed, in order:
    windowed value = the non-windowed metric on the last `N` updates (samples),
                     or on all of them when fewer have arrived;
    lifetime value = the non-windowed metric on everything.
  No cursor, no modular arithmetic, no buffer.
-/
import TE.Model.ClassSM
namespace TE.Spec.Window
open TE

variable {α σ β : Type}

/-- the last `n` elements (all of them when there are fewer). -/
def lastN (n : Nat) (l : List α) : List α := l.drop (l.length - n)

/-- what the non-windowed (sufficient-statistic) metric holds after the updates `us`:
    the accumulated per-update statistics (state of `additive M stat outA`, see `accL`). -/
def nonWindowed (M : Acc α) (us : List α) : α := us.foldl M.add M.zero

/-- update-granular window: non-windowed metric on the last `N` updates. -/
def windowedSpec (M : Acc α) (N : Nat) (us : List α) : α := nonWindowed M (lastN N us)

/-- lifetime: non-windowed metric on all updates. -/
def lifetimeSpec (M : Acc α) (us : List α) : α := nonWindowed M us

/-- what `compute()` shows: nothing before the first update, else (lifetime, windowed)
    pushed through the metric's value formula `render`. -/
def computeSpec {O : Type} (M : Acc α) (N : Nat) (render : α → α → Except Err O) (empty : O)
    (us : List α) : Except Err O :=
  if us = [] then .ok empty else render (lifetimeSpec M us) (windowedSpec M N us)

/-- pooled window of several un-merged metrics (C01, windowed clause): all live
    entries of the target followed by those of every source. -/
def pooledSpec (M : Acc α) (N : Nat) (target : List α) (sources : List (Nat × List α)) : α :=
  nonWindowed M (lastN N target ++ sources.flatMap fun s => lastN s.1 s.2)

/-- sample-granular window (WindowedBinaryAUROC): the last `N` samples of the
    concatenated batches. -/
def sampleWindow (N : Nat) (bs : List (List σ)) : List σ := lastN N bs.flatten

/-- sample-granular windowed value for any metric `f` on sample lists. -/
def sampleWindowedSpec (f : List σ → β) (N : Nat) (bs : List (List σ)) : β := f (sampleWindow N bs)

end TE.Spec.Window
