/-
  TE.Spec.Sync — what gathering / syncing is supposed to deliver (C15, C02).
  No collectives, no padding, no negotiation: just "the list of all members'
  values in rank order, on every rank that receives"; the hypotheses under which that
  holds (`Syncable`); and the arrival-order semantics of a rendezvous (schedule independence).
-/
import TE.Model.Sync
namespace TE.Spec.Sync
open TE TE.Sync

/-- the values of members `0 … n-1`, in rank order. -/
def allOf {α : Type} (n : Nat) (sent : Nat → α) : List α := (List.range n).map sent

/-- does member `i` receive (destination `None` = everybody)? -/
def receives (dst : Option Nat) (i : Nat) : Bool :=
  match dst with
  | none => true
  | some d => i == d

/-- `send_tensors` / `sync_states` on member `i` of an `n`-member group: every member's
    value in rank order on receiving ranks, `None` elsewhere. -/
def gathered {α : Type} (n : Nat) (dst : Option Nat) (sent : Nat → α) (i : Nat) : Option (List α) :=
  if receives dst i then some (allOf n sent) else none

/-- the members other than `r`, ascending. -/
def others (n r : Nat) : List Nat := (List.range n).filter (· != r)

/-- `get_synced_metric` on member `r`: the local metric merged with all other members'
    metrics in rank order. -/
def merged {S : Type} (mrg : S → List S → Except Err S) (n : Nat) (loc : Nat → S) (r : Nat) : Except Err S :=
  mrg (loc r) ((others n r).map loc)

/-! ### a dict state is a map: its canonical listing -/

/-- the entries of a dict state listed by sorted key (what `dict(zip(sorted(keys), values))` holds). -/
def canonDict (kv : List (String × Tensor)) : List (String × Tensor) :=
  let ks := sortKeys (kv.map (·.1))
  List.zip ks (valuesByKeys kv ks)

/-- a state as it is after travelling: identical, except that a dict lists its entries by sorted key
    (`canonDict_lookup`: same keys, same value under every key). -/
def canon : TState → TState
  | .dict kv => .dict (canonDict kv)
  | s => s

def canonEntry (kv : Key × TState) : Key × TState := (kv.1, canon kv.2)

/-- a metric's state dict as the receiving side reconstructs it (the attributes of the pseudo-metric):
    states listed by sorted name, dict states by sorted key — the same map
    (`TE.Sync.recon_lookup`). -/
def recon (sd : List (String × TState)) : List (String × TState) :=
  (sortKeys (sd.map (·.1))).filterMap fun s => (lookupKey s sd).map fun v => (s, canon v)

end TE.Spec.Sync

namespace TE.Sync
open TE.Spec.Sync

/-! ### hypotheses -/

/-- the destination is `None` or names a member by its group rank. -/
def DstIn (n : Nat) : Option Nat → Prop
  | none => True
  | some d => d < n

instance (n : Nat) (dst : Option Nat) : Decidable (DstIn n dst) := by
  cases dst <;> unfold DstIn <;> exact inferInstance

/-- a process group: the members' global ranks (any numbers, any order) without repetition, `n` of them. -/
structure IsGroup (g : List Nat) (n : Nat) : Prop where
  nodup : g.Nodup
  len : g.length = n

/-- the environment of member `i` (group rank) of group `g`. -/
def envOf (g : List Nat) (n : Nat) (dst : Option Nat) (junk : Nat → Q) (i : Nat) : Env := ⟨i, n, g, dst, junk i⟩

/-- tensors the members send: one dtype, one number of dimensions (shapes otherwise arbitrary), well-formed. -/
def Sendable (n : Nat) (T : Nat → Tensor) (dt : DType) (k : Nat) : Prop :=
  ∀ i, i < n → (T i).dtype = dt ∧ (T i).shape.length = k ∧ (T i).WF

/-- list states: every element on every rank has one dtype and one number of dimensions
    (shapes otherwise arbitrary, any lengths, empty lists included) and is well-formed. -/
def ListSendable (n : Nat) (xs : Nat → List Tensor) (dt : DType) (k : Nat) : Prop :=
  ∀ i, i < n → ∀ t ∈ xs i, t.dtype = dt ∧ t.shape.length = k ∧ t.WF

/-- one state across the `n` members: the same KIND everywhere, and per kind what synclib documents. -/
inductive StateOk (n : Nat) (st : Nat → TState) : Prop where
  | tensor (T : Nat → Tensor) (dt : DType) (k : Nat)
      (h : ∀ i, i < n → st i = .tensor (T i)) (hT : Sendable n T dt k)
  | list (xs : Nat → List Tensor) (dt : DType) (k : Nat)
      (h : ∀ i, i < n → st i = .list (xs i)) (hx : ListSendable n xs dt k)
  /-- equal key sets (`hk`), values homogeneous like list elements -/
  | dict (kv : Nat → List (String × Tensor)) (ks : List String) (dt : DType) (k : Nat)
      (h : ∀ i, i < n → st i = .dict (kv i)) (hk : ∀ i, i < n → sortKeys ((kv i).map (·.1)) = ks)
      (hv : ListSendable n (fun i => valuesByKeys (kv i) ks) dt k)
  | int (N : Nat → Int) (h : ∀ i, i < n → st i = .int (N i))
  | float (F : Nat → Q) (h : ∀ i, i < n → st i = .float (F i))

/-- **`Syncable n E`**: the members' state collections `E 0 … E (n-1)`, each listed in traversal
    order, have the same (metric, state) names position by position, and every state is `StateOk`. -/
inductive Syncable (n : Nat) : (Nat → List (Key × TState)) → Prop where
  | nil {E : Nat → List (Key × TState)} (h : ∀ i, i < n → E i = []) : Syncable n E
  | cons {E : Nat → List (Key × TState)} (key : Key) (st : Nat → TState) (E' : Nat → List (Key × TState))
      (h : ∀ i, i < n → E i = (key, st i) :: E' i) (hs : StateOk n st) (hE : Syncable n E') : Syncable n E

/-! ### a checker for `Syncable` (sound: `TE.Sync.syncableB_sound`) -/

def asTensor : TState → Option Tensor | .tensor t => some t | _ => none
def asList : TState → Option (List Tensor) | .list l => some l | _ => none
def asDict : TState → Option (List (String × Tensor)) | .dict kv => some kv | _ => none
def asInt : TState → Option Int | .int n => some n | _ => none
def asFloat : TState → Option Q | .float q => some q | _ => none

/-- every tensor has dtype `dt`, `k` dimensions, and as many elements as its shape says. -/
def tensorsOkB (dt : DType) (k : Nat) (ts : List Tensor) : Bool :=
  ts.all fun t => t.dtype == dt && t.shape.length == k && t.data.length == prod t.shape

def firstSig (ts : List Tensor) : DType × Nat :=
  match ts with
  | t :: _ => (t.dtype, t.shape.length)
  | [] => (.f32, 0)

def homogeneousB (ts : List Tensor) : Bool := tensorsOkB (firstSig ts).1 (firstSig ts).2 ts

/-- the members' values of one state (in rank order) are `StateOk`. -/
def stateOkB (sts : List TState) : Bool :=
  match sts with
  | [] => true
  | .tensor _ :: _ =>
    match sts.mapM asTensor with
    | some ts => homogeneousB ts
    | none => false
  | .list _ :: _ =>
    match sts.mapM asList with
    | some xss => homogeneousB xss.flatten
    | none => false
  | .dict kv0 :: _ =>
    match sts.mapM asDict with
    | some kvs =>
      let ks := sortKeys (kv0.map (·.1))
      kvs.all (fun kv => sortKeys (kv.map (·.1)) == ks) && homogeneousB (kvs.map fun kv => valuesByKeys kv ks).flatten
    | none => false
  | .int _ :: _ => (sts.mapM asInt).isSome
  | .float _ :: _ => (sts.mapM asFloat).isSome

/-- position by position (at most `fuel` positions): same key on every member, `stateOkB`. -/
def syncableGo : Nat → List (List (Key × TState)) → Bool
  | 0, rows => rows.all List.isEmpty
  | fuel + 1, rows =>
    if rows.all List.isEmpty then true else
    match rows.mapM List.head? with
    | none => false
    | some hs =>
      match hs with
      | [] => true
      | h0 :: _ => hs.all (fun h => h.1 == h0.1) && stateOkB (hs.map (·.2)) && syncableGo fuel (rows.map List.tail)

/-- `rows[i]` = member `i`'s collection in traversal order. -/
def syncableB (rows : List (List (Key × TState))) : Bool :=
  syncableGo (match rows with | r :: _ => r.length | [] => 0) rows

/-! ### arrival-order semantics (schedule independence) -/

/-- a configuration: every member's program, and the members that have arrived at the pending
    rendezvous (indices into `progs`). -/
structure Config (R : Type) where
  progs : List (Prog R)
  arrived : List Nat

/-- all members wait at their first collective (or have returned); nobody has arrived yet. -/
def Config.init {R : Type} (ps : List (Prog R)) : Config R := ⟨ps, []⟩

/-- one step of a group `g`:
    * `arrive i`: a member that sits at a collective and has not arrived yet arrives — in ANY order;
    * `complete`: once ALL members have arrived, the transport answers every member and they continue. -/
inductive Step {R : Type} (g : List Nat) : Config R → Config R → Prop where
  | arrive (c : Config R) (i : Nat) (q : Req) (k : Resp → Prog R)
      (hi : c.progs[i]? = some (.coll q k)) (hn : i ∉ c.arrived) :
      Step g c ⟨c.progs, i :: c.arrived⟩
  | complete (c : Config R) (qs : List Req) (r : Resp) (rs : List Resp)
      (hall : ∀ i, i < c.progs.length → i ∈ c.arrived)
      (hq : reqsOf c.progs = some qs) (hx : exchange g qs = .ok (r :: rs)) :
      Step g c ⟨stepAll c.progs (r :: rs), []⟩

/-- finitely many steps. -/
inductive Steps {R : Type} (g : List Nat) : Config R → Config R → Prop where
  | refl (c : Config R) : Steps g c c
  | tail {a b c : Config R} : Steps g a b → Step g b c → Steps g a c

/-- nothing can move any more. -/
def Final {R : Type} (g : List Nat) (c : Config R) : Prop := ∀ c', ¬ Step g c c'

/-- what a configuration in which nothing can move amounts to: everybody returned; or somebody
    raised; or somebody returned while others wait (a hang on real transports); or all wait at a
    rendezvous the transport rejects. -/
def Config.result {R : Type} (g : List Nat) (c : Config R) : Except Mismatch (List R) :=
  match dones c.progs with
  | some rs => .ok rs
  | none =>
    match firstFail c.progs with
    | some e => .error (.crashed e)
    | none =>
      match reqsOf c.progs with
      | none => .error .peerFinished
      | some qs =>
        match exchange g qs with
        | .error e => .error e
        | .ok _ => .error .arity

end TE.Sync
