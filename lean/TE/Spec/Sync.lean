/-
  TE.Spec.Sync — what gathering / syncing is supposed to deliver (C15, C02).
  No collectives, no padding, no negotiation: just "the list of all members'
  values in rank order, on every rank that receives".
-/
import TE.Model.Sync
namespace TE.Spec.Sync
open TE TE.Sync

/-- the values of members `0 … n-1`, in rank order. -/
def allOf {α : Type} (n : Nat) (sent : Nat → α) : List α := (List.range n).map sent

/-- does member `i` receive (destination `None` = everybody)? -/
def receives (dst : Option Nat) (i : Nat) : Bool :=
  match dst with
  | none => true
  | some d => i == d

/-- `send_tensors` / `sync_states` on member `i` of an `n`-member group: every member's
    value in rank order on receiving ranks, `None` elsewhere. -/
def gathered {α : Type} (n : Nat) (dst : Option Nat) (sent : Nat → α) (i : Nat) : Option (List α) :=
  if receives dst i then some (allOf n sent) else none

/-- the members other than `r`, ascending. -/
def others (n r : Nat) : List Nat := (List.range n).filter (· != r)

/-- `get_synced_metric` on member `r`: the local metric merged with all other members'
    metrics in rank order. -/
def merged {S : Type} (mrg : S → List S → Except Err S) (n : Nat) (loc : Nat → S) (r : Nat) : Except Err S :=
  mrg (loc r) ((others n r).map loc)

end TE.Spec.Sync
