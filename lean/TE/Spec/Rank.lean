/-
  TE.Spec.Rank — textbook definitions of the ranking / retrieval metrics (C08).

  * hit rate / reciprocal rank are defined by **explicitly ranking**: sort the
    candidates' scores in descending order and look up the (best) position of
    the target's score.
  * retrieval precision / recall are defined by **counting**: an item is
    retrieved iff fewer than `k` items score strictly higher; no sorting, no top-k.
  * click-through rate, weighted calibration: ratios of plain sums.
-/
import TE.Model.Basic
namespace TE.Spec.Rank
open TE

/-! ### ranking by sorting -/

/-- insert into a descending list (before the first element that is not larger). -/
def insertDesc (x : Q) : List Q → List Q
  | [] => [x]
  | y :: l => if x < y then y :: insertDesc x l else x :: y :: l

/-- the scores in descending order. -/
def sortedDesc : List Q → List Q
  | [] => []
  | x :: l => insertDesc x (sortedDesc l)

/-- 0-based position of the first entry equal to `y` (length of the list when absent). -/
def position (y : Q) : List Q → Nat
  | [] => 0
  | x :: l => if x = y then 0 else position y l + 1

/-- 0-based rank of the candidate `t` of a row: position of its score in the
    descending ranking (tied candidates share the best position). -/
def rankOf (row : List Q) (t : Nat) : Option Nat :=
  row[t]?.map fun y => position y (sortedDesc row)

/-- the API takes the target as an integer: outside `[0, C)` there is no such candidate. -/
def rankOfI (row : List Q) (t : Int) : Option Nat := if t < 0 then none else rankOf row t.toNat

/-- hit@k: the target is ranked among the first `k` (`k = none`: no cut-off). -/
def hit (k : Option Nat) (rank : Nat) : Q :=
  match k with
  | none => 1
  | some k => if rank < k then 1 else 0

/-- reciprocal rank with cut-off: `1 / (1-based rank)` when ranked among the first `k`, else 0. -/
def rr (k : Option Nat) (rank : Nat) : Q :=
  match k with
  | none => 1 / ((rank : Q) + 1)
  | some k => if rank < k then 1 / ((rank : Q) + 1) else 0

/-- per-sample hit rate of a batch (`none`: some target is not a candidate). -/
def hitRate (k : Option Nat) (rows : List (List Q)) (target : List Int) : Option (List Q) :=
  (rows.zip target).mapM fun p => (rankOfI p.1 p.2).map (hit k)

/-- per-sample reciprocal rank of a batch. -/
def reciprocalRank (k : Option Nat) (rows : List (List Q)) (target : List Int) : Option (List Q) :=
  (rows.zip target).mapM fun p => (rankOfI p.1 p.2).map (rr k)

/-! ### retrieval by counting -/

/-- number of items scoring strictly higher than `s`. -/
def above (scores : List Q) (s : Q) : Nat := scores.countP fun x => decide (s < x)

/-- an item is retrieved at cut-off `k` iff fewer than `k` items score strictly higher. -/
def retrieved (k : Option Nat) (scores : List Q) (s : Q) : Bool :=
  match k with
  | none => true
  | some k => decide (above scores s < k)

/-- sum of the labels of the retrieved items. -/
def relevantRetrieved (k : Option Nat) (items : List (Q × Q)) : Q :=
  (((items.filter fun p => retrieved k (items.map (·.1)) p.1)).map (·.2)).sum

/-- number of items the system returns: `k`, or all `n` for `k = none`, or
    `min k n` when `limit_k_to_size` caps `k` at the collection size. -/
def numReturned (k : Option Nat) (limit : Bool) (n : Nat) : Nat :=
  match k with
  | none => n
  | some k => if limit then min k n else k

def precision (k : Option Nat) (limit : Bool) (items : List (Q × Q)) : XQ :=
  xdiv (relevantRetrieved k items) (numReturned k limit items.length)

def recall (k : Option Nat) (items : List (Q × Q)) : XQ :=
  xdiv (relevantRetrieved k items) ((items.map (·.2)).sum)

/-! ### click-through rate, weighted calibration, collisions, frequency -/

/-- weighted clicks and total weight. -/
def weightedClicks (clicks weights : List Q) : Q := ((clicks.zip weights).map fun p => p.1 * p.2).sum
def ctr (clicks weights : List Q) : Q := weightedClicks clicks weights / weights.sum

/-- weighted calibration: Σ wᵢ·predᵢ / Σ wᵢ·labelᵢ -/
def calibration (pred label weight : List Q) : XQ :=
  xdiv ((weight.zip pred).map fun p => p.1 * p.2).sum ((weight.zip label).map fun p => p.1 * p.2).sum

/-- collisions of the id at position `i`: how many *other* positions hold the same id. -/
def collisions (ids : List Int) (x : Int) : Nat := (ids.filter fun y => y = x).length - 1

def frequency (k x : Q) : Q := if x < k then 1 else 0

end TE.Spec.Rank
