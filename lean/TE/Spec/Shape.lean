/-
  TE.Spec.Shape — the DOCUMENTED shape contract of every metric (C18), hand-written from the
  docstrings of torcheval.metrics.functional.* / the class `update()` methods, one `Valid_<stem>`
  per check helper `_<stem>_(update_)input_check` with the helper's own parameter list, so that it
  can be compared with the generated `TE.Gen.check_<stem>`.  Import-free (compiled into the driver:
  request `valid.<stem>`).

  Reading of the docstrings:
  * "(n_sample,)" is a 1-D tensor, "(n_sample, n_class)" a 2-D tensor, sample counts of input,
    target (and sample weights) must agree; `n_class` must equal `num_classes` when that is given.
  * "(num_tasks, n_sample) or (n_sample,)": 1-D only for `num_tasks = 1`; a 2-D tensor must have
    exactly `num_tasks` rows.  For `num_tasks = 1` the contract is read per function:
    `binary_auprc` and `binary_binned_auprc` (and `auc`) document and accept the one-row layout
    (1, n_sample) (`Valid_tasks`); the functions whose check says "`num_tasks = 1`, `input` is
    expected to be one-dimensional" — binary_auroc, binary_binned_auroc, binary_normalized_entropy,
    weighted_calibration, click_through_rate, retrieval_precision/recall and their windowed
    twins — mean exactly (n_sample,) for one task (`Valid_tasks1`; the upstream test-suite
    asserts that raise, coordinator decision).
  * "weight … to match input tensor shape": `weight.shape = input.shape`.
  * metrics that reduce over all elements and document no rank (psnr — whose own example is 2-D
    although the text says (N, C, H, W)) : any rank, equal shapes.
  Value ranges, dtypes and parameter domains are not part of `Valid` (they are oracles /
  `_param_check`s); extents may be 0 unless the docstring excludes empty input.

  `patterns_<stem>` : the named regions a check accepts although they are not `Valid`
  (TE.Props.C18 proves that the list is exhaustive); request `gap.<stem>` names the matches.
-/
import TE.Model.Shape
namespace TE.ShapeSpec
open TE TE.Shape

/-! ### families -/

/-- input (n_sample,), target (n_sample,) -/
def Valid_1d (input target : Shp) : Bool :=
  match input, target with
  | [n], [m] => n == m
  | _, _ => false

/-- input (n_sample,) or (n_sample, n_class), target (n_sample,); n_class = num_classes when given -/
def Valid_multiclass (input target : Shp) (num_classes : Option Int) : Bool :=
  match input, target with
  | [n], [m] => n == m
  | [n, c], [m] => n == m && (num_classes == none || num_classes == some (Int.ofNat c))
  | _, _ => false

/-- input (n_sample, n_class), target (n_sample,); n_class = num_classes when given -/
def Valid_scores (input target : Shp) (num_classes : Option Int) : Bool :=
  match input, target with
  | [n, c], [m] => n == m && (num_classes == none || num_classes == some (Int.ofNat c))
  | _, _ => false

/-- input (n_sample, n_label), target (n_sample, n_label); n_label = num_labels when given -/
def Valid_multilabel (input target : Shp) (num_labels : Option Int) : Bool :=
  match input, target with
  | [n, l], [m, l'] => n == m && l == l' && (num_labels == none || num_labels == some (Int.ofNat l))
  | _, _ => false

/-- input, target (n_sample,) [num_tasks = 1] or (num_tasks, n_sample) -/
def Valid_tasks (input target : Shp) (num_tasks : Int) : Bool :=
  match input, target with
  | [n], [m] => num_tasks == 1 && n == m
  | [t, n], [t', m] => Int.ofNat t == num_tasks && t == t' && n == m
  | _, _ => false

/-- input, target exactly (n_sample,) for num_tasks = 1, exactly (num_tasks, n_sample) otherwise -/
def Valid_tasks1 (input target : Shp) (num_tasks : Int) : Bool :=
  match input, target with
  | [n], [m] => num_tasks == 1 && n == m
  | [t, n], [t', m] => num_tasks != 1 && Int.ofNat t == num_tasks && t == t' && n == m
  | _, _ => false

/-- an optional weight tensor of the input's shape -/
def weightOk (input : Shp) (weight : Option Shp) : Bool := weight == none || weight == some input

/-- input (n_sample,) or (n_sample, n_output), target likewise -/
def Valid_regression (input target : Shp) : Bool :=
  match input, target with
  | [n], [m] => n == m
  | [n, d], [m, e] => n == m && d == e
  | _, _ => false

/-! ### per check helper -/

def Valid_binary_accuracy := Valid_1d
def Valid_binary_precision := Valid_1d
def Valid_binary_recall := Valid_1d
def Valid_binary_f1_score := Valid_1d
def Valid_binary_confusion_matrix := Valid_1d
def Valid_binary_precision_recall_curve := Valid_1d
def Valid_binary_recall_at_fixed_precision := Valid_1d

/-- `k > 1` needs scores for every class -/
def Valid_accuracy (input target : Shp) (num_classes : Option Int) (k : Int) : Bool :=
  Valid_multiclass input target num_classes && (decide (k ≤ 1) || ndim input == 2)
def Valid_precision := Valid_multiclass
def Valid_recall := Valid_multiclass
def Valid_f1_score := Valid_multiclass
/-- `num_classes` is a required argument of the confusion matrix: scores need exactly that many columns -/
def Valid_confusion_matrix (input target : Shp) (num_classes : Option Int) : Bool :=
  match input, target with
  | [n], [m] => n == m
  | [n, c], [m] => n == m && num_classes == some (Int.ofNat c)
  | _, _ => false

def Valid_multiclass_auroc (input target : Shp) (num_classes : Int) : Bool := Valid_scores input target (some num_classes)
def Valid_multiclass_auprc (input target : Shp) (num_classes : Int) : Bool := Valid_scores input target (some num_classes)
def Valid_multiclass_binned_auroc (input target : Shp) (num_classes : Int) : Bool := Valid_scores input target (some num_classes)
def Valid_multiclass_binned_auprc (input target : Shp) (num_classes : Int) : Bool := Valid_scores input target (some num_classes)
def Valid_multiclass_precision_recall_curve := Valid_scores
def Valid_hit_rate (input target : Shp) : Bool := Valid_scores input target none
def Valid_reciprocal_rank (input target : Shp) : Bool := Valid_scores input target none

def Valid_multilabel_accuracy (input target : Shp) : Bool := Valid_multilabel input target none
def Valid_topk_multilabel_accuracy (input target : Shp) : Bool := Valid_multilabel input target none
def Valid_multilabel_auprc (input target : Shp) (num_labels : Int) : Bool := Valid_multilabel input target (some num_labels)
def Valid_multilabel_binned_auprc (input target : Shp) (num_labels : Int) : Bool := Valid_multilabel input target (some num_labels)
def Valid_multilabel_precision_recall_curve (input target : Shp) (num_labels : Int) : Bool := Valid_multilabel input target (some num_labels)
def Valid_multilabel_recall_at_fixed_precision (input target : Shp) (num_labels : Int) : Bool := Valid_multilabel input target (some num_labels)

def Valid_binary_auprc := Valid_tasks
def Valid_binary_binned_auroc := Valid_tasks1
def Valid_binary_binned_auprc := Valid_tasks
/-- `indexes` (class update(), num_queries > 1): one query id per sample, i.e. the input's shape -/
def Valid_retrieval_precision (input target : Shp) (num_tasks : Int) (indexes : Option Shp) : Bool :=
  Valid_tasks1 input target num_tasks && weightOk input indexes
def Valid_retrieval_recall := Valid_retrieval_precision
def Valid_binary_auroc (input target : Shp) (num_tasks : Int) (weight : Option Shp) : Bool :=
  Valid_tasks1 input target num_tasks && weightOk input weight
def Valid_ne (input target : Shp) (num_tasks : Int) (weight : Option Shp) : Bool :=
  Valid_tasks1 input target num_tasks && weightOk input weight
/-- `weight`: a number (`none`) or a tensor of the input's size -/
def Valid_weighted_calibration (input target : Shp) (weight : Option Shp) (num_tasks : Int) : Bool :=
  Valid_tasks1 input target num_tasks && weightOk input weight
/-- input (num_events) or (num_objectives, num_events); weights of the same shape -/
def Valid_click_through_rate (input : Shp) (weights : Option Shp) (num_tasks : Int) : Bool :=
  Valid_tasks1 input input num_tasks && weightOk input weights

/-- sample_weight (n_sample,) -/
def Valid_mean_squared_error (input target : Shp) (sample_weight : Option Shp) : Bool :=
  Valid_regression input target &&
  (match sample_weight with
   | none => true
   | some [w] => some w == input.head?
   | some _ => false)
def Valid_r2_score := Valid_regression

/-- images of equal shape (any rank: the docstring's own example is 2-D) -/
def Valid_psnr (input target : Shp) : Bool := input == target

/-- input (n_samples, seq_len, vocab_size), target (n_samples, seq_len) -/
def Valid_perplexity (input target : Shp) : Bool :=
  match input, target with
  | [n, s, _], [m, s'] => n == m && s == s'
  | _, _ => false

/-- 1-D input -/
def Valid_frequency (input : Shp) : Bool := ndim input == 1
def Valid_num_collisions (input : Shp) : Bool := ndim input == 1

/-- a 1-D argument is the one-row layout (1, n) -/
def norm1 (s : Shp) : Shp := if ndim s == 1 then 1 :: s else s

/-- x, y: (n,) or (n_tasks, n) each — a 1-D argument is the (1, n) layout, so x (n,) with y (1, n) is the same
    single-task curve (coordinator decision: sample and task counts agree, nothing is broadcast) — with equal
    sample counts, n_tasks rows and at least one element
    ("Raises ValueError: if x and y [do not] have at least 1 element") -/
def Valid_auc (x y : Shp) (n_tasks : Int) : Bool :=
  Valid_tasks (norm1 x) (norm1 y) n_tasks && numel x != 0

/-- x (n,), y (m,) 1-D and non-empty (an empirical distribution needs an observation);
    weights "must have the same length as" their values -/
def Valid_wasserstein (x y : Shp) (x_weights y_weights : Option Shp) : Bool :=
  ndim x == 1 && ndim y == 1 && numel x != 0 && numel y != 0 && weightOk x x_weights && weightOk y y_weights

/-- both a string, or lists of the same length (`none` = str, `some n` = list of n strings) -/
def Valid_text (input target : Option Nat) : Bool := input == target
def Valid_word_error_rate := Valid_text
def Valid_word_information_preserved := Valid_text

/-! ### gap patterns: accepted by the check although not documented -/

abbrev Pat2 := List (String × (Shp → Shp → Bool))

/-- tasks family: what the `num_tasks` branch lets through -/
abbrev PatT := List (String × (Shp → Shp → Int → Bool))

def patterns_binary_auprc : PatT := [
  ("ndim=0,num_tasks=1", fun i t T => i == t && ndim i == 0 && T == 1),
  ("shape=(0,n),num_tasks=1", fun i t T => i == t && ndim i == 2 && size i 0 == 0 && T == 1),
  ("ndim=1,shape[0]=num_tasks>1", fun i t T => i == t && ndim i == 1 && T != 1 && Int.ofNat (size i 0) == T),
  ("ndim>=3,shape[0]=num_tasks>1", fun i t T => i == t && decide (ndim i ≥ 3) && T != 1 && Int.ofNat (size i 0) == T)]

def patterns_tasks0 : PatT := [
  ("ndim=0,num_tasks=1", fun i t T => i == t && ndim i == 0 && T == 1)]

def patterns_binary_binned_auroc : PatT := []
def patterns_binary_binned_auprc : PatT := []

abbrev PatTW := List (String × (Shp → Shp → Int → Option Shp → Bool))
def liftW (p : PatT) : PatTW := p.map fun (n, f) => (n, fun i t T w => f i t T && weightOk i w)

def patterns_binary_auroc : PatTW := liftW patterns_tasks0
def patterns_ne : PatTW := []

/-- the helper never looks at `weight` (it is compared with the input later, in `_update`) -/
def patterns_weighted_calibration : PatTW := [
  ("weight.shape!=input.shape", fun i t T w => Valid_tasks1 i t T && !weightOk i w)]

def patterns_click_through_rate : List (String × (Shp → Option Shp → Int → Bool)) := []

abbrev PatR := List (String × (Shp → Shp → Option Shp → Bool))
def patterns_mean_squared_error : PatR := [
  ("ndim=0", fun i t w => i == t && ndim i == 0 && w == none)]
def patterns_r2_score : Pat2 := [
  ("ndim=0", fun i t => i == t && ndim i == 0)]

def patterns_auc : PatT := []

def patterns_wasserstein : List (String × (Shp → Shp → Option Shp → Option Shp → Bool)) := [
  ("x.ndim=0", fun x y xw yw => ndim x == 0 && decide (ndim y ≤ 1) && numel y != 0 && weightOk x xw && weightOk y yw),
  ("y.ndim=0", fun x y xw yw => ndim y == 0 && ndim x == 1 && numel x != 0 && weightOk x xw && weightOk y yw)]

/-! ### driver tables -/

def validTable : List (String × (CallArgs → Bool)) := [
  ("binary_accuracy", fun a => Valid_binary_accuracy (a.shape "input") (a.shape "target")),
  ("binary_precision", fun a => Valid_binary_precision (a.shape "input") (a.shape "target")),
  ("binary_recall", fun a => Valid_binary_recall (a.shape "input") (a.shape "target")),
  ("binary_f1_score", fun a => Valid_binary_f1_score (a.shape "input") (a.shape "target")),
  ("binary_confusion_matrix", fun a => Valid_binary_confusion_matrix (a.shape "input") (a.shape "target")),
  ("binary_precision_recall_curve", fun a => Valid_binary_precision_recall_curve (a.shape "input") (a.shape "target")),
  ("binary_recall_at_fixed_precision", fun a => Valid_binary_recall_at_fixed_precision (a.shape "input") (a.shape "target")),
  ("accuracy", fun a => Valid_accuracy (a.shape "input") (a.shape "target") (a.oint "num_classes") (a.int "k")),
  ("precision", fun a => Valid_precision (a.shape "input") (a.shape "target") (a.oint "num_classes")),
  ("recall", fun a => Valid_recall (a.shape "input") (a.shape "target") (a.oint "num_classes")),
  ("f1_score", fun a => Valid_f1_score (a.shape "input") (a.shape "target") (a.oint "num_classes")),
  ("confusion_matrix", fun a => Valid_confusion_matrix (a.shape "input") (a.shape "target") (a.oint "num_classes")),
  ("multiclass_auroc", fun a => Valid_multiclass_auroc (a.shape "input") (a.shape "target") (a.int "num_classes")),
  ("multiclass_auprc", fun a => Valid_multiclass_auprc (a.shape "input") (a.shape "target") (a.int "num_classes")),
  ("multiclass_binned_auroc", fun a => Valid_multiclass_binned_auroc (a.shape "input") (a.shape "target") (a.int "num_classes")),
  ("multiclass_binned_auprc", fun a => Valid_multiclass_binned_auprc (a.shape "input") (a.shape "target") (a.int "num_classes")),
  ("multiclass_precision_recall_curve", fun a => Valid_multiclass_precision_recall_curve (a.shape "input") (a.shape "target") (a.oint "num_classes")),
  ("hit_rate", fun a => Valid_hit_rate (a.shape "input") (a.shape "target")),
  ("reciprocal_rank", fun a => Valid_reciprocal_rank (a.shape "input") (a.shape "target")),
  ("multilabel_accuracy", fun a => Valid_multilabel_accuracy (a.shape "input") (a.shape "target")),
  ("topk_multilabel_accuracy", fun a => Valid_topk_multilabel_accuracy (a.shape "input") (a.shape "target")),
  ("multilabel_auprc", fun a => Valid_multilabel_auprc (a.shape "input") (a.shape "target") (a.int "num_labels")),
  ("multilabel_binned_auprc", fun a => Valid_multilabel_binned_auprc (a.shape "input") (a.shape "target") (a.int "num_labels")),
  ("multilabel_precision_recall_curve", fun a => Valid_multilabel_precision_recall_curve (a.shape "input") (a.shape "target") (a.int "num_labels")),
  ("multilabel_recall_at_fixed_precision", fun a => Valid_multilabel_recall_at_fixed_precision (a.shape "input") (a.shape "target") (a.int "num_labels")),
  ("binary_auprc", fun a => Valid_binary_auprc (a.shape "input") (a.shape "target") (a.int "num_tasks")),
  ("binary_binned_auroc", fun a => Valid_binary_binned_auroc (a.shape "input") (a.shape "target") (a.int "num_tasks")),
  ("binary_binned_auprc", fun a => Valid_binary_binned_auprc (a.shape "input") (a.shape "target") (a.int "num_tasks")),
  ("retrieval_precision", fun a => Valid_retrieval_precision (a.shape "input") (a.shape "target") (a.int "num_tasks") (a.oshape "indexes")),
  ("retrieval_recall", fun a => Valid_retrieval_recall (a.shape "input") (a.shape "target") (a.int "num_tasks") (a.oshape "indexes")),
  ("binary_auroc", fun a => Valid_binary_auroc (a.shape "input") (a.shape "target") (a.int "num_tasks") (a.oshape "weight")),
  ("ne", fun a => Valid_ne (a.shape "input") (a.shape "target") (a.int "num_tasks") (a.oshape "weight")),
  ("weighted_calibration", fun a => Valid_weighted_calibration (a.shape "input") (a.shape "target") (a.oshape "weight") (a.int "num_tasks")),
  ("click_through_rate", fun a => Valid_click_through_rate (a.shape "input") (a.oshape "weights") (a.int "num_tasks")),
  ("mean_squared_error", fun a => Valid_mean_squared_error (a.shape "input") (a.shape "target") (a.oshape "sample_weight")),
  ("r2_score", fun a => Valid_r2_score (a.shape "input") (a.shape "target")),
  ("psnr", fun a => Valid_psnr (a.shape "input") (a.shape "target")),
  ("perplexity", fun a => Valid_perplexity (a.shape "input") (a.shape "target")),
  ("frequency", fun a => Valid_frequency (a.shape "input")),
  ("num_collisions", fun a => Valid_num_collisions (a.shape "input")),
  ("auc", fun a => Valid_auc (a.shape "x") (a.shape "y") (a.int "n_tasks")),
  ("wasserstein", fun a => Valid_wasserstein (a.shape "x") (a.shape "y") (a.oshape "x_weights") (a.oshape "y_weights")),
  ("word_error_rate", fun a => Valid_word_error_rate (a.seq "input") (a.seq "target")),
  ("word_information_preserved", fun a => Valid_word_information_preserved (a.seq "input") (a.seq "target"))]

def names {α} (ps : List (String × α)) (f : α → Bool) : List String := (ps.filter (fun p => f p.2)).map (·.1)

def gapTable : List (String × (CallArgs → List String)) := [
  ("binary_auprc", fun a => names patterns_binary_auprc (fun p => p (a.shape "input") (a.shape "target") (a.int "num_tasks"))),
  ("binary_binned_auroc", fun a => names patterns_binary_binned_auroc (fun p => p (a.shape "input") (a.shape "target") (a.int "num_tasks"))),
  ("binary_binned_auprc", fun a => names patterns_binary_binned_auprc (fun p => p (a.shape "input") (a.shape "target") (a.int "num_tasks"))),
  ("binary_auroc", fun a => names patterns_binary_auroc (fun p => p (a.shape "input") (a.shape "target") (a.int "num_tasks") (a.oshape "weight"))),
  ("ne", fun a => names patterns_ne (fun p => p (a.shape "input") (a.shape "target") (a.int "num_tasks") (a.oshape "weight"))),
  ("weighted_calibration", fun a => names patterns_weighted_calibration (fun p => p (a.shape "input") (a.shape "target") (a.int "num_tasks") (a.oshape "weight"))),
  ("click_through_rate", fun a => names patterns_click_through_rate (fun p => p (a.shape "input") (a.oshape "weights") (a.int "num_tasks"))),
  ("mean_squared_error", fun a => names patterns_mean_squared_error (fun p => p (a.shape "input") (a.shape "target") (a.oshape "sample_weight"))),
  ("r2_score", fun a => names patterns_r2_score (fun p => p (a.shape "input") (a.shape "target"))),
  ("wasserstein", fun a => names patterns_wasserstein (fun p => p (a.shape "x") (a.shape "y") (a.oshape "x_weights") (a.oshape "y_weights")))]

/-- names of all gap patterns per check helper (driver request `gap.names`) -/
def gapNames : List (String × List String) := [
  ("binary_auprc", patterns_binary_auprc.map (·.1)),
  ("binary_binned_auroc", patterns_binary_binned_auroc.map (·.1)),
  ("binary_auroc", patterns_binary_auroc.map (·.1)),
  ("ne", patterns_ne.map (·.1)),
  ("weighted_calibration", patterns_weighted_calibration.map (·.1)),
  ("mean_squared_error", patterns_mean_squared_error.map (·.1)),
  ("r2_score", patterns_r2_score.map (·.1)),
  ("wasserstein", patterns_wasserstein.map (·.1))]

end TE.ShapeSpec
