/-
  TE.Spec.Count — textbook definitions by direct counting (C04).
  `preds` / `labs` are class indices per sample; binary predictions are
  `[x ≥ thr]`.  Every spec is a count over the list of (prediction, label)
  pairs — no scatter, no masks.
-/
import TE.Model.Basic
namespace TE.Spec.Count
open TE

abbrev Pairs := List (Nat × Nat)   -- (prediction, label)

def tp (ps : Pairs) (c : Nat) : Nat := ps.countP fun p => p.1 == c && p.2 == c
def fp (ps : Pairs) (c : Nat) : Nat := ps.countP fun p => p.1 == c && p.2 != c
def fn (ps : Pairs) (c : Nat) : Nat := ps.countP fun p => p.1 != c && p.2 == c
def support (ps : Pairs) (c : Nat) : Nat := ps.countP fun p => p.2 == c
def predicted (ps : Pairs) (c : Nat) : Nat := ps.countP fun p => p.1 == c
def correct (ps : Pairs) : Nat := ps.countP fun p => p.1 == p.2

/-- binary prediction: positive iff the score reaches the threshold. -/
def binPred (thr x : Q) : Nat := if thr ≤ x then 1 else 0

def ratio0 (a b : Nat) : Q := if b = 0 then 0 else (a : Q) / (b : Q)

/-- per-class precision / recall / F1 with the documented `0` for undefined ratios. -/
def precision (ps : Pairs) (c : Nat) : Q := ratio0 (tp ps c) (tp ps c + fp ps c)
def recall (ps : Pairs) (c : Nat) : Q := ratio0 (tp ps c) (support ps c)
def f1 (ps : Pairs) (c : Nat) : Q := ratio0 (2 * tp ps c) (2 * tp ps c + fp ps c + fn ps c)

/-- classes taking part in macro / weighted averages: those present in the
    labels or in the predictions. -/
def present (ps : Pairs) (C : Nat) : List Nat :=
  (List.range C).filter fun c => support ps c != 0 || predicted ps c != 0

def microAccuracy (ps : Pairs) : XQ := xdiv (correct ps) ps.length

/-- per-class accuracy (= per-class recall without the NaN convention). -/
def classAccuracy (ps : Pairs) (c : Nat) : XQ := xdiv (tp ps c) (support ps c)

/-- confusion matrix entry: true class `t`, predicted class `p`. -/
def confusion (ps : Pairs) (t p : Nat) : Nat := ps.countP fun q => q.2 == t && q.1 == p

/-- top-k correctness of one sample: fewer than `k` classes score strictly
    higher than the true class. -/
def topkCorrect (row : List Q) (lab k : Nat) : Bool :=
  decide ((row.filter fun x => row.getD lab 0 < x).length < k)

end TE.Spec.Count
