/-
  TE.Spec.Binned — textbook definitions for C06 by direct counting.
  A sample is `(score, label)` with label 1 = positive, 0 = negative.  Per
  threshold `u`:  TP = #{y=1 ∧ x ≥ u},  FP = #{y=0 ∧ x ≥ u},  FN = #{y=1 ∧ x < u}.
  Rounding down to the threshold grid, exact AUROC (pair counting, ½ for ties)
  and exact AUPRC (average precision) are defined here as well — a small private
  copy: the un-binned curve metrics are the subject of C05.
-/
import TE.Model.Basic
namespace TE.Spec.Binned
open TE

abbrev Samples := List (Q × Nat)

def tpAt (s : Samples) (u : Q) : Nat := s.countP fun p => p.2 == 1 && decide (u ≤ p.1)
def fpAt (s : Samples) (u : Q) : Nat := s.countP fun p => p.2 == 0 && decide (u ≤ p.1)
def fnAt (s : Samples) (u : Q) : Nat := s.countP fun p => p.2 == 1 && decide (p.1 < u)

/-- precision at threshold `u` (`NaN` when nothing is predicted positive). -/
def precisionAt (s : Samples) (u : Q) : XQ := xdiv (tpAt s u) ((tpAt s u : Q) + (fpAt s u : Q))
/-- recall at threshold `u` (`NaN` when there is no positive sample). -/
def recallAt (s : Samples) (u : Q) : XQ := xdiv (tpAt s u) ((tpAt s u : Q) + (fnAt s u : Q))

/-- the documented binned curve: per threshold the precision (with the convention
    `1` when nothing is predicted positive) and recall, then the point `(1, 0)`. -/
def curve (s : Samples) (t : List Q) : List XQ × List XQ :=
  (t.map (fun u => match precisionAt s u with | .nan => .val 1 | p => p) ++ [.val 1],
   t.map (fun u => recallAt s u) ++ [.val 0])

/-- one-vs-rest view of class `c` of a multiclass batch. -/
def ovr (rows : List (List Q)) (labs : List Nat) (c : Nat) : Samples :=
  (rows.zip labs).map fun p => (p.1.getD c 0, if p.2 = c then 1 else 0)

/-- column `l` of a multilabel batch. -/
def labelCol (rows : List (List Q)) (tgts : List (List Nat)) (l : Nat) : Samples :=
  (rows.zip tgts).map fun p => (p.1.getD l 0, p.2.getD l 0)

/-- the three `(T, S)` count matrices (TP, FP, FN) of `S` binary problems `view 0 … view (S-1)`. -/
def countMats (view : Nat → Samples) (S : Nat) (t : List Q) : Mat × Mat × Mat :=
  (t.map fun u => (List.range S).map fun s => ((tpAt (view s) u : Nat) : Q),
   t.map fun u => (List.range S).map fun s => ((fpAt (view s) u : Nat) : Q),
   t.map fun u => (List.range S).map fun s => ((fnAt (view s) u : Nat) : Q))

/-! ### rounding down to the threshold grid -/

/-- `v` is `x` rounded down to the nearest threshold: the largest threshold `≤ x`. -/
structure IsFloorOf (t : List Q) (x v : Q) : Prop where
  mem : v ∈ t
  le : v ≤ x
  greatest : ∀ u ∈ t, u ≤ x → u ≤ v

def maxOf : List Q → Option Q
  | [] => none
  | u :: t => match maxOf t with
    | none => some u
    | some m => some (if m < u then u else m)

/-- the largest threshold `≤ x` (`none` when `x` is below every threshold). -/
def floorTo? (t : List Q) (x : Q) : Option Q := maxOf (t.filter fun u => decide (u ≤ x))

/-! ### exact AUROC / AUPRC -/

def positives (s : Samples) : List Q := (s.filter fun p => p.2 == 1).map (·.1)
def negatives (s : Samples) : List Q := (s.filter fun p => p.2 == 0).map (·.1)

/-- a (positive, negative) pair counts 1 when ranked correctly, ½ when tied. -/
def pairScore (a b : Q) : Q := if b < a then 1 else if a = b then 1 / 2 else 0

/-- sum over all (positive, negative) pairs -/
def pairSum (s : Samples) : Q :=
  ((positives s).map fun a => ((negatives s).map fun b => pairScore a b).sum).sum

/-- exact AUROC: fraction of correctly ranked (positive, negative) pairs, ties ½;
    `0.5` when there is no such pair. -/
def aurocSpec (s : Samples) : Q :=
  let d : Q := ((positives s).length : Q) * ((negatives s).length : Q)
  if d = 0 then 1 / 2 else pairSum s / d

/-- sum over the positives of the precision at the positive's own score -/
def apSum (s : Samples) : Q :=
  ((positives s).map fun a => (tpAt s a : Q) / ((tpAt s a : Q) + (fpAt s a : Q))).sum

/-- exact AUPRC (average precision): the Riemann sum `Σ (r_k − r_{k+1})·p_k` over the
    distinct scores, where `r_k − r_{k+1}` = (#positives scoring exactly `v_k`)/P, i.e. the
    mean over the positives of the precision at their own score; `0` without positives. -/
def auprcSpec (s : Samples) : Q :=
  let P : Q := ((positives s).length : Q)
  if P = 0 then 0 else apSum s / P

end TE.Spec.Binned
