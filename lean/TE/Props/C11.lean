/-
  C11 — non-interference: merge_state never disturbs its sources (then and after any
  later operation on the target), compute() does not write registered state, update()
  does not write through caller arguments.
  Semantics: TE.Model.Heap (cells with version counters).  Soundness of the checker
  `safeProg` is proved once (`TE.Heap.run_safe`); per class the effect programs are
  regenerated from /repo by harness/translators/effects.py (AST classification +
  storage-identity observation on the real objects) and decided here.
-/
import TE.Lemmas.Heap
import TE.Gen.Effects
namespace TE.C11
open TE TE.Heap

/-- **merge non-interference**: running any safe effect program (no rebind to foreign
    storage, no in-place write through a foreign reference) from a target whose cells are
    separate from the protected (source / argument) cells leaves every protected cell's
    version untouched **and** keeps the target separate. -/
theorem safe_program_preserves_sources (p : List Eff) (h : Heap) (tgt : Obj) (srcCells : List Cell)
    (hs : safeProg p = true) (inv : Sep h tgt srcCells) :
    (∀ c ∈ srcCells, (run (h, tgt) p).1.ver c = h.ver c) ∧
      Sep (run (h, tgt) p).1 (run (h, tgt) p).2 srcCells :=
  ⟨(run_safe p h tgt srcCells hs inv).2, (run_safe p h tgt srcCells hs inv).1⟩

/-- "…and after any later operation on the merge target": any number of further safe
    programs (updates, merges, computes, resets of the target) still never touch them. -/
theorem later_operations_preserve_sources (ps : List (List Eff)) (h : Heap) (tgt : Obj)
    (srcCells : List Cell) (hs : ∀ p ∈ ps, safeProg p = true) (inv : Sep h tgt srcCells) :
    ∀ c ∈ srcCells, (run (h, tgt) ps.flatten).1.ver c = h.ver c := by
  have : safeProg ps.flatten = true := by
    simp only [safeProg, List.all_eq_true, List.mem_flatten] at hs ⊢
    rintro e ⟨p, hp, he⟩
    exact hs p hp e he
  exact (run_safe ps.flatten h tgt srcCells this inv).2

/-- what goes wrong otherwise (the defect repaired by the `fix:` commit 44b073f): adopting
    the source's tensor and then accumulating in place bumps the *source's* version. -/
theorem alias_then_inplace_witness :
    let h : Heap := ⟨fun _ => 0, 10⟩
    (run (h, [("sum", 3)]) [.rebindAlias "sum" 7, .inplace "sum"]).1.ver 7 = 1 := by decide

/-! ### generated per-class obligations -/

theorem merge_safe_all :
    Gen.classEffects.all (fun c => safeProg c.merge && c.dynAliasAfterMerge.isEmpty) = true := by
  decide +kernel

/-- compute() performs no write at all on registered state (statically) and rebinds none (observed). -/
theorem compute_pure_all :
    Gen.classEffects.all (fun c => c.compute.isEmpty && c.dynComputeRebinds.isEmpty) = true := by
  decide +kernel

/-- update() contains no in-place write through an argument. -/
theorem update_args_untouched_all : Gen.classEffects.all (fun c => c.update.isEmpty) = true := by
  decide +kernel

example : Gen.classEffects.length ≥ 60 ∧
    (Gen.classEffects.filter fun c => !c.merge.isEmpty).length ≥ 50 := by decide +kernel

/-- non-vacuity of `Sep`: a target with two cells, two protected source cells. -/
example : Sep ⟨fun _ => 0, 10⟩ [("a", 1), ("b", 2)] [5, 6] := by
  refine ⟨?_, ?_⟩
  · intro c hc
    simp only [cells, List.map_cons, List.map_nil, List.mem_cons, List.not_mem_nil, or_false] at hc
    rcases hc with rfl | rfl <;> simp
  · intro c hc
    simp only [List.mem_cons, List.not_mem_nil, or_false] at hc
    rcases hc with rfl | rfl <;> simp

end TE.C11
