/-
  C04 — count-based classification metrics equal their textbook definitions.
  ONLY property theorems and non-vacuity examples live here; helper lemmas are
  in TE/Lemmas/Count.lean.
-/
import TE.Model.Count
import TE.Spec.Count
import TE.Lemmas.Count
namespace TE.C04
open TE TE.Count TE.Spec.Count TE.CountL

/-- `torch.where(input < threshold, 0, 1)` is the textbook `[x ≥ thr]`,
    including `x = thr` (boundary counted as positive). -/
theorem thresh_eq_binPred (thr x : Q) : thresh thr x = binPred thr x := by
  unfold thresh binPred
  by_cases h : x < thr
  · have : ¬ thr ≤ x := Rat.not_le.mpr h
    simp [h, this]
  · have : thr ≤ x := Rat.not_lt.mp h
    simp [h, this]

/-- the left fold used by the models is the ordinary list sum. -/
theorem qsum_eq_sum (l : List Q) : qsum l = l.sum := CountL.qsum_eq_sum l

/-! ## 1. scatter = counting -/

/-- `zeros(n).scatter_(0, idx, vals, "add")`: entry `c` is the sum of the values
    sitting at the positions where `idx = c`. -/
theorem scatterAdd_eq_sum (n : Nat) (idx : List Nat) (vals : List Q)
    (h : idx.all (· < n) = true) :
    scatterAdd n idx vals = .ok ((List.range n).map fun c =>
      (((idx.zip vals).filter fun p => p.1 == c).map (·.2)).sum) :=
  scatterAdd_ok n idx vals h

theorem scatterAdd_error (n : Nat) (idx : List Nat) (vals : List Q)
    (h : ¬ idx.all (· < n) = true) : scatterAdd n idx vals = .error .runtime :=
  CountL.scatterAdd_error n idx vals h

/-- scatter of ones = per-class occurrence counts. -/
theorem scatterOnes_eq_count (n : Nat) (idx : List Nat) (h : idx.all (· < n) = true) :
    scatterOnes n idx = .ok ((List.range n).map fun c => (idx.count c : Q)) :=
  scatterOnes_ok n idx h

theorem scatterOnes_error (n : Nat) (idx : List Nat) (h : ¬ idx.all (· < n) = true) :
    scatterOnes n idx = .error .runtime :=
  CountL.scatterAdd_error n idx _ h

/-- `scatterOnes` succeeds exactly on in-range indices. -/
theorem scatterOnes_ok_iff (n : Nat) (idx : List Nat) :
    (∃ v, scatterOnes n idx = .ok v) ↔ idx.all (· < n) = true := by
  constructor
  · intro ⟨v, hv⟩
    apply Decidable.byContradiction
    intro h
    rw [scatterOnes_error n idx h] at hv
    cases hv
  · intro h; exact ⟨_, scatterOnes_ok n idx h⟩


example : scatterOnes 3 [2, 0, 2] = .ok [1, 0, 2] := by
  rw [scatterOnes_eq_count _ _ (by decide)]; simp [List.range, List.range.loop]
example : scatterOnes 3 [2, 3] = .error .runtime := scatterOnes_error _ _ (by decide)
example : scatterAdd 3 [2, 0, 2] [5, 7, 11] = .ok [7, 0, 16] := by
  rw [scatterAdd_eq_sum _ _ _ (by decide)]; simp [List.range, List.range.loop, List.filter]; grind

/-! ## 4. `_precision_update` / `_recall_update` = per-class counts -/

/-- per-class (macro / weighted / none) precision state: true positives, false
    positives and label counts of every class. -/
theorem precisionUpdate_eq (preds labs : List Nat) (avg : Avg) (C : Nat)
    (hlen : preds.length = labs.length)
    (hp : preds.all (· < C) = true) (hl : labs.all (· < C) = true) (havg : avg ≠ .micro) :
    precisionUpdate preds labs avg C = .ok
      ⟨(List.range C).map fun c => (tp (preds.zip labs) c : Q),
       (List.range C).map fun c => (fp (preds.zip labs) c : Q),
       (List.range C).map fun c => (support (preds.zip labs) c : Q)⟩ := by
  have h1 := scatterOnes_ok C labs hl
  have h2 := scatterOnes_ok C _ (all_snd_filter_zip preds labs (fun p => p.1 == p.2) C hl)
  have h3 := scatterOnes_ok C _ (all_fst_filter_zip preds labs (fun p => p.1 != p.2) C hp)
  cases avg <;> first | exact absurd rfl havg | skip
  all_goals
    simp only [precisionUpdate, h1, h2, h3, bind, Except.bind, ← tp_eq_count, ← fp_eq_count,
      support_zip preds labs hlen]

/-- micro precision state: `(#correct, #wrong, 0)`. -/
theorem precisionUpdate_micro_eq (preds labs : List Nat) (C : Nat) :
    precisionUpdate preds labs .micro C = .ok
      ⟨[(correct (preds.zip labs) : Q)],
       [(((preds.zip labs).length - correct (preds.zip labs) : Nat) : Q)], [0]⟩ := by
  have h := correct_add_wrong (preds.zip labs)
  have : (preds.zip labs).length - correct (preds.zip labs)
      = (preds.zip labs).countP (fun p => p.1 != p.2) := by omega
  rw [this]; rfl

/-- an out-of-range label makes `_precision_update` raise. -/
theorem precisionUpdate_error (preds labs : List Nat) (avg : Avg) (C : Nat)
    (hl : ¬ labs.all (· < C) = true) (havg : avg ≠ .micro) :
    precisionUpdate preds labs avg C = .error .runtime := by
  have h1 := scatterOnes_error C labs hl
  cases avg <;> first | exact absurd rfl havg | skip
  all_goals simp only [precisionUpdate, h1, bind, Except.bind]

example : precisionUpdate [0, 2, 1, 2] [0, 1, 1, 2] .macro 3 = .ok ⟨[1, 1, 1], [0, 0, 1], [1, 2, 1]⟩ := by
  rw [precisionUpdate_eq _ _ _ _ rfl (by decide) (by decide) (by decide)]
  simp [List.range, List.range.loop, tp, fp, support]

/-- per-class recall / F1 state: true positives, label counts, prediction counts. -/
theorem recallUpdate_eq (preds labs : List Nat) (avg : Avg) (C : Nat)
    (hlen : preds.length = labs.length)
    (hp : preds.all (· < C) = true) (hl : labs.all (· < C) = true) (havg : avg ≠ .micro) :
    recallUpdate preds labs avg C = .ok
      ⟨(List.range C).map fun c => (tp (preds.zip labs) c : Q),
       (List.range C).map fun c => (support (preds.zip labs) c : Q),
       (List.range C).map fun c => (predicted (preds.zip labs) c : Q)⟩ := by
  have h1 := scatterOnes_ok C labs hl
  have h2 := scatterOnes_ok C _ (all_snd_filter_zip preds labs (fun p => p.1 == p.2) C hl)
  have h3 := scatterOnes_ok C preds hp
  cases avg <;> first | exact absurd rfl havg | skip
  all_goals
    simp only [recallUpdate, h1, h2, h3, bind, Except.bind, ← tp_eq_count,
      support_zip preds labs hlen, predicted_zip preds labs hlen]

/-- micro recall / F1 state: `(#correct, n, n)`. -/
theorem recallUpdate_micro_eq (preds labs : List Nat) (C : Nat) :
    recallUpdate preds labs .micro C = .ok
      ⟨[(correct (preds.zip labs) : Q)], [(labs.length : Q)], [(labs.length : Q)]⟩ := rfl

theorem recallUpdate_error (preds labs : List Nat) (avg : Avg) (C : Nat)
    (h : ¬ (preds.all (· < C) = true ∧ labs.all (· < C) = true)) (havg : avg ≠ .micro) :
    recallUpdate preds labs avg C = .error .runtime := by
  cases avg <;> first | exact absurd rfl havg | skip
  all_goals
    by_cases hl : labs.all (· < C) = true
    · have hp : ¬ preds.all (· < C) = true := fun hp => h ⟨hp, hl⟩
      simp only [recallUpdate, scatterOnes_ok C labs hl, scatterOnes_error C preds hp, bind, Except.bind]
    · simp only [recallUpdate, scatterOnes_error C labs hl, bind, Except.bind]

example : recallUpdate [0, 2, 1, 2] [0, 1, 1, 2] .none 3 = .ok ⟨[1, 1, 1], [1, 2, 1], [1, 1, 2]⟩ := by
  rw [recallUpdate_eq _ _ _ _ rfl (by decide) (by decide) (by decide)]
  simp [List.range, List.range.loop, tp, predicted, support]

end TE.C04
