/-
  C04 — count-based classification metrics equal their textbook definitions.
  ONLY property theorems and non-vacuity examples live here; helper lemmas are
  in TE/Lemmas/Count.lean.
-/
import TE.Model.Count
import TE.Spec.Count
namespace TE.C04
open TE TE.Count TE.Spec.Count

/-- `torch.where(input < threshold, 0, 1)` is the textbook `[x ≥ thr]`,
    including `x = thr` (boundary counted as positive). -/
theorem thresh_eq_binPred (thr x : Q) : thresh thr x = binPred thr x := by
  unfold thresh binPred
  by_cases h : x < thr
  · have : ¬ thr ≤ x := Rat.not_le.mpr h
    simp [h, this]
  · have : thr ≤ x := Rat.not_lt.mp h
    simp [h, this]

end TE.C04
