/-
  C04 — count-based classification metrics equal their textbook definitions.
  ONLY property theorems and non-vacuity examples live here; helper lemmas are
  in TE/Lemmas/Count.lean.
-/
import TE.Model.Count
import TE.Spec.Count
import TE.Lemmas.Count
namespace TE.C04
open TE TE.Count TE.Spec.Count TE.CountL

/-- `torch.where(input < threshold, 0, 1)` is the textbook `[x ≥ thr]`,
    including `x = thr` (boundary counted as positive). -/
theorem thresh_eq_binPred (thr x : Q) : thresh thr x = binPred thr x := by
  unfold thresh binPred
  by_cases h : x < thr
  · have : ¬ thr ≤ x := Rat.not_le.mpr h
    simp [h, this]
  · have : thr ≤ x := Rat.not_lt.mp h
    simp [h, this]

/-- the left fold used by the models is the ordinary list sum. -/
theorem qsum_eq_sum (l : List Q) : qsum l = l.sum := CountL.qsum_eq_sum l

/-! ## 1. scatter = counting -/

/-- `zeros(n).scatter_(0, idx, vals, "add")`: entry `c` is the sum of the values
    sitting at the positions where `idx = c`. -/
theorem scatterAdd_eq_sum (n : Nat) (idx : List Nat) (vals : List Q)
    (h : idx.all (· < n) = true) :
    scatterAdd n idx vals = .ok ((List.range n).map fun c =>
      (((idx.zip vals).filter fun p => p.1 == c).map (·.2)).sum) :=
  scatterAdd_ok n idx vals h

theorem scatterAdd_error (n : Nat) (idx : List Nat) (vals : List Q)
    (h : ¬ idx.all (· < n) = true) : scatterAdd n idx vals = .error .runtime :=
  CountL.scatterAdd_error n idx vals h

/-- scatter of ones = per-class occurrence counts. -/
theorem scatterOnes_eq_count (n : Nat) (idx : List Nat) (h : idx.all (· < n) = true) :
    scatterOnes n idx = .ok ((List.range n).map fun c => (idx.count c : Q)) :=
  scatterOnes_ok n idx h

theorem scatterOnes_error (n : Nat) (idx : List Nat) (h : ¬ idx.all (· < n) = true) :
    scatterOnes n idx = .error .runtime :=
  CountL.scatterAdd_error n idx _ h

/-- `scatterOnes` succeeds exactly on in-range indices. -/
theorem scatterOnes_ok_iff (n : Nat) (idx : List Nat) :
    (∃ v, scatterOnes n idx = .ok v) ↔ idx.all (· < n) = true := by
  constructor
  · intro ⟨v, hv⟩
    apply Decidable.byContradiction
    intro h
    rw [scatterOnes_error n idx h] at hv
    cases hv
  · intro h; exact ⟨_, scatterOnes_ok n idx h⟩


example : scatterOnes 3 [2, 0, 2] = .ok [1, 0, 2] := by
  rw [scatterOnes_eq_count _ _ (by decide)]; simp [List.range, List.range.loop]
example : scatterOnes 3 [2, 3] = .error .runtime := scatterOnes_error _ _ (by decide)
example : scatterAdd 3 [2, 0, 2] [5, 7, 11] = .ok [7, 0, 16] := by
  rw [scatterAdd_eq_sum _ _ _ (by decide)]; simp [List.range, List.range.loop, List.filter]; grind

/-! ## 4. `_precision_update` / `_recall_update` = per-class counts -/

/-- per-class (macro / weighted / none) precision state: true positives, false
    positives and label counts of every class. -/
theorem precisionUpdate_eq (preds labs : List Nat) (avg : Avg) (C : Nat)
    (hlen : preds.length = labs.length)
    (hp : preds.all (· < C) = true) (hl : labs.all (· < C) = true) (havg : avg ≠ .micro) :
    precisionUpdate preds labs avg C = .ok
      ⟨(List.range C).map fun c => (tp (preds.zip labs) c : Q),
       (List.range C).map fun c => (fp (preds.zip labs) c : Q),
       (List.range C).map fun c => (support (preds.zip labs) c : Q)⟩ := by
  have h1 := scatterOnes_ok C labs hl
  have h2 := scatterOnes_ok C _ (all_snd_filter_zip preds labs (fun p => p.1 == p.2) C hl)
  have h3 := scatterOnes_ok C _ (all_fst_filter_zip preds labs (fun p => p.1 != p.2) C hp)
  cases avg <;> first | exact absurd rfl havg | skip
  all_goals
    simp only [precisionUpdate, h1, h2, h3, bind, Except.bind, ← tp_eq_count, ← fp_eq_count,
      support_zip preds labs hlen]

/-- micro precision state: `(#correct, #wrong, 0)`. -/
theorem precisionUpdate_micro_eq (preds labs : List Nat) (C : Nat) :
    precisionUpdate preds labs .micro C = .ok
      ⟨[(correct (preds.zip labs) : Q)],
       [(((preds.zip labs).length - correct (preds.zip labs) : Nat) : Q)], [0]⟩ := by
  have h := correct_add_wrong (preds.zip labs)
  have : (preds.zip labs).length - correct (preds.zip labs)
      = (preds.zip labs).countP (fun p => p.1 != p.2) := by omega
  rw [this]; rfl

/-- an out-of-range label makes `_precision_update` raise. -/
theorem precisionUpdate_error (preds labs : List Nat) (avg : Avg) (C : Nat)
    (hl : ¬ labs.all (· < C) = true) (havg : avg ≠ .micro) :
    precisionUpdate preds labs avg C = .error .runtime := by
  have h1 := scatterOnes_error C labs hl
  cases avg <;> first | exact absurd rfl havg | skip
  all_goals simp only [precisionUpdate, h1, bind, Except.bind]

example : precisionUpdate [0, 2, 1, 2] [0, 1, 1, 2] .macro 3 = .ok ⟨[1, 1, 1], [0, 0, 1], [1, 2, 1]⟩ := by
  rw [precisionUpdate_eq _ _ _ _ (by decide) (by decide) (by decide) (by decide)]
  simp [List.range, List.range.loop, tp, fp, support]

/-- per-class recall / F1 state: true positives, label counts, prediction counts. -/
theorem recallUpdate_eq (preds labs : List Nat) (avg : Avg) (C : Nat)
    (hlen : preds.length = labs.length)
    (hp : preds.all (· < C) = true) (hl : labs.all (· < C) = true) (havg : avg ≠ .micro) :
    recallUpdate preds labs avg C = .ok
      ⟨(List.range C).map fun c => (tp (preds.zip labs) c : Q),
       (List.range C).map fun c => (support (preds.zip labs) c : Q),
       (List.range C).map fun c => (predicted (preds.zip labs) c : Q)⟩ := by
  have h1 := scatterOnes_ok C labs hl
  have h2 := scatterOnes_ok C _ (all_snd_filter_zip preds labs (fun p => p.1 == p.2) C hl)
  have h3 := scatterOnes_ok C preds hp
  cases avg <;> first | exact absurd rfl havg | skip
  all_goals
    simp only [recallUpdate, h1, h2, h3, bind, Except.bind, ← tp_eq_count,
      support_zip preds labs hlen, predicted_zip preds labs hlen]

/-- micro recall / F1 state: `(#correct, n, n)`. -/
theorem recallUpdate_micro_eq (preds labs : List Nat) (C : Nat) :
    recallUpdate preds labs .micro C = .ok
      ⟨[(correct (preds.zip labs) : Q)], [(labs.length : Q)], [(labs.length : Q)]⟩ := rfl

theorem recallUpdate_error (preds labs : List Nat) (avg : Avg) (C : Nat)
    (h : ¬ (preds.all (· < C) = true ∧ labs.all (· < C) = true)) (havg : avg ≠ .micro) :
    recallUpdate preds labs avg C = .error .runtime := by
  cases avg <;> first | exact absurd rfl havg | skip
  all_goals
    by_cases hl : labs.all (· < C) = true
    · have hp : ¬ preds.all (· < C) = true := fun hp => h ⟨hp, hl⟩
      simp only [recallUpdate, scatterOnes_ok C labs hl, scatterOnes_error C preds hp, bind, Except.bind]
    · simp only [recallUpdate, scatterOnes_error C labs hl, bind, Except.bind]

example : recallUpdate [0, 2, 1, 2] [0, 1, 1, 2] .none 3 = .ok ⟨[1, 1, 1], [1, 2, 1], [1, 1, 2]⟩ := by
  rw [recallUpdate_eq _ _ _ _ (by decide) (by decide) (by decide) (by decide)]
  simp [List.range, List.range.loop, tp, predicted, support]

/-! ## 5. `_precision_compute` / `_recall_compute` / `_f1_score_compute` -/

/-- `average=None`: the per-class textbook precision. -/
theorem precisionCompute_none_eq (ps : Pairs) (C : Nat) :
    precisionCompute
      ⟨(List.range C).map fun c => (tp ps c : Q), (List.range C).map fun c => (fp ps c : Q),
       (List.range C).map fun c => (support ps c : Q)⟩ .none
      = (List.range C).map fun c => XQ.val (precision ps c) := by
  simp only [precisionCompute, List.zip_map', List.map_map]
  apply List.map_congr_left; intro c _
  simp only [Function.comp, precision_eq]

/-- `average="micro"`: `#correct / n` (`0` when there is no sample). -/
theorem precisionCompute_micro_eq (ps : Pairs) :
    precisionCompute ⟨[(correct ps : Q)], [((ps.length - correct ps : Nat) : Q)], [0]⟩ .micro
      = [.val (ratio0 (correct ps) ps.length)] := by
  have h := correct_add_wrong ps
  simp only [precisionCompute, List.zip_cons_cons, List.zip_nil_right, List.map_cons, List.map_nil,
    ← Rat.natCast_add, divNan0_natCast]
  congr 4; omega

/-- `average="macro"`: plain mean of the per-class precision over the classes
    that occur in the labels or in the predictions. -/
theorem precisionCompute_macro_eq (ps : Pairs) (C : Nat) :
    precisionCompute
      ⟨(List.range C).map fun c => (tp ps c : Q), (List.range C).map fun c => (fp ps c : Q),
       (List.range C).map fun c => (support ps c : Q)⟩ .macro
      = [meanX ((present ps C).map (precision ps))] := by
  simp only [precisionCompute, prf_rows, List.map_map, present_eq_filter_prec]
  congr 2
  apply List.map_congr_left; intro c _
  simp only [Function.comp, precision_eq]

/-- `average="weighted"`: support-weighted mean of the per-class precision over
    the present classes (`0` for an empty batch). -/
theorem precisionCompute_weighted_eq (ps : Pairs) (C : Nat) (hl : ∀ p ∈ ps, p.2 < C) :
    precisionCompute
      ⟨(List.range C).map fun c => (tp ps c : Q), (List.range C).map fun c => (fp ps c : Q),
       (List.range C).map fun c => (support ps c : Q)⟩ .weighted
      = [.val ((present ps C).map fun c =>
          precision ps c * ((support ps c : Q) / (ps.length : Q))).sum] := by
  simp only [precisionCompute, prf_rows, List.map_map, present_eq_filter_prec, CountL.qsum_eq_sum,
    sum_support_range ps C hl]
  by_cases hn : (ps.length : Q) = 0
  · have : ps = [] := (natCast_length_eq_zero ps).mp hn
    subst this
    simp [present_nil]
  · rw [if_neg hn]
    congr 3
    apply List.map_congr_left; intro c _
    simp only [Function.comp, precision_eq]

example : precisionCompute ⟨[1, 1, 1], [0, 0, 1], [1, 2, 1]⟩ .macro = [.val (5/6)] := by
  simp [precisionCompute, meanX, xdiv, qsum, divNan0]; grind
example : ∀ p ∈ ([(0, 0), (2, 1), (1, 1), (2, 2)] : Pairs), p.2 < 3 := by decide
example : precisionCompute ⟨[1, 1, 1], [0, 0, 1], [1, 2, 1]⟩ .weighted = [.val (7/8)] := by
  simp [precisionCompute, qsum, divNan0]; grind
/-- the spec side of the same input evaluates to the same number. -/
example : ((present [(0, 0), (2, 1), (1, 1), (2, 2)] 3).map fun c =>
      precision [(0, 0), (2, 1), (1, 1), (2, 2)] c *
        ((support [(0, 0), (2, 1), (1, 1), (2, 2)] c : Q) / (4 : Q))).sum = 7/8 := by
  simp [present, precision, ratio0, support, predicted, tp, fp, List.range, List.range.loop]
  grind

/-- `average=None`: the per-class textbook recall. -/
theorem recallCompute_none_eq (ps : Pairs) (C : Nat) :
    recallCompute
      ⟨(List.range C).map fun c => (tp ps c : Q), (List.range C).map fun c => (support ps c : Q),
       (List.range C).map fun c => (predicted ps c : Q)⟩ .none
      = (List.range C).map fun c => XQ.val (recall ps c) := by
  simp only [recallCompute, List.zip_map', List.map_map]
  apply List.map_congr_left; intro c _
  simp only [Function.comp, recall_eq]

/-- `average="micro"`: `#correct / n` (`0` when there is no sample). -/
theorem recallCompute_micro_eq (ps : Pairs) :
    recallCompute ⟨[(correct ps : Q)], [(ps.length : Q)], [(ps.length : Q)]⟩ .micro
      = [.val (ratio0 (correct ps) ps.length)] := by
  simp only [recallCompute, List.zip_cons_cons, List.zip_nil_right, List.map_cons, List.map_nil,
    divNan0_natCast]

theorem recallCompute_macro_eq (ps : Pairs) (C : Nat) :
    recallCompute
      ⟨(List.range C).map fun c => (tp ps c : Q), (List.range C).map fun c => (support ps c : Q),
       (List.range C).map fun c => (predicted ps c : Q)⟩ .macro
      = [meanX ((present ps C).map (recall ps))] := by
  simp only [recallCompute, prf_rows, List.map_map, present_eq_filter]
  congr 2
  apply List.map_congr_left; intro c _
  simp only [Function.comp, recall_eq]

theorem recallCompute_weighted_eq (ps : Pairs) (C : Nat) (hl : ∀ p ∈ ps, p.2 < C) :
    recallCompute
      ⟨(List.range C).map fun c => (tp ps c : Q), (List.range C).map fun c => (support ps c : Q),
       (List.range C).map fun c => (predicted ps c : Q)⟩ .weighted
      = [.val ((present ps C).map fun c =>
          recall ps c * ((support ps c : Q) / (ps.length : Q))).sum] := by
  have hs := sum_support_present ps C hl
  simp only [recallCompute, prf_rows, List.map_map, present_eq_filter, CountL.qsum_eq_sum,
    Function.comp_def, hs]
  by_cases hn : (ps.length : Q) = 0
  · have : ps = [] := (natCast_length_eq_zero ps).mp hn
    subst this
    simp [present_nil]
  · rw [if_neg hn]
    congr 3
    apply List.map_congr_left; intro c _
    simp only [recall_eq]

/-- harmonic mean with `nan_to_num` = the textbook `2·tp / (labels + predictions)`. -/
theorem f1One_eq (t l p : Nat) (hl : t ≤ l) (hp : t ≤ p) :
    f1One (t : Q) (l : Q) (p : Q) = ratio0 (2 * t) (l + p) := f1One_natCast t l p hl hp

theorem f1Compute_none_eq (ps : Pairs) (C : Nat) :
    f1Compute
      ⟨(List.range C).map fun c => (tp ps c : Q), (List.range C).map fun c => (support ps c : Q),
       (List.range C).map fun c => (predicted ps c : Q)⟩ .none
      = (List.range C).map fun c => XQ.val (f1 ps c) := by
  simp only [f1Compute, List.zip_map', List.map_map]
  apply List.map_congr_left; intro c _
  simp only [Function.comp, f1_eq]

/-- micro F1 = `2·#correct / (n + n)`, i.e. the accuracy. -/
theorem f1Compute_micro_eq (ps : Pairs) :
    f1Compute ⟨[(correct ps : Q)], [(ps.length : Q)], [(ps.length : Q)]⟩ .micro
      = [.val (ratio0 (2 * correct ps) (ps.length + ps.length))] := by
  have h := correct_add_wrong ps
  simp only [f1Compute, List.zip_cons_cons, List.zip_nil_right, List.map_cons, List.map_nil,
    f1One_natCast _ _ _ (show correct ps ≤ ps.length by omega) (show correct ps ≤ ps.length by omega)]

theorem f1Compute_macro_eq (ps : Pairs) (C : Nat) :
    f1Compute
      ⟨(List.range C).map fun c => (tp ps c : Q), (List.range C).map fun c => (support ps c : Q),
       (List.range C).map fun c => (predicted ps c : Q)⟩ .macro
      = [meanX ((present ps C).map (f1 ps))] := by
  simp only [f1Compute, prf_rows, List.map_map, present_eq_filter]
  congr 2
  apply List.map_congr_left; intro c _
  simp only [Function.comp, f1_eq]

theorem f1Compute_weighted_eq (ps : Pairs) (C : Nat) (hl : ∀ p ∈ ps, p.2 < C) :
    f1Compute
      ⟨(List.range C).map fun c => (tp ps c : Q), (List.range C).map fun c => (support ps c : Q),
       (List.range C).map fun c => (predicted ps c : Q)⟩ .weighted
      = [.val ((present ps C).map fun c =>
          f1 ps c * ((support ps c : Q) / (ps.length : Q))).sum] := by
  have hs := sum_support_present ps C hl
  simp only [f1Compute, prf_rows, List.map_map, present_eq_filter, CountL.qsum_eq_sum,
    Function.comp_def, hs]
  by_cases hn : (ps.length : Q) = 0
  · have : ps = [] := (natCast_length_eq_zero ps).mp hn
    subst this
    simp [present_nil]
  · rw [if_neg hn]
    congr 3
    apply List.map_congr_left; intro c _
    simp only [f1_eq]

example : recallCompute ⟨[1, 1, 1], [1, 2, 1], [1, 1, 2]⟩ .macro = [.val (5/6)] := by
  simp [recallCompute, meanX, xdiv, qsum, divNan0]; grind
example : f1Compute ⟨[1, 1, 1], [1, 2, 1], [1, 1, 2]⟩ .none = [.val 1, .val (2/3), .val (2/3)] := by
  simp [f1Compute, f1One]; grind
example : f1One 1 2 1 = ratio0 2 3 := f1One_eq 1 2 1 (by decide) (by decide)

/-! ## 6. confusion matrix -/

/-- the accumulated COO pairs form the `C × C` matrix of textbook confusion
    counts (row = true class, column = predicted class). -/
theorem confusionUpdate_eq (preds labs : List Nat) (C : Nat)
    (hp : preds.all (· < C) = true) (hl : labs.all (· < C) = true) :
    confusionUpdate preds labs C = .ok ((List.range C).map fun t => (List.range C).map fun p =>
      (confusion (preds.zip labs) t p : Q)) :=
  confusionUpdate_ok preds labs C hp hl

/-- entry-wise reading of `confusionUpdate_eq`. -/
theorem confusionUpdate_entry (preds labs : List Nat) (C : Nat)
    (hp : preds.all (· < C) = true) (hl : labs.all (· < C) = true) :
    ∃ m, confusionUpdate preds labs C = .ok m ∧ m.length = C ∧
      ∀ t p, t < C → p < C →
        (m.getD t []).length = C ∧ (m.getD t []).getD p 0 = (confusion (preds.zip labs) t p : Q) := by
  refine ⟨_, confusionUpdate_ok preds labs C hp hl, by simp, ?_⟩
  intro t p ht hp'
  simp [List.getD_eq_getElem?_getD, ht, hp']

/-- any out-of-range prediction or label raises. -/
theorem confusionUpdate_error (preds labs : List Nat) (C : Nat)
    (h : ¬ (preds.all (· < C) = true ∧ labs.all (· < C) = true)) :
    confusionUpdate preds labs C = .error .runtime :=
  confusionUpdate_err preds labs C h

example : confusionUpdate [0, 1, 1] [0, 0, 1] 2 = .ok [[1, 1], [0, 1]] := by
  rw [confusionUpdate_eq _ _ _ (by decide) (by decide)]
  simp [List.range, List.range.loop, confusion]
example : confusionUpdate [0, 2] [0, 0] 2 = .error .runtime := confusionUpdate_error _ _ _ (by decide)

/-! ## 3. binary accuracy -/

/-- `_binary_accuracy_update` counts the samples whose thresholded score equals
    the (integer) target; the total is the number of targets. -/
theorem binaryAccuracyUpdate_eq (thr : Q) (xs : List Q) (ys : List Nat) :
    (binaryAccuracyUpdate thr xs (ys.map fun (y : Nat) => (y : Q))).1
        = (correct ((xs.map (binPred thr)).zip ys) : Q) ∧
    (binaryAccuracyUpdate thr xs (ys.map fun (y : Nat) => (y : Q))).2 = (ys.length : Q) := by
  refine ⟨binaryAccuracy_fst thr xs ys, ?_⟩
  simp [binaryAccuracyUpdate]

example : binaryAccuracyUpdate (1/2) [1/4, 1/2, 3/4] ([0, 1, 0].map fun (y : Nat) => (y : Q)) = (2, 3) := by
  have h := binaryAccuracyUpdate_eq (1/2) [1/4, 1/2, 3/4] [0, 1, 0]
  have e : correct (([1/4, 1/2, 3/4].map (binPred (1/2))).zip [0, 1, 0]) = 2 := by
    have h1 : binPred (1/2) (1/4) = 0 := by unfold binPred; rw [if_neg]; grind
    have h2 : binPred (1/2) (1/2) = 1 := by unfold binPred; rw [if_pos]; grind
    have h3 : binPred (1/2) (3/4) = 1 := by unfold binPred; rw [if_pos]; grind
    simp [correct, h1, h2, h3]
  rw [e] at h
  exact Prod.ext h.1 h.2

/-! ## 7. multiclass accuracy masks -/

/-- the top-k mask marks exactly the samples that are top-k correct. -/
theorem mcMaskTopk_eq (rows : List (List Q)) (labs : List Nat) (k : Nat) :
    mcMaskTopk rows labs k = (rows.zip labs).map fun p => b2q (topkCorrect p.1 p.2 k) := by
  unfold mcMaskTopk
  apply List.map_congr_left; intro p _
  simp only [rankOf, topkCorrect, List.countP_eq_length_filter]

/-- micro totals: `(#correct, n)`. -/
theorem mcAccFromMask_micro_eq (preds labs : List Nat) (C : Nat) :
    mcAccFromMask (mcMaskLabel preds labs) labs .micro C
      = .ok ([(correct (preds.zip labs) : Q)], [(labs.length : Q)]) := by
  simp only [mcAccFromMask, mcMaskLabel, qsum_b2q]; rfl

theorem mcAccFromMask_topk_micro_eq (rows : List (List Q)) (labs : List Nat) (k C : Nat) :
    mcAccFromMask (mcMaskTopk rows labs k) labs .micro C
      = .ok ([(((rows.zip labs).countP fun p => topkCorrect p.1 p.2 k : Nat) : Q)],
             [(labs.length : Q)]) := by
  rw [mcMaskTopk_eq]
  simp only [mcAccFromMask, qsum_b2q]

/-- per-class totals: `(tp c, support c)` for every class. -/
theorem mcAccFromMask_class_eq (preds labs : List Nat) (avg : Avg) (C : Nat)
    (hlen : preds.length = labs.length) (hl : labs.all (· < C) = true) (havg : avg ≠ .micro) :
    mcAccFromMask (mcMaskLabel preds labs) labs avg C
      = .ok ((List.range C).map fun c => (tp (preds.zip labs) c : Q),
             (List.range C).map fun c => (support (preds.zip labs) c : Q)) := by
  unfold mcMaskLabel
  rw [mcAccFromMask_mask preds labs (fun p => p.1 == p.2) avg C hl havg]
  simp only [tp_eq_mask_count, support_zip preds labs hlen]

/-- per-class top-k totals: number of top-k-correct samples of each class, and
    the class supports. -/
theorem mcAccFromMask_topk_class_eq (rows : List (List Q)) (labs : List Nat) (k : Nat) (avg : Avg)
    (C : Nat) (hl : labs.all (· < C) = true) (havg : avg ≠ .micro) :
    mcAccFromMask (mcMaskTopk rows labs k) labs avg C
      = .ok ((List.range C).map fun c =>
               (((rows.zip labs).countP fun p => p.2 == c && topkCorrect p.1 p.2 k : Nat) : Q),
             (List.range C).map fun c => (labs.count c : Q)) := by
  rw [mcMaskTopk_eq, mcAccFromMask_mask rows labs (fun p => topkCorrect p.1 p.2 k) avg C hl havg]

/-- an out-of-range label raises in the per-class branch. -/
theorem mcAccFromMask_error (mask : List Q) (labs : List Nat) (avg : Avg) (C : Nat)
    (hl : ¬ labs.all (· < C) = true) (havg : avg ≠ .micro) :
    mcAccFromMask mask labs avg C = .error .runtime := by
  have h1 := CountL.scatterAdd_error C labs mask hl
  cases avg <;> first | exact absurd rfl havg | skip
  all_goals simp only [mcAccFromMask, h1, bind, Except.bind]

example : mcAccFromMask (mcMaskLabel [0, 2, 1, 2] [0, 1, 1, 2]) [0, 1, 1, 2] .macro 3
    = .ok ([1, 1, 1], [1, 2, 1]) := by
  rw [mcAccFromMask_class_eq _ _ _ _ (by decide) (by decide) (by decide)]
  simp [List.range, List.range.loop, tp, support]
example : mcMaskTopk [[1, 3, 2], [5, 4, 6]] [2, 1] 2 = [1, 0] := by
  rw [mcMaskTopk_eq]
  have h1 : ¬ (2 : Q) < 1 := by decide
  have h2 : (2 : Q) < 3 := by decide
  have h3 : (4 : Q) < 5 := by decide
  have h4 : (4 : Q) < 6 := by decide
  simp [topkCorrect, b2q, List.filter, h1, h2, h3, h4]

/-! ## 8. `_accuracy_compute` -/

/-- macro accuracy: mean of `tp / support` over the classes with non-zero support. -/
theorem accuracyCompute_macro_eq (ps : Pairs) (C : Nat) :
    accuracyCompute ((List.range C).map fun c => (tp ps c : Q))
        ((List.range C).map fun c => (support ps c : Q)) .macro
      = [meanX (((List.range C).filter fun c => support ps c != 0).map fun c =>
          (tp ps c : Q) / (support ps c : Q))] := by
  simp only [accuracyCompute, List.zip_map', List.filter_map, List.map_map]
  congr 3
  apply List.filter_congr; intro c _
  simp only [Function.comp, natCast_bne_zero]

/-- … and on those classes `tp / support` is the per-class accuracy. -/
theorem classAccuracy_of_support (ps : Pairs) (c : Nat) (h : support ps c ≠ 0) :
    classAccuracy ps c = .val ((tp ps c : Q) / (support ps c : Q)) := by
  have : (support ps c : Q) ≠ 0 := fun e => h (Rat.natCast_eq_zero_iff.mp e)
  simp [classAccuracy, xdiv, this]

/-- `average=None`: per-class accuracy (NaN for classes without support). -/
theorem accuracyCompute_none_eq (ps : Pairs) (C : Nat) :
    accuracyCompute ((List.range C).map fun c => (tp ps c : Q))
        ((List.range C).map fun c => (support ps c : Q)) .none
      = (List.range C).map (classAccuracy ps) := by
  simp only [accuracyCompute, List.zip_map', List.map_map]
  rfl

/-- micro accuracy: `#correct / n` (NaN for an empty batch). -/
theorem accuracyCompute_micro_eq (ps : Pairs) :
    accuracyCompute [(correct ps : Q)] [(ps.length : Q)] .micro = [microAccuracy ps] := rfl

example : accuracyCompute [1, 1, 0] [1, 2, 0] .macro = [.val (3/4)] := by
  simp [accuracyCompute, meanX, xdiv, qsum]; grind

/-! ## 2. `torch.argmax` = first maximal index -/

theorem argmaxFirst_spec (row : List Q) (h : row ≠ []) :
    argmaxFirst row < row.length ∧
    (∀ j, j < row.length → row.getD j 0 ≤ row.getD (argmaxFirst row) 0) ∧
    (∀ j, j < argmaxFirst row → row.getD j 0 < row.getD (argmaxFirst row) 0) :=
  argmaxFirst_ok row h

/-- the empty row maps to index 0 (torch would raise; the callers never pass one). -/
theorem argmaxFirst_nil : argmaxFirst [] = 0 := rfl

example : argmaxFirst [1, 3, 2, 3] = 1 := by
  have h12 : (1 : Q) < 3 := by grind
  have h32 : ¬ (3 : Q) < 2 := by grind
  have h33 : ¬ (3 : Q) < 3 := by grind
  simp [argmaxFirst, argmaxFirst.go, h12, h32, h33]

/-! ## 9. totality on valid inputs -/

theorem precisionUpdate_total (preds labs : List Nat) (avg : Avg) (C : Nat)
    (hlen : preds.length = labs.length)
    (hp : preds.all (· < C) = true) (hl : labs.all (· < C) = true) :
    ∃ s, precisionUpdate preds labs avg C = .ok s := by
  by_cases h : avg = .micro
  · subst h; exact ⟨_, precisionUpdate_micro_eq preds labs C⟩
  · exact ⟨_, precisionUpdate_eq preds labs avg C hlen hp hl h⟩

theorem recallUpdate_total (preds labs : List Nat) (avg : Avg) (C : Nat)
    (hlen : preds.length = labs.length)
    (hp : preds.all (· < C) = true) (hl : labs.all (· < C) = true) :
    ∃ s, recallUpdate preds labs avg C = .ok s := by
  by_cases h : avg = .micro
  · subst h; exact ⟨_, recallUpdate_micro_eq preds labs C⟩
  · exact ⟨_, recallUpdate_eq preds labs avg C hlen hp hl h⟩

theorem confusionUpdate_total (preds labs : List Nat) (C : Nat)
    (hp : preds.all (· < C) = true) (hl : labs.all (· < C) = true) :
    ∃ m, confusionUpdate preds labs C = .ok m :=
  ⟨_, confusionUpdate_eq preds labs C hp hl⟩

theorem mcAccFromMask_total (mask : List Q) (labs : List Nat) (avg : Avg) (C : Nat)
    (hl : labs.all (· < C) = true) :
    ∃ r, mcAccFromMask mask labs avg C = .ok r := by
  have h1 := scatterAdd_ok C labs mask hl
  have h2 := scatterOnes_ok C labs hl
  cases avg
  · exact ⟨_, rfl⟩
  all_goals
    simp only [mcAccFromMask, h1, h2, bind, Except.bind]
    exact ⟨_, rfl⟩

theorem scatterAdd_total (n : Nat) (idx : List Nat) (vals : List Q) (h : idx.all (· < n) = true) :
    ∃ v, scatterAdd n idx vals = .ok v := ⟨_, scatterAdd_ok n idx vals h⟩

example : ([0, 2, 1, 2] : List Nat).length = ([0, 1, 1, 2] : List Nat).length ∧
    ([0, 2, 1, 2] : List Nat).all (· < 3) = true ∧ ([0, 1, 1, 2] : List Nat).all (· < 3) = true := by
  decide

/-! ## 10. multilabel criteria as set relations on 0/1 rows

  A row is read as the set of positions holding a `1`; `p ∈ inp.zip tgt` ranges
  over the aligned (prediction, target) positions. -/

/-- exact match: the rows are equal. -/
theorem mlRowCorrect_exact (inp tgt : List Q) (h : inp.length = tgt.length) :
    mlRowCorrect .exact inp tgt = if inp = tgt then 1 else 0 := ml_exact inp tgt h

/-- contain: target ⊆ prediction. -/
theorem mlRowCorrect_contain (inp tgt : List Q)
    (h01 : ∀ p ∈ inp.zip tgt, (p.1 = 0 ∨ p.1 = 1) ∧ (p.2 = 0 ∨ p.2 = 1)) :
    mlRowCorrect .contain inp tgt = if ∀ p ∈ inp.zip tgt, p.2 = 1 → p.1 = 1 then 1 else 0 :=
  ml_contain inp tgt h01

/-- belong: prediction ⊆ target. -/
theorem mlRowCorrect_belong (inp tgt : List Q)
    (h01 : ∀ p ∈ inp.zip tgt, (p.1 = 0 ∨ p.1 = 1) ∧ (p.2 = 0 ∨ p.2 = 1)) :
    mlRowCorrect .belong inp tgt = if ∀ p ∈ inp.zip tgt, p.1 = 1 → p.2 = 1 then 1 else 0 :=
  ml_belong inp tgt h01

/-- overlap: prediction and target share a `1`, or both are all-zero. -/
theorem mlRowCorrect_overlap (inp tgt : List Q) :
    mlRowCorrect .overlap inp tgt
      = if (∃ p ∈ inp.zip tgt, p.1 = 1 ∧ p.2 = 1) ∨ (∀ p ∈ inp.zip tgt, p.1 = 0 ∧ p.2 = 0)
        then 1 else 0 := ml_overlap inp tgt

/-- hamming: number of agreeing positions. -/
theorem mlRowCorrect_hamming (inp tgt : List Q) :
    mlRowCorrect .hamming inp tgt = ((inp.zip tgt).countP fun p => p.1 == p.2 : Nat) := rfl

/-- all non-hamming criteria: `num_correct` is the number of rows satisfying the
    criterion, `num_total` the number of rows. -/
theorem multilabelUpdate_eq (crit : Crit) (inp tgt : List (List Q)) (h : crit ≠ .hamming) :
    (multilabelUpdate crit inp tgt).1
        = ((inp.zip tgt).countP fun p => mlRowCorrect crit p.1 p.2 == 1 : Nat) ∧
    (multilabelUpdate crit inp tgt).2 = (tgt.length : Q) := by
  constructor
  · simp only [multilabelUpdate, CountL.qsum_eq_sum]
    exact sum_zero_one _ _ fun p _ => ml_zero_one crit p.1 p.2 h
  · cases crit <;> first | exact absurd rfl h | rfl

/-- hamming: `num_correct` is the number of agreeing cells, `num_total` the number of cells. -/
theorem multilabelUpdate_hamming_eq (inp tgt : List (List Q)) :
    (multilabelUpdate .hamming inp tgt).1
        = ((inp.zip tgt).map fun p => (((p.1.zip p.2).countP fun q => q.1 == q.2 : Nat) : Q)).sum ∧
    (multilabelUpdate .hamming inp tgt).2 = (tgt.map fun r => (r.length : Q)).sum := by
  simp only [multilabelUpdate, CountL.qsum_eq_sum]
  exact ⟨rfl, trivial⟩

/-- thresholded scores are 0/1 rows of textbook binary predictions. -/
theorem multilabelAccuracyUpdate_eq (thr : Q) (crit : Crit) (inp tgt : List (List Q)) :
    multilabelAccuracyUpdate thr crit inp tgt
      = multilabelUpdate crit (inp.map fun r => r.map fun x => ((binPred thr x : Nat) : Q)) tgt := by
  simp only [multilabelAccuracyUpdate, thresh_eq_binPred]

/-- the rows fed to `_multilabel_update` by the thresholded and the top-k variants
    are 0/1 rows, so the 0/1 hypotheses above only constrain the targets. -/
theorem thresh_row_zero_one (thr : Q) (r : List Q) :
    ∀ x ∈ r.map (fun x => ((thresh thr x : Nat) : Q)), x = 0 ∨ x = 1 := by
  intro x hx
  obtain ⟨a, _, rfl⟩ := List.mem_map.mp hx
  unfold thresh; split
  · left; rfl
  · right; rfl

theorem topkIndicator_zero_one (r : List Q) (k : Nat) :
    ∀ x ∈ topkIndicator r k, x = 0 ∨ x = 1 := by
  intro x hx
  obtain ⟨a, _, rfl⟩ := List.mem_map.mp hx
  unfold b2q; split
  · right; rfl
  · left; rfl

example : mlRowCorrect .contain [1, 1, 0] [1, 0, 0] = 1 := by
  rw [mlRowCorrect_contain _ _ (by simp)]; simp
example : mlRowCorrect .belong [1, 1, 0] [1, 0, 0] = 0 := by
  rw [mlRowCorrect_belong _ _ (by simp)]; simp
example : mlRowCorrect .overlap [1, 1, 0] [1, 0, 0] = 1 := by
  rw [mlRowCorrect_overlap]; simp
example : mlRowCorrect .exact [1, 0] [1, 0] = 1 := by
  rw [mlRowCorrect_exact _ _ rfl]; simp
example : mlRowCorrect .hamming [1, 0, 1] [1, 1, 1] = 2 := by
  rw [mlRowCorrect_hamming]; simp
example : multilabelUpdate .contain [[1, 1, 0], [0, 0, 1]] [[1, 0, 0], [1, 0, 0]] = (1, 2) := by
  have h := multilabelUpdate_eq .contain [[1, 1, 0], [0, 0, 1]] [[1, 0, 0], [1, 0, 0]] (by decide)
  have e1 : mlRowCorrect .contain [1, 1, 0] [1, 0, 0] = 1 := by
    rw [mlRowCorrect_contain _ _ (by simp)]; simp
  have e2 : mlRowCorrect .contain [0, 0, 1] [1, 0, 0] = 0 := by
    rw [mlRowCorrect_contain _ _ (by simp)]; simp
  simp [e1, e2] at h
  exact Prod.ext h.1 h.2

/-! ## binary precision / recall / F1 updates (positive class `1`, 0/1 targets) -/

/-- `_binary_precision_update` returns `(tp, fp)` of the positive class. -/
theorem binaryPrecisionUpdate_eq (thr : Q) (xs : List Q) (ys : List Nat)
    (hlen : xs.length = ys.length) (h01 : ∀ y ∈ ys, y ≤ 1) :
    binaryPrecisionUpdate thr xs (ys.map fun (y : Nat) => (y : Q))
      = ((tp ((xs.map (binPred thr)).zip ys) 1 : Q), (fp ((xs.map (binPred thr)).zip ys) 1 : Q)) := by
  unfold binaryPrecisionUpdate
  simp only [binary_tp_mul thr xs ys h01, binary_predicted thr xs ys (by omega), predicted_eq,
    Rat.natCast_add]
  congr 1
  grind

/-- `_binary_recall_update` returns `(tp, #positive targets)`. -/
theorem binaryRecallUpdate_eq (thr : Q) (xs : List Q) (ys : List Nat)
    (hlen : xs.length = ys.length) (h01 : ∀ y ∈ ys, y ≤ 1) :
    binaryRecallUpdate thr xs ys
      = ((tp ((xs.map (binPred thr)).zip ys) 1 : Q), (support ((xs.map (binPred thr)).zip ys) 1 : Q)) := by
  unfold binaryRecallUpdate
  rw [binary_tp_land thr xs ys h01, binary_support thr xs ys (by omega) h01]

/-- `_binary_f1_score_update` returns `(tp, #positive targets, #positive predictions)`. -/
theorem binaryF1Update_eq (thr : Q) (xs : List Q) (ys : List Nat)
    (hlen : xs.length = ys.length) (h01 : ∀ y ∈ ys, y ≤ 1) :
    binaryF1Update thr xs (ys.map fun (y : Nat) => (y : Q))
      = ((tp ((xs.map (binPred thr)).zip ys) 1 : Q),
         (support ((xs.map (binPred thr)).zip ys) 1 : Q),
         (predicted ((xs.map (binPred thr)).zip ys) 1 : Q)) := by
  unfold binaryF1Update
  rw [binary_tp_mul thr xs ys h01, binary_support thr xs ys (by omega) h01,
    binary_predicted thr xs ys (by omega)]

example : ([1/4, 1/2, 3/4] : List Q).length = ([0, 1, 0] : List Nat).length ∧
    ∀ y ∈ ([0, 1, 0] : List Nat), y ≤ 1 := by decide

/-! ## update ∘ compute on valid inputs: the four averages of each metric -/

theorem precision_pipeline (preds labs : List Nat) (C : Nat) (hlen : preds.length = labs.length)
    (hp : preds.all (· < C) = true) (hl : labs.all (· < C) = true) :
    (precisionUpdate preds labs .none C).map (precisionCompute · .none)
        = .ok ((List.range C).map fun c => XQ.val (precision (preds.zip labs) c)) ∧
    (precisionUpdate preds labs .macro C).map (precisionCompute · .macro)
        = .ok [meanX ((present (preds.zip labs) C).map (precision (preds.zip labs)))] ∧
    (precisionUpdate preds labs .weighted C).map (precisionCompute · .weighted)
        = .ok [.val ((present (preds.zip labs) C).map fun c => precision (preds.zip labs) c *
            ((support (preds.zip labs) c : Q) / ((preds.zip labs).length : Q))).sum] ∧
    (precisionUpdate preds labs .micro C).map (precisionCompute · .micro)
        = .ok [.val (ratio0 (correct (preds.zip labs)) (preds.zip labs).length)] := by
  have hl' : ∀ p ∈ preds.zip labs, p.2 < C := fun p hp' => by
    have := List.all_eq_true.mp hl p.2 (List.of_mem_zip (a := p.1) (b := p.2) hp').2
    simpa using this
  refine ⟨?_, ?_, ?_, ?_⟩
  · rw [precisionUpdate_eq _ _ _ _ hlen hp hl (by decide)]
    exact congrArg Except.ok (precisionCompute_none_eq _ C)
  · rw [precisionUpdate_eq _ _ _ _ hlen hp hl (by decide)]
    exact congrArg Except.ok (precisionCompute_macro_eq _ C)
  · rw [precisionUpdate_eq _ _ _ _ hlen hp hl (by decide)]
    exact congrArg Except.ok (precisionCompute_weighted_eq _ C hl')
  · rw [precisionUpdate_micro_eq]
    exact congrArg Except.ok (precisionCompute_micro_eq _)

theorem recall_pipeline (preds labs : List Nat) (C : Nat) (hlen : preds.length = labs.length)
    (hp : preds.all (· < C) = true) (hl : labs.all (· < C) = true) :
    (recallUpdate preds labs .none C).map (recallCompute · .none)
        = .ok ((List.range C).map fun c => XQ.val (recall (preds.zip labs) c)) ∧
    (recallUpdate preds labs .macro C).map (recallCompute · .macro)
        = .ok [meanX ((present (preds.zip labs) C).map (recall (preds.zip labs)))] ∧
    (recallUpdate preds labs .weighted C).map (recallCompute · .weighted)
        = .ok [.val ((present (preds.zip labs) C).map fun c => recall (preds.zip labs) c *
            ((support (preds.zip labs) c : Q) / ((preds.zip labs).length : Q))).sum] ∧
    (recallUpdate preds labs .micro C).map (recallCompute · .micro)
        = .ok [.val (ratio0 (correct (preds.zip labs)) (preds.zip labs).length)] := by
  have hl' : ∀ p ∈ preds.zip labs, p.2 < C := fun p hp' => by
    have := List.all_eq_true.mp hl p.2 (List.of_mem_zip (a := p.1) (b := p.2) hp').2
    simpa using this
  have hn : labs.length = (preds.zip labs).length := by simp; omega
  refine ⟨?_, ?_, ?_, ?_⟩
  · rw [recallUpdate_eq _ _ _ _ hlen hp hl (by decide)]
    exact congrArg Except.ok (recallCompute_none_eq _ C)
  · rw [recallUpdate_eq _ _ _ _ hlen hp hl (by decide)]
    exact congrArg Except.ok (recallCompute_macro_eq _ C)
  · rw [recallUpdate_eq _ _ _ _ hlen hp hl (by decide)]
    exact congrArg Except.ok (recallCompute_weighted_eq _ C hl')
  · rw [recallUpdate_micro_eq, hn]
    exact congrArg Except.ok (recallCompute_micro_eq _)

theorem f1_pipeline (preds labs : List Nat) (C : Nat) (hlen : preds.length = labs.length)
    (hp : preds.all (· < C) = true) (hl : labs.all (· < C) = true) :
    (recallUpdate preds labs .none C).map (f1Compute · .none)
        = .ok ((List.range C).map fun c => XQ.val (f1 (preds.zip labs) c)) ∧
    (recallUpdate preds labs .macro C).map (f1Compute · .macro)
        = .ok [meanX ((present (preds.zip labs) C).map (f1 (preds.zip labs)))] ∧
    (recallUpdate preds labs .weighted C).map (f1Compute · .weighted)
        = .ok [.val ((present (preds.zip labs) C).map fun c => f1 (preds.zip labs) c *
            ((support (preds.zip labs) c : Q) / ((preds.zip labs).length : Q))).sum] ∧
    (recallUpdate preds labs .micro C).map (f1Compute · .micro)
        = .ok [.val (ratio0 (2 * correct (preds.zip labs))
            ((preds.zip labs).length + (preds.zip labs).length))] := by
  have hl' : ∀ p ∈ preds.zip labs, p.2 < C := fun p hp' => by
    have := List.all_eq_true.mp hl p.2 (List.of_mem_zip (a := p.1) (b := p.2) hp').2
    simpa using this
  have hn : labs.length = (preds.zip labs).length := by simp; omega
  refine ⟨?_, ?_, ?_, ?_⟩
  · rw [recallUpdate_eq _ _ _ _ hlen hp hl (by decide)]
    exact congrArg Except.ok (f1Compute_none_eq _ C)
  · rw [recallUpdate_eq _ _ _ _ hlen hp hl (by decide)]
    exact congrArg Except.ok (f1Compute_macro_eq _ C)
  · rw [recallUpdate_eq _ _ _ _ hlen hp hl (by decide)]
    exact congrArg Except.ok (f1Compute_weighted_eq _ C hl')
  · rw [recallUpdate_micro_eq, hn]
    exact congrArg Except.ok (f1Compute_micro_eq _)

example : (recallUpdate [0, 2, 1, 2] [0, 1, 1, 2] .none 3).map (f1Compute · .none)
    = .ok [.val 1, .val (2/3), .val (2/3)] := by
  rw [(f1_pipeline [0, 2, 1, 2] [0, 1, 1, 2] 3 (by decide) (by decide) (by decide)).1]
  simp [f1, ratio0, tp, fp, fn, List.range, List.range.loop]; grind

end TE.C04
