/-
  C15 / skeleton tie — the collective skeleton of torcheval/metrics/synclib.py, regenerated from /repo's working tree on
  every run (harness/translators/syncskel.py → TE/Gen/SyncSkel.lean), equals, function by function, the skeleton the
  hand-written model TE/Model/Sync.lean follows (`TE.SyncSkel.expected`, written next to the model's definitions in
  TE/Model/SyncSkel.lean).  A failing theorem names the function whose protocol changed.

  What the equality pins, as decidable facts of the table (`TE.SyncSkel.Facts`): dicts are traversed in SORTED key order only
  (metric names, state names, dict keys); the sizes travel before an uneven payload; padding to the gathered maximum and
  trimming by the gathered sizes; the 0-dim and the equal-shape fast paths; `dst` / `src` are translated group rank → global
  rank with the group of the collective; rank and world size are asked of the GROUP; the empty-list dtype / shape negotiation
  with its −1 sentinel and `max`; the receiving-member predicate; re-packing (list lengths by the gathered lengths, dict
  entries re-keyed with the local sorted keys, value of member i under index i).
-/
import TE.Lemmas.SyncSkel
import TE.Gen.SyncSkel
namespace TE.C15
open TE TE.SyncSkel

/-- `_simple_send_tensors`: the skeleton regenerated from the source is the expected one. -/
theorem C15_skel_generated_eq_simple_send_tensors : Gen.sk_simple_send_tensors = ex_simple_send_tensors := by decide +kernel

/-- `_send_uneven_tensors`: the skeleton regenerated from the source is the expected one. -/
theorem C15_skel_generated_eq_send_uneven_tensors : Gen.sk_send_uneven_tensors = ex_send_uneven_tensors := by decide +kernel

/-- `send_tensors`: the skeleton regenerated from the source is the expected one. -/
theorem C15_skel_generated_eq_send_tensors : Gen.sk_send_tensors = ex_send_tensors := by decide +kernel

/-- `metrics_traversal_order`: the skeleton regenerated from the source is the expected one. -/
theorem C15_skel_generated_eq_metrics_traversal_order : Gen.sk_metrics_traversal_order = ex_metrics_traversal_order := by decide +kernel

/-- `_get_empty_metric_state_collection`: the skeleton regenerated from the source is the expected one. -/
theorem C15_skel_generated_eq_get_empty_metric_state_collection : Gen.sk_get_empty_metric_state_collection = ex_get_empty_metric_state_collection := by decide +kernel

/-- `_sync_tensor_states`: the skeleton regenerated from the source is the expected one. -/
theorem C15_skel_generated_eq_sync_tensor_states : Gen.sk_sync_tensor_states = ex_sync_tensor_states := by decide +kernel

/-- `_sync_dtype_and_shape`: the skeleton regenerated from the source is the expected one. -/
theorem C15_skel_generated_eq_sync_dtype_and_shape : Gen.sk_sync_dtype_and_shape = ex_sync_dtype_and_shape := by decide +kernel

/-- `_sync_list_length`: the skeleton regenerated from the source is the expected one. -/
theorem C15_skel_generated_eq_sync_list_length : Gen.sk_sync_list_length = ex_sync_list_length := by decide +kernel

/-- `_sync_list_tensor_states`: the skeleton regenerated from the source is the expected one. -/
theorem C15_skel_generated_eq_sync_list_tensor_states : Gen.sk_sync_list_tensor_states = ex_sync_list_tensor_states := by decide +kernel

/-- `_sync_dict_tensor_states`: the skeleton regenerated from the source is the expected one. -/
theorem C15_skel_generated_eq_sync_dict_tensor_states : Gen.sk_sync_dict_tensor_states = ex_sync_dict_tensor_states := by decide +kernel

/-- `_sync_obj_states`: the skeleton regenerated from the source is the expected one. -/
theorem C15_skel_generated_eq_sync_obj_states : Gen.sk_sync_obj_states = ex_sync_obj_states := by decide +kernel

/-- `sync_states`: the skeleton regenerated from the source is the expected one. -/
theorem C15_skel_generated_eq_sync_states : Gen.sk_sync_states = ex_sync_states := by decide +kernel

/-- the synclib part of the generated table is the synclib part of the expected one, as a whole. -/
theorem C15_skel_generated_eq :
    Gen.syncSkel.filter (·.module == "synclib") = expected.filter (·.module == "synclib") := by decide +kernel

/-- coverage: the translator found exactly these functions of synclib (every function that issues a collective,
    directly or through a callee, plus the two that fix the traversal order) and every one is inside the grammar. -/
theorem C15_skel_coverage :
    (Gen.syncSkel.filter (·.module == "synclib")).map (fun f => (f.name, f.untranslated)) =
      [("_simple_send_tensors", none), ("_send_uneven_tensors", none), ("send_tensors", none), ("metrics_traversal_order", none), ("_get_empty_metric_state_collection", none), ("_sync_tensor_states", none), ("_sync_dtype_and_shape", none), ("_sync_list_length", none), ("_sync_list_tensor_states", none), ("_sync_dict_tensor_states", none), ("_sync_obj_states", none), ("sync_states", none)] := by decide +kernel

/-- the generated table is well-formed: all seven facts hold of it. -/
theorem C15_skel_generated_wf : WF Gen.syncSkel = true := by decide +kernel

/-- **gather pattern**: in a well-formed table every loop `for i, x in enumerate(<gathered>)` that writes into
    `gathered_states` writes at the enumeration index — and such a loop delivers, for every member `j`, what member `j`
    sent under index `j` (`storeLoop`, the meaning of the loop). -/
theorem C15_skel_gather_index {α : Type} (t : Table) (hwf : WF t = true) :
    (∀ f ∈ t, storesByIndex f.body = true) ∧
    ∀ (k : Nat) (xs col : List α), xs.length ≤ col.length →
      ∀ j, j < xs.length → (storeLoop k (enumIdx k) 0 xs col)[j]? = xs[j]? :=
  ⟨fun f hf => (wf_facts t hwf).2.2.2.2.2.1 f hf, fun k xs col h j hj => storeLoop_delivers k xs col h j hj⟩

/-- **the gather loop is lossless as a whole**: the column the loop leaves is the gathered values in member order followed by the
    untouched rest; with one slot per member (`[None] * world_size`, the sizing fact `bufferSized` of a well-formed table) the
    column IS the gathered list — no value dropped, duplicated, reordered, no slot left `None`. -/
theorem C15_skel_gather_exact {α : Type} (k : Nat) (xs col : List α) :
    (xs.length ≤ col.length → storeLoop k (enumIdx k) 0 xs col = xs ++ col.drop xs.length) ∧
    (xs.length = col.length → storeLoop k (enumIdx k) 0 xs col = xs) := by
  refine ⟨storeLoop_exact k xs col, fun h => ?_⟩
  rw [storeLoop_exact k xs col (by omega), h, List.drop_length, List.append_nil]

/-- non-vacuity: three gathered values land under indices 0, 1, 2 of a four-slot column; an index expression other
    than the enumeration index (here the constant 0) puts everything under index 0. -/
example : storeLoop 0 (enumIdx 0) 0 [10, 11, 12] [0, 0, 0, 0] = [10, 11, 12, 0] ∧
    storeLoop 0 (.int 0) 0 [10, 11, 12] [0, 0, 0, 0] = [12, 0, 0, 0] := by decide +kernel

/-- **addressing**: in a well-formed table every rooted collective (`gather`, `gather_object`, `broadcast_object_list`) names
    its root as `toGlobal(g, ·)` with `g` the very group term the collective runs on, a collective without root names none,
    and rank / world size are never asked of the default world. -/
theorem C15_skel_addressing (t : Table) (hwf : WF t = true) :
    ∀ f ∈ t, (∀ cl ∈ f.body.colls, collAddressed cl = true) ∧ (∀ tm ∈ f.body.terms, tm.groupScoped = true) :=
  fun f hf => ⟨(wf_facts t hwf).2.2.2.1 f hf, (wf_facts t hwf).2.2.1 f hf⟩

/-- the facts are not vacuous: each of these one-line changes to the expected skeleton is rejected —
    `dst=rank` (group rank handed to torch), `dist.get_world_size()` without the group, `.values()` instead of the sorted keys. -/
example :
    WF [{ ex_simple_send_tensors with body := .coll 1 .gather (.v "tensor") (.v "group") (.v "rank") (.v "world_size") }] = false ∧
    WF [{ ex_sync_list_length with body := .coll 0 .allGatherObj (.v "x") (.v "process_group") .none (c "repeat" [.none, c "dist.get_world_size" [.none]]) }] = false ∧
    WF [{ ex_sync_dict_tensor_states with body := .ret (c "list" [c ".values()" [.v "my_state_data"]]) }] = false := by decide +kernel

end TE.C15
