/-
  C07 (rounding part) — "the metrics equal their mathematical definitions TO WITHIN ROUNDING OF THE
  WORKING PRECISION", proved in the standard model of floating-point arithmetic.

  Model: TE/Model/Round.lean (import-free).  A rounding operator with unit roundoff `u` is ANY
  `rnd : Q → Q` with `|rnd x − x| ≤ u·|x|`; `fadd/fsub/fmul/fdiv` = exact operation, then `rnd`;
  a sum is taken over an ARBITRARY binary tree (`SumTree`), and `RSum u t v` lets EVERY node round
  differently (any relative error ≤ u per addition).  Helper lemmas: TE/Lemmas/Round*.lean.

  What is proved (for all inputs, all tree shapes, all `u ≥ 0`):
    §1  sums:      |fl-Σ − Σx| ≤ ((1+u)^depth − 1)·Σ|x|,   depth ≤ n − 1,   (1+u)ⁿ − 1 ≤ 2nu  (2nu ≤ 1)
    §2  sums of rounded terms (w·x ; (y−x)² ; w·(y−x)²): exponent depth + k, k = roundings per term
    §3  ratios of two such sums with a non-negative denominator: (5m+1)·u·Σ|terms|/Σden
    §4  class accumulators (left fold of per-batch tree sums): depth = max batch depth + #batches
    §5  the raw-moments total sum of squares `Σy² − (Σy)²/n` (r2_score) has NO bound relative to its value
    §6  instances u = 2⁻²⁴ (float32), 2⁻⁵³ (float64)

  What this does NOT cover: overflow / underflow (the model has unbounded exponent range), the
  transcendental functions `log / exp / log10 / sqrt` and `linalg.eigvals` (no correctly-rounded
  guarantee exists for them), and that torch's CPU kernels ARE such operations applied in SOME tree
  order — that is a measured fact of the trusted base, checked on every run by the rounding-model
  stream of harness/props/c07.py against exact `Fraction` references.

  ONLY property theorems and non-vacuity examples live here.
-/
import TE.Lemmas.RoundMetric
import TE.Lemmas.RoundIEEE
import Mathlib.Tactic.NormNum
namespace TE.C07R
open TE.Round TE.Round.SumTree TE.RoundL

/-! ## 1. Sums over an arbitrary tree -/

/-- **tree_sum_error**: for every tree shape and every rounding operator within `u`,
    `|fsum t − Σ leaves| ≤ ((1+u)^depth t − 1)·Σ|leaves|`. -/
theorem tree_sum_error {u : Q} (hu : 0 ≤ u) (F : Fl u) (t : SumTree Q) :
    qabs (t.fsum F - t.sum) ≤ ((1 + u) ^ t.depth - 1) * t.asum :=
  fsum_error hu F t

/-- the same when EVERY NODE may round differently (`RSum`: each addition within relative error `u`). -/
theorem tree_sum_error_any {u : Q} (hu : 0 ≤ u) {t : SumTree Q} {v : Q} (h : RSum u t v) :
    qabs (v - t.sum) ≤ ((1 + u) ^ t.depth - 1) * t.asum :=
  rsum_error hu h

/-- a fixed rounding operator at every node is one such per-node rounding. -/
theorem fsum_is_RSum {u : Q} (F : Fl u) (t : SumTree Q) : RSum u t (t.fsum F) := fsum_RSum F t

/-- a node computed more accurately (float64 accumulation of float32 partial sums) is admissible. -/
theorem RSum_weaken {u u' : Q} (h : u ≤ u') {t : SumTree Q} {v : Q} (r : RSum u t v) : RSum u' t v :=
  RSum_mono h r

/-- any tree on `n` leaves has depth at most `n − 1`. -/
theorem depth_le_size {α : Type} (t : SumTree α) : t.depth + 1 ≤ t.size := depth_lt_size t

/-- hence, WHATEVER the order of the additions: `|v − Σx| ≤ ((1+u)^(n−1) − 1)·Σ|x|`, `n` = number of addends. -/
theorem tree_sum_error_n {u : Q} (hu : 0 ≤ u) {t : SumTree Q} {v : Q} (h : RSum u t v) :
    qabs (v - t.sum) ≤ ((1 + u) ^ (t.size - 1) - 1) * t.asum :=
  rsum_error_size hu h

/-- **pow_bound**: `(1+u)ⁿ − 1 ≤ 2·n·u` when `2·n·u ≤ 1`. -/
theorem pow_bound {u : Q} (hu : 0 ≤ u) (n : Nat) (h : 2 * (n : Q) * u ≤ 1) : (1 + u) ^ n - 1 ≤ 2 * n * u :=
  RoundL.pow_bound hu n h

/-- the classical `γₙ`: `(1+u)ⁿ − 1 ≤ n·u/(1 − n·u)` when `n·u < 1`. -/
theorem pow_bound_gamma {u : Q} (hu : 0 ≤ u) (n : Nat) (h : (n : Q) * u < 1) :
    (1 + u) ^ n - 1 ≤ n * u / (1 - n * u) :=
  RoundL.pow_bound_gamma hu n h

/-- linear form: `|v − Σx| ≤ 2·d·u·Σ|x|` for any `d ≥ depth` (e.g. `d = n − 1`) with `2·d·u ≤ 1`. -/
theorem tree_sum_error_lin {u : Q} (hu : 0 ≤ u) {t : SumTree Q} {v : Q} (h : RSum u t v) (d : Nat)
    (hd : t.depth ≤ d) (hs : 2 * (d : Q) * u ≤ 1) :
    qabs (v - t.sum) ≤ 2 * d * u * t.asum :=
  le_trans (rsum_error hu h)
    (mul_le_mul_of_nonneg_right (le_trans (ek_mono hu hd) (RoundL.pow_bound hu d hs)) (asum_nonneg t))

/-- sequential (left-fold) summation of a list is the special case of the left comb: exponent = length. -/
theorem lfold_error {u : Q} (hu : 0 ≤ u) (F : Fl u) (xs : List Q) :
    qabs (lfold F 0 xs - xs.sum) ≤ ((1 + u) ^ xs.length - 1) * (xs.map qabs).sum := by
  have h := stream_error hu F (xs.map SumTree.leaf) 0 (by
    intro b hb; obtain ⟨x, _, rfl⟩ := List.mem_map.mp hb; exact Nat.le_refl _)
  rw [lfold_eq_stream]
  simpa [List.map_map, Function.comp_def, SumTree.sum, asum] using h

/-! ## 2. Sums of rounded terms (dot products, squared errors) -/

/-- **general form**: every term `f̂ a` carries at most `k` roundings relative to its exact value `f a`
    (`RelErr u k`), the terms are summed over any tree with any per-node rounding:
    `|v − Σ f| ≤ ((1+u)^(depth+k) − 1)·Σ|f|`. -/
theorem terms_sum_error {α : Type} {u : Q} (hu : 0 ≤ u) {k : Nat} (fh f : α → Q)
    (hf : ∀ a, RelErr u k (fh a) (f a)) (t : SumTree α) {v : Q} (h : RSum u (t.map fh) v) :
    qabs (v - (t.map f).sum) ≤ ((1 + u) ^ (t.depth + k) - 1) * (t.map f).asum :=
  map_rsum_error hu fh f hf t h

/-- the same with an ARBITRARY leafwise relative perturbation `e` (terms that are themselves computed ratios, e.g. the
    per-output errors averaged by `multioutput="uniform_average"`): `|v − Σ f| ≤ ((1+u)^depth·(1+e) − 1)·Σ|f|`. -/
theorem terms_sum_error_e {α : Type} {u e : Q} (hu : 0 ≤ u) (fh f : α → Q)
    (hf : ∀ a, qabs (fh a - f a) ≤ e * qabs (f a)) (t : SumTree α) {v : Q} (h : RSum u (t.map fh) v) :
    qabs (v - (t.map f).sum) ≤ ((1 + u) ^ t.depth * (1 + e) - 1) * (t.map f).asum :=
  pert_rsum_error hu fh f hf t h

/-- and one more rounded operation on a value with relative perturbation `e`: `|rnd x̂ − x| ≤ ((1+e)(1+u) − 1)·|x|`. -/
theorem rnd_after_error {u e : Q} (hu : 0 ≤ u) (F : Fl u) {xh x : Q} (h : qabs (xh - x) ≤ e * qabs x) :
    qabs (F.rnd xh - x) ≤ ((1 + e) * (1 + u) - 1) * qabs x :=
  rnd_pert hu F h

/-- the form the harness evaluates (`rb_sum`): `|v − Σ f| ≤ γ_d·Σ|f|`, `γ_d = d·u/(1−d·u)`, for ANY `d ≥ depth + k`
    (e.g. `d = n − 1 + k`). -/
theorem terms_sum_error_gamma {α : Type} {u : Q} (hu : 0 ≤ u) {k : Nat} (fh f : α → Q)
    (hf : ∀ a, RelErr u k (fh a) (f a)) (t : SumTree α) {v : Q} (h : RSum u (t.map fh) v)
    (d : Nat) (hd : t.depth + k ≤ d) (hdu : (d : Q) * u < 1) :
    qabs (v - (t.map f).sum) ≤ (d : Q) * u / (1 - d * u) * (t.map f).asum :=
  map_rsum_error_gamma hu fh f hf t h d hd hdu

/-- the counting rules behind `k`: an exact value has `k = 0`; a rounding adds one; a product adds the counts. -/
theorem relErr_rules {u : Q} (hu : 0 ≤ u) (F : Fl u) {i j : Nat} {ah a bh b : Q}
    (ra : RelErr u i ah a) (rb : RelErr u j bh b) :
    RelErr u 0 a a ∧ RelErr u (i + 1) (F.rnd ah) a ∧ RelErr u (i + j) (ah * bh) (a * b) ∧
    RelErr u (i + j + 1) (F.fmul ah bh) (a * b) :=
  ⟨relErr_refl hu 0 a, relErr_rnd hu F ra, relErr_mul hu ra rb, relErr_fmul hu F ra rb⟩

/-- roundings committed at a smaller unit roundoff (float64 steps inside a float32 computation) count for the larger one. -/
theorem relErr_weaken {u1 u : Q} (h0 : 0 ≤ u1) (h : u1 ≤ u) {k : Nat} {ah a : Q} (r : RelErr u1 k ah a) :
    RelErr u k ah a :=
  RoundL.relErr_weaken h0 h r

/-- **weighted sum / dot product** `torch.sum(weight * input)` (`Sum`, `Mean.weighted_sum`): `k = 1`. -/
theorem wsum_error {u : Q} (hu : 0 ≤ u) (F : Fl u) (t : SumTree (Q × Q)) :
    qabs (fwsum F t - wsum t) ≤ ((1 + u) ^ (t.depth + 1) - 1) * awsum t :=
  map_rsum_error hu _ _ (relErr_wterm hu F) t (fsum_RSum F _)

/-- **sum of squared errors** `square(target − input).sum()`: `k = 3` (the rounded difference enters twice). -/
theorem sq_sum_error {u : Q} (hu : 0 ≤ u) (F : Fl u) (t : SumTree (Q × Q)) :
    qabs ((t.map (fsq F)).fsum F - (t.map sq).sum) ≤ ((1 + u) ^ (t.depth + 3) - 1) * (t.map sq).asum :=
  map_rsum_error hu _ _ (relErr_sq hu F) t (fsum_RSum F _)

/-- **weighted sum of squared errors** `(square(target − input) * sample_weight).sum()`: `k = 4`. -/
theorem sse_error {u : Q} (hu : 0 ≤ u) (F : Fl u) (t : SumTree (Q × Q × Q)) :
    qabs (fsse F t - sse t) ≤ ((1 + u) ^ (t.depth + 4) - 1) * (t.map sqTerm).asum :=
  map_rsum_error hu _ _ (relErr_sqTerm hu F) t (fsum_RSum F _)

/-! ## 3. Ratios of two sums with a non-negative denominator -/

/-- **quotient of two approximate sums** (the algebraic core): `N̂` within `eN·A` of `N` (`|N| ≤ A`), `D̂` within
    `eD·D` of `D > 0`, `eD < 1`, division rounded:  `|q̂ − N/D| ≤ (u + (1+u)(eN+eD)/(1−eD))·A/D`. -/
theorem quot_error {u eN eD N Nh D Dh A qh : Q} (hu : 0 ≤ u) (hD : 0 < D) (hNA : qabs N ≤ A)
    (hN : qabs (Nh - N) ≤ eN * A) (hDh : qabs (Dh - D) ≤ eD * D) (heN : 0 ≤ eN) (heD : 0 ≤ eD) (heD1 : eD < 1)
    (hq : qabs (qh - Nh / Dh) ≤ u * qabs (Nh / Dh)) :
    qabs (qh - N / D) ≤ (u + (1 + u) * (eN + eD) / (1 - eD)) * (A / D) :=
  RoundL.quot_error hu hD hNA hN hDh heN heD heD1 hq

/-- **ratio of two sums of rounded terms**, any trees, any per-node rounding, rounded division; denominator terms
    non-negative with positive total; `m ≥ depth + k` on both sides, `4·m·u ≤ 1`:
    `|q̂ − Σf/Σg| ≤ (5m+1)·u·(Σ|f| / Σg)`. -/
theorem ratio_error {α β : Type} {u : Q} (hu : 0 ≤ u) {ka kb m : Nat}
    (fh f : α → Q) (hf : ∀ a, RelErr u ka (fh a) (f a)) (gh g : β → Q) (hg : ∀ b, RelErr u kb (gh b) (g b))
    (tn : SumTree α) (td : SumTree β) (hnn : (td.map g).NonNeg) (hpos : 0 < (td.map g).sum)
    (hmn : tn.depth + ka ≤ m) (hmd : td.depth + kb ≤ m) (hm : 1 ≤ m) (h4 : 4 * (m : Q) * u ≤ 1)
    {vN vD qh : Q} (rN : RSum u (tn.map fh) vN) (rD : RSum u (td.map gh) vD)
    (hq : qabs (qh - vN / vD) ≤ u * qabs (vN / vD)) :
    qabs (qh - (tn.map f).sum / (td.map g).sum) ≤ (5 * m + 1) * u * ((tn.map f).asum / (td.map g).sum) :=
  ratio_rsum_error hu fh f hf gh g hg tn td hnn hpos hmn hmd hm h4 rN rD hq

/-- the same with the exact (non-linearised) constant `u + (1+u)(eN+eD)/(1−eD)`,
    `eN = (1+u)^(depth tn + ka) − 1`, `eD = (1+u)^(depth td + kb) − 1 < 1`. -/
theorem ratio_error_exact {α β : Type} {u : Q} (hu : 0 ≤ u) {ka kb : Nat}
    (fh f : α → Q) (hf : ∀ a, RelErr u ka (fh a) (f a)) (gh g : β → Q) (hg : ∀ b, RelErr u kb (gh b) (g b))
    (tn : SumTree α) (td : SumTree β) (hnn : (td.map g).NonNeg) (hpos : 0 < (td.map g).sum)
    (h1 : (1 + u) ^ (td.depth + kb) - 1 < 1)
    {vN vD qh : Q} (rN : RSum u (tn.map fh) vN) (rD : RSum u (td.map gh) vD)
    (hq : qabs (qh - vN / vD) ≤ u * qabs (vN / vD)) :
    qabs (qh - (tn.map f).sum / (td.map g).sum)
      ≤ (u + (1 + u) * (((1 + u) ^ (tn.depth + ka) - 1) + ((1 + u) ^ (td.depth + kb) - 1)) / (1 - ((1 + u) ^ (td.depth + kb) - 1)))
        * ((tn.map f).asum / (td.map g).sum) :=
  ratio_rsum_error_exact hu fh f hf gh g hg tn td hnn hpos h1 rN rD hq

/-- the form the harness evaluates (`rb_quot_const` in harness/props/c07.py): `γ_a = a·u/(1−a·u)`, `γ_b` likewise, for ANY
    `a ≥ depth tn + ka`, `b ≥ depth td + kb` (e.g. `a = n − 1 + ka`: no knowledge of the summation order is needed):
    `|q̂ − Σf/Σg| ≤ (u + (1+u)(γ_a + γ_b)/(1 − γ_b))·Σ|f|/Σg`. -/
theorem ratio_error_gamma {α β : Type} {u : Q} (hu : 0 ≤ u) {ka kb : Nat}
    (fh f : α → Q) (hf : ∀ a, RelErr u ka (fh a) (f a)) (gh g : β → Q) (hg : ∀ b, RelErr u kb (gh b) (g b))
    (tn : SumTree α) (td : SumTree β) (hnn : (td.map g).NonNeg) (hpos : 0 < (td.map g).sum)
    (a b : Nat) (ha : tn.depth + ka ≤ a) (hb : td.depth + kb ≤ b) (hau : (a : Q) * u < 1) (hbu : (b : Q) * u < 1)
    (hb1 : (b : Q) * u / (1 - b * u) < 1)
    {vN vD qh : Q} (rN : RSum u (tn.map fh) vN) (rD : RSum u (td.map gh) vD)
    (hq : qabs (qh - vN / vD) ≤ u * qabs (vN / vD)) :
    qabs (qh - (tn.map f).sum / (td.map g).sum)
      ≤ (u + (1 + u) * ((a : Q) * u / (1 - a * u) + (b : Q) * u / (1 - b * u)) / (1 - (b : Q) * u / (1 - b * u)))
        * ((tn.map f).asum / (td.map g).sum) :=
  ratio_rsum_error_gamma hu fh f hf gh g hg tn td hnn hpos a b ha hb hau hbu hb1 rN rD hq

/-- **weighted mean** `Σw·x / Σw` as computed (`mean`, click-through rate), weights non-negative with positive total:
    `|mean̂ − mean| ≤ (5m+1)·u·(Σ|w·x| / Σw)`, `m ≥ depth + 1`. -/
theorem wmean_error {u : Q} (hu : 0 ≤ u) (F : Fl u) (tn : SumTree (Q × Q)) (td : SumTree Q) (m : Nat)
    (hnn : td.NonNeg) (hpos : 0 < td.sum) (hmn : tn.depth + 1 ≤ m) (hmd : td.depth ≤ m) (h4 : 4 * (m : Q) * u ≤ 1) :
    qabs (fwmean F tn td - wsum tn / td.sum) ≤ (5 * m + 1) * u * (awsum tn / td.sum) := by
  have h := ratio_rsum_error hu (fun p : Q × Q => F.fmul p.1 p.2) (fun p => p.1 * p.2) (relErr_wterm hu F)
    (fun x : Q => x) (fun x => x) (fun b => relErr_refl hu 0 b) tn td
    (by rw [map_id']; exact hnn) (by rw [map_id']; exact hpos) hmn (by simpa using hmd) (by omega) h4
    (fsum_RSum F _) (by rw [map_id']; exact fsum_RSum F td) (F.err _)
  rw [map_id'] at h
  exact h

/-- **weighted mean squared error** `Σw·(y−x)² / Σw` as computed, `m ≥ depth + 4`. -/
theorem mse_error {u : Q} (hu : 0 ≤ u) (F : Fl u) (tn : SumTree (Q × Q × Q)) (td : SumTree Q) (m : Nat)
    (hnn : td.NonNeg) (hpos : 0 < td.sum) (hmn : tn.depth + 4 ≤ m) (hmd : td.depth ≤ m) (h4 : 4 * (m : Q) * u ≤ 1) :
    qabs (fmse F tn td - sse tn / td.sum) ≤ (5 * m + 1) * u * ((tn.map sqTerm).asum / td.sum) := by
  have h := ratio_rsum_error hu (fsqTerm F) sqTerm (relErr_sqTerm hu F)
    (fun x : Q => x) (fun x => x) (fun b => relErr_refl hu 0 b) tn td
    (by rw [map_id']; exact hnn) (by rw [map_id']; exact hpos) hmn (by simpa using hmd) (by omega) h4
    (fsum_RSum F _) (by rw [map_id']; exact fsum_RSum F td) (F.err _)
  rw [map_id'] at h
  exact h

/-- with non-negative weights the squared-error terms are non-negative, so the bound is RELATIVE TO THE VALUE:
    `|mse^ − mse| ≤ (5m+1)·u·mse`. -/
theorem mse_rel_error {u : Q} (hu : 0 ≤ u) (F : Fl u) (tn : SumTree (Q × Q × Q)) (td : SumTree Q) (m : Nat)
    (hw : (tn.map sqTerm).NonNeg) (hnn : td.NonNeg) (hpos : 0 < td.sum) (hmn : tn.depth + 4 ≤ m) (hmd : td.depth ≤ m)
    (h4 : 4 * (m : Q) * u ≤ 1) :
    qabs (fmse F tn td - sse tn / td.sum) ≤ (5 * m + 1) * u * (sse tn / td.sum) := by
  have h := mse_error hu F tn td m hnn hpos hmn hmd h4
  rw [(asum_eq_sum_of_nonneg hw).1] at h
  exact h

/-- **ratio of two weighted sums** (weighted calibration `Σw·input / Σw·target`), denominator products non-negative. -/
theorem wratio_error {u : Q} (hu : 0 ≤ u) (F : Fl u) (tn td : SumTree (Q × Q)) (m : Nat)
    (hnn : (td.map fun p => p.1 * p.2).NonNeg) (hpos : 0 < wsum td)
    (hmn : tn.depth + 1 ≤ m) (hmd : td.depth + 1 ≤ m) (h4 : 4 * (m : Q) * u ≤ 1) :
    qabs (fwratio F tn td - wsum tn / wsum td) ≤ (5 * m + 1) * u * (awsum tn / wsum td) :=
  ratio_rsum_error hu (fun p : Q × Q => F.fmul p.1 p.2) (fun p => p.1 * p.2) (relErr_wterm hu F)
    (fun p : Q × Q => F.fmul p.1 p.2) (fun p => p.1 * p.2) (relErr_wterm hu F) tn td hnn hpos hmn hmd (by omega) h4
    (fsum_RSum F _) (fsum_RSum F _) (F.err _)

/-! ## 4. Streaming (class) form: a left fold of per-batch tree sums -/

/-- the accumulator stream is the tree sum over the left comb of its batches. -/
theorem stream_is_tree_sum {u : Q} (F : Fl u) (bs : List (SumTree Q)) :
    stream F 0 bs = (comb (leaf 0) bs).fsum F := by
  have := stream_eq_fsum_comb F (leaf 0) bs
  simpa [fsum] using this

/-- **stream_error**: state starts at 0, every update adds the tree sum of its batch (batch depths ≤ d):
    `|state − Σ_b Σx| ≤ ((1+u)^(d + #batches) − 1)·Σ_b Σ|x|` — the same bound with depth = batches + max batch depth. -/
theorem stream_error {u : Q} (hu : 0 ≤ u) (F : Fl u) (bs : List (SumTree Q)) (d : Nat) (hb : ∀ b ∈ bs, b.depth ≤ d) :
    qabs (stream F 0 bs - (bs.map SumTree.sum).sum) ≤ ((1 + u) ^ (d + bs.length) - 1) * (bs.map SumTree.asum).sum :=
  RoundL.stream_error hu F bs d hb

/-- the same for batches of rounded terms (`k` roundings per term): exponent `d + #batches + k`. -/
theorem stream_terms_error {α : Type} {u : Q} (hu : 0 ≤ u) (F : Fl u) {k : Nat} (fh f : α → Q)
    (hf : ∀ a, RelErr u k (fh a) (f a)) (bs : List (SumTree α)) (d : Nat) (hb : ∀ b ∈ bs, b.depth ≤ d) :
    qabs (stream F 0 (bs.map fun t => t.map fh) - (bs.map fun t => (t.map f).sum).sum)
      ≤ ((1 + u) ^ (d + bs.length + k) - 1) * (bs.map fun t => (t.map f).asum).sum :=
  RoundL.stream_terms_error hu F fh f hf bs d hb

/-- **mixed precision** (`Sum` / `Mean` on float32 tensors: batch statistics in float32 = `F₁ : Fl u₁`, states accumulated in
    float64 = `F₂ : Fl u₂`): with `u ≥ u₁, u₂` the state obeys the same bound,
    `|state − Σ_b Σ f| ≤ ((1+u)^(d + #batches + k) − 1)·Σ_b Σ|f|`. -/
theorem mixed_stream_error {α : Type} {u1 u2 u : Q} (hu : 0 ≤ u) (h1 : u1 ≤ u) (h2 : u2 ≤ u) (F1 : Fl u1) (F2 : Fl u2)
    {k : Nat} (fh f : α → Q) (hf : ∀ a, RelErr u k (fh a) (f a)) (bs : List (SumTree α)) (d : Nat)
    (hb : ∀ b ∈ bs, b.depth ≤ d) :
    qabs (lfold F2 0 ((bs.map fun t => t.map fh).map (fsum F1)) - (bs.map fun t => (t.map f).sum).sum)
      ≤ ((1 + u) ^ (d + bs.length + k) - 1) * (bs.map fun t => (t.map f).asum).sum :=
  comb_terms_error_any hu fh f hf bs d hb (mixed_stream_RSum h1 h2 F1 F2 (leaf 0) 0 (RSum.leaf 0) _)

/-- **`Mean.compute()` after any history of updates**: `weighted_sum / weights`, both accumulator streams; weights
    non-negative with positive total; `m ≥ max batch depth + #updates + 1`, `4·m·u ≤ 1`. -/
theorem mean_class_error {u : Q} (hu : 0 ≤ u) (F : Fl u) (bn : List (SumTree (Q × Q))) (bd : List (SumTree Q)) (d m : Nat)
    (hbn : ∀ b ∈ bn, b.depth ≤ d) (hbd : ∀ b ∈ bd, b.depth ≤ d) (hnn : ∀ b ∈ bd, b.NonNeg)
    (hpos : 0 < (bd.map SumTree.sum).sum) (hmn : d + bn.length + 1 ≤ m) (hmd : d + bd.length ≤ m)
    (h4 : 4 * (m : Q) * u ≤ 1) :
    qabs (fmeanClass F bn bd - (bn.map wsum).sum / (bd.map SumTree.sum).sum)
      ≤ (5 * m + 1) * u * ((bn.map awsum).sum / (bd.map SumTree.sum).sum) := by
  have eN := RoundL.stream_terms_error hu F (fun p : Q × Q => F.fmul p.1 p.2) (fun p => p.1 * p.2) (relErr_wterm hu F) bn d hbn
  have eD := RoundL.stream_error hu F bd d hbd
  have hA : (bd.map SumTree.asum).sum = (bd.map SumTree.sum).sum := by
    congr 1
    exact List.map_congr_left fun b hb => (asum_eq_sum_of_nonneg (hnn b hb)).1
  rw [hA] at eD
  have hNA : qabs (bn.map wsum).sum ≤ (bn.map awsum).sum := by
    have h0 := qabs_sum_le_asum (comb (leaf 0) (bn.map fun t => t.map fun p : Q × Q => p.1 * p.2))
    rw [comb_sum, comb_asum] at h0
    simp only [SumTree.sum, asum, qabs_zero, zero_add, List.map_map, Function.comp_def] at h0
    exact h0
  exact quot_error_poly hu hmn hmd (by omega) h4 hpos hNA eN eD (F.err _)

/-! ## 5. The raw-moments total sum of squares is NOT covered (why r2_score near-constant-target is a finding) -/

/-- **witness**: for EVERY unit roundoff `u > 0` there are a rounding operator within `u` and two observations
    for which the sufficient-statistics form `Σy² − (Σy)²/n` evaluates to `−1/2` while the definition
    `Σ(y−ȳ)²` is `+1/2`: the computed total sum of squares is negative, the true one positive. -/
theorem tss_raw_witness (u : Q) (hu : 0 < u) :
    ∃ (F : Fl u) (y1 y2 : Q), ftssRaw2 F y1 y2 = -(1 / 2) ∧ tssDef2 y1 y2 = 1 / 2 := by
  have hN : 0 < 1 / u := by positivity
  have hc : 0 ≤ 1 / u * (1 / u) + (1 / u + 1) * (1 / u + 1) := by positivity
  have h : 1 ≤ u * qabs (1 / u * (1 / u) + (1 / u + 1) * (1 / u + 1)) := by
    rw [qabs_of_nonneg hc]
    have e : u * (1 / u * (1 / u) + (1 / u + 1) * (1 / u + 1)) = 2 / u + 2 + u := by
      field_simp; ring
    rw [e]
    have : 0 < 2 / u := by positivity
    linarith
  exact ⟨Fl.bump u _ h, 1 / u, 1 / u + 1, tss_raw_bump hN h⟩

/-- hence no bound of the kind proved above — `|computed − true| ≤ c·u·true` — holds for the raw-moments form,
    whatever the constant `c`. -/
theorem tss_raw_no_rel_bound (c : Q) :
    ¬ ∀ (u : Q), 0 < u → ∀ (F : Fl u) (y1 y2 : Q),
        qabs (ftssRaw2 F y1 y2 - tssDef2 y1 y2) ≤ c * u * tssDef2 y1 y2 := by
  intro hall
  have hq : 0 < qabs c + 1 := by have := qabs_nonneg c; linarith
  have hu : 0 < 1 / (qabs c + 1) := by positivity
  obtain ⟨F, y1, y2, h1, h2⟩ := tss_raw_witness _ hu
  have h := hall _ hu F y1 y2
  rw [h1, h2] at h
  have e : (-(1 / 2) - 1 / 2 : Q) = -1 := by norm_num
  rw [e, qabs_neg, qabs_of_nonneg (by norm_num : (0 : Q) ≤ 1)] at h
  have hc : c * (1 / (qabs c + 1)) ≤ 1 := by
    rw [mul_one_div, div_le_one hq]
    have := le_qabs c; linarith
  nlinarith

/-- in float32 terms (`u = 2⁻²⁴`): the targets 4096 and 4097 suffice — `u·Σy² ≥ 1`. -/
theorem tss_raw_witness_f32 :
    ∃ F : Fl (1 / 2 ^ 24), ftssRaw2 F 4096 (4096 + 1) = -(1 / 2) ∧ tssDef2 4096 (4096 + 1) = 1 / 2 := by
  have h : (1 : Q) ≤ 1 / 2 ^ 24 * qabs (4096 * 4096 + (4096 + 1) * (4096 + 1)) := by
    rw [qabs_of_nonneg (by norm_num)]; norm_num
  exact ⟨Fl.bump _ _ h, tss_raw_bump (by norm_num) h⟩

/-! ## 6. float32 / float64 instances -/

/-- float32 (`u = 2⁻²⁴`): a sum of `n ≤ 2²² ` addends in ANY order errs by at most `(n−1)·2⁻²³·Σ|x|`. -/
theorem sum_error_f32 {t : SumTree Q} {v : Q} (h : RSum (1 / 2 ^ 24) t v) (hn : t.size ≤ 2 ^ 22) :
    qabs (v - t.sum) ≤ 2 * ((t.size - 1 : Nat) : Q) * (1 / 2 ^ 24) * t.asum := by
  refine tree_sum_error_lin (by norm_num) h (t.size - 1) (by have := depth_lt_size t; omega) ?_
  have : ((t.size - 1 : Nat) : Q) ≤ 2 ^ 22 := by
    have : t.size - 1 ≤ 2 ^ 22 := by omega
    exact_mod_cast this
  linarith

/-- float64 (`u = 2⁻⁵³`): at most `(n−1)·2⁻⁵²·Σ|x|` for `n ≤ 2⁵¹` addends. -/
theorem sum_error_f64 {t : SumTree Q} {v : Q} (h : RSum (1 / 2 ^ 53) t v) (hn : t.size ≤ 2 ^ 51) :
    qabs (v - t.sum) ≤ 2 * ((t.size - 1 : Nat) : Q) * (1 / 2 ^ 53) * t.asum := by
  refine tree_sum_error_lin (by norm_num) h (t.size - 1) (by have := depth_lt_size t; omega) ?_
  have : ((t.size - 1 : Nat) : Q) ≤ 2 ^ 51 := by
    have : t.size - 1 ≤ 2 ^ 51 := by omega
    exact_mod_cast this
  linarith

/-- **round-to-nearest with a p-bit significand (unbounded exponent range) IS a rounding operator of the model with
    `u = 2⁻ᵖ`** (`rndP`: the nearest multiple of `2^(e−p+1)` where `2ᵉ ≤ |x| < 2ᵉ⁺¹`) — binary32 is `p = 24`, binary64 `p = 53`. -/
theorem ieee_in_model (p : Nat) (x : Q) : qabs (rndP p x - x) ≤ 1 / 2 ^ p * qabs x := rndP_err p x

/-- so every theorem above holds for IEEE-style float32 arithmetic; e.g. the sum of `n ≤ 2²²` addends over any tree. -/
theorem sum_error_ieee32 (t : SumTree Q) (hn : t.size ≤ 2 ^ 22) :
    qabs (t.fsum (Fl.ieee 24) - t.sum) ≤ 2 * ((t.size - 1 : Nat) : Q) * (1 / 2 ^ 24) * t.asum :=
  sum_error_f32 (fsum_RSum (Fl.ieee 24) t) hn

/-- float32 weighted mean (`mean`, click-through rate) of at most `2¹⁸` terms: `|mean̂ − mean| ≤ (5m+1)·2⁻²⁴·Σ|w·x|/Σw`. -/
theorem wmean_error_f32 (F : Fl (1 / 2 ^ 24)) (tn : SumTree (Q × Q)) (td : SumTree Q) (m : Nat)
    (hnn : td.NonNeg) (hpos : 0 < td.sum) (hmn : tn.depth + 1 ≤ m) (hmd : td.depth ≤ m) (hm : m ≤ 2 ^ 18) :
    qabs (fwmean F tn td - wsum tn / td.sum) ≤ (5 * m + 1) * (1 / 2 ^ 24) * (awsum tn / td.sum) := by
  refine wmean_error (by norm_num) F tn td m hnn hpos hmn hmd ?_
  have h1 : m ≤ 262144 := by simpa using hm
  have h2 : (m : Q) ≤ 262144 := by exact_mod_cast h1
  have e : (4 : Q) * m * (1 / 2 ^ 24) = m / 4194304 := by ring
  rw [e, div_le_one (by norm_num)]
  linarith

/-! ## Non-vacuity -/

/-- the model is inhabited for every `u ≥ 0` by a rounding operator that really errs (`x ↦ x(1+u)`),
    and by exact arithmetic for `u = 0`. -/
example : Fl 0 := Fl.exact
example : Fl (1 / 8) := Fl.scale (1 / 8) (by norm_num)
/-- float32 / float64 round-to-nearest (unbounded exponent). -/
example : Fl (1 / 2 ^ 24) := Fl.ieee 24
example : Fl (1 / 2 ^ 53) := Fl.ieee 53

/-- `tree_sum_error` is attained: with `rnd x = x(1+u)`, `u = 1/8`, on the balanced tree `(1 + 2) + (3 + 4)`
    the computed sum is `10·(9/8)²` and the error is exactly `((1+u)² − 1)·Σ|x|`. -/
example : let F := Fl.scale (1 / 8) (by norm_num)
    let t : SumTree Q := .node (.node (.leaf 1) (.leaf 2)) (.node (.leaf 3) (.leaf 4))
    t.depth = 2 ∧ t.size = 4 ∧ qabs (t.fsum F - t.sum) = ((1 + 1 / 8) ^ t.depth - 1) * t.asum := by
  refine ⟨rfl, rfl, ?_⟩
  simp only [fsum, Fl.fadd, Fl.scale, SumTree.sum, asum, depth]
  rw [qabs_of_nonneg (by norm_num), qabs_of_nonneg (by norm_num), qabs_of_nonneg (by norm_num),
    qabs_of_nonneg (by norm_num), qabs_of_nonneg (by norm_num)]
  norm_num

/-- cancellation: with mixed signs the bound is relative to `Σ|x|`, not to the sum: `(1 − 1) + 1/2`. -/
example : let t : SumTree Q := .node (.node (.leaf 1) (.leaf (-1))) (.leaf (1 / 2))
    t.sum = 1 / 2 ∧ t.asum = 5 / 2 ∧ t.depth + 1 ≤ t.size := by
  refine ⟨by norm_num [SumTree.sum], ?_, by decide⟩
  simp only [asum]
  rw [qabs_of_nonneg (by norm_num), qabs_of_nonpos (by norm_num), qabs_of_nonneg (by norm_num)]
  norm_num

/-- the hypotheses of `wmean_error` / `mean_class_error` are satisfiable: weights `(1/2, 2)`, `m = 2`, `u = 2⁻²⁴`. -/
example : let td : SumTree Q := .node (.leaf (1 / 2)) (.leaf 2)
    td.NonNeg ∧ 0 < td.sum ∧ td.depth + 1 ≤ 2 ∧ 4 * ((2 : Nat) : Q) * (1 / 2 ^ 24) ≤ 1 := by
  refine ⟨⟨by norm_num [NonNeg], by norm_num [NonNeg]⟩, by norm_num [SumTree.sum], by decide, by norm_num⟩

/-- `pow_bound` at float32 for 4096 addends: `2·n·u = 2⁻¹¹ ≤ 1`. -/
example : 2 * ((4096 : Nat) : Q) * (1 / 2 ^ 24) ≤ 1 := by norm_num

end TE.C07R
