/-
  C16 — multi-task / multi-class / multi-label / multi-query / multi-output results decompose
  into single slices; averaged results are the stated average of the per-slice results; no
  slice depends on another slice's data.

  ONLY property theorems and non-vacuity examples live here; helpers are in
  TE/Lemmas/Multi*.lean.  Models: TE/Model/Multi.lean (the code's *vectorised* multi-row
  pipelines: flat boolean-mask selection, flat `masked_scatter_`, `split(sizes)`, `sum(-1)` and
  `sum(dim=0)` over row-major data, the `indexes == i` filter) against the single-slice models
  of TE/Model/{Curve,Rank,Agg,Binned,Count,Window}.lean — so the statements compose with
  C04–C08 / C13 (model = definition) to "slice i of the multi call = the definition on slice i".

  Every example uses heterogeneous rows: one row whose scores all tie, one all-positive row,
  one ordinary row.
-/
import TE.Model.Multi
import TE.Lemmas.Multi
import TE.Lemmas.MultiAuroc
import TE.Lemmas.MultiSum
import TE.Lemmas.MultiReg
import TE.Lemmas.MultiRank
import TE.Lemmas.MultiWindow
import TE.Lemmas.MultiWindowAuroc
import TE.Lemmas.MultiCount
import TE.Props.C04
import TE.Props.C05
import TE.Props.C06
namespace TE.C16
open TE TE.Curve TE.Multi TE.MultiL

/-! ## 1. the flat primitives never mix rows -/

/-- **rows never leak through `masked_scatter_`.**  For ANY number of rows and ANY masks /
    values of matching shape (a row may select everything, a single element, or nothing):
    selecting `vals[mask]` — ONE flat vector of all rows' selected values — and scattering it
    into a zero tensor under `shifted_mask = mask.sum(-1, keepdim=True) >= arange(n, 0, -1)`
    succeeds (the source never runs out) and gives every row exactly its own selected
    values, right-aligned, zeros on the left. -/
theorem maskedScatterRight_rows (masks : List (List Bool)) (vals : List (List Q))
    (h : RowsMatch masks vals) :
    maskedScatterFlat (shiftedMasks masks) (selectFlat masks vals)
      = .ok (List.zipWith (fun m v => padLeft m.length (select m v)) masks vals) := by
  have := maskedScatterFlat_shifted masks vals [] h
  rwa [List.append_nil, ← selectFlat_rows masks vals h] at this

/-- all ties (one element kept), everything kept, first and last kept. -/
example : maskedScatterFlat (shiftedMasks [[false, false, true], [true, true, true], [true, false, true]])
    (selectFlat [[false, false, true], [true, true, true], [true, false, true]] [[1, 2, 3], [4, 5, 6], [7, 8, 9]])
    = .ok [[0, 0, 3], [4, 5, 6], [0, 7, 9]] := by
  rw [maskedScatterRight_rows _ _ (by decide)]; exact congrArg _ (by decide +kernel)
example : RowsMatch [[false, false, true], [true, true, true], [true, false, true]]
    ([[1, 2, 3], [4, 5, 6], [7, 8, 9]] : List (List Q)) := by decide

/-- the shifted mask of a row marks exactly its last `count` positions. -/
theorem shiftedMask_marks_last (n cnt : Nat) (h : cnt ≤ n) :
    shiftedMask n cnt = List.replicate (n - cnt) false ++ List.replicate cnt true :=
  shiftedMask_eq n cnt h

example : shiftedMask 4 1 = [false, false, false, true] ∧ shiftedMask 3 3 = [true, true, true]
    ∧ shiftedMask 3 0 = [false, false, false] := by decide

/-- **`x[mask].split(mask.sum(1).tolist())` hands every row its own selected values**
    (the multiclass precision-recall curve), for any element type. -/
theorem splitSizes_rows {α : Type} (masks : List (List Bool)) (vals : List (List α))
    (h : RowsMatch masks vals) :
    splitSizes (masks.map countTrue) (selectFlat masks vals) = List.zipWith select masks vals :=
  splitSizes_selectFlat masks vals h

example : splitSizes ([[false, false, true], [true, true, true], [true, false, true]].map countTrue)
    (selectFlat [[false, false, true], [true, true, true], [true, false, true]] [[1, 2, 3], [4, 5, 6], [7, 8, 9]])
    = ([[3], [4, 5, 6], [7, 9]] : List (List Nat)) := by decide

/-- **`sum(-1)` of a `(t, n)` tensor given by its flat row-major data is the per-row sum.** -/
theorem sum_lastdim_rows (n : Nat) (rows : Mat) (h : ∀ r ∈ rows, r.length = n) :
    sumLastDim rows.length n rows.flatten = rows.map List.sum :=
  sumLastDim_rows n rows h

example : sumLastDim 3 2 [1/2, 1/2, 1, 1, 1/4, 3/4] = [1, 2, 1] := by decide +kernel

/-- **`sum(dim=0)` of an `(n, d)` tensor given by its rows is the vector of the column sums.** -/
theorem sum_dim0_cols (d : Nat) (rows : Mat) (h : ∀ r ∈ rows, r.length = d) :
    sumDim0 d rows = (Agg.cols d rows).map List.sum :=
  sumDim0_eq_cols d rows h

example : sumDim0 2 [[1/2, 1], [1/2, 1], [1, 3/4]] = [2, 11/4] := by decide +kernel

/-! ## 2. AUROC: `_binary_auroc_compute_jit` on `(num_tasks, n)`, `_multiclass_auroc_compute` -/

/-- the vectorised pipeline on any list of sorted rows is the 1-D routine of C05 on every row. -/
theorem auroc_rows_eq_map (rows : List (List Pt)) : aurocRows rows = rows.mapM aurocSorted :=
  aurocRows_eq_mapM rows

/-- **`binary_auroc(num_tasks = T)` = the single-task AUROC on every row**: the 2-D pipeline
    (flat select + flat masked scatter) equals `rows.map` of the 1-D model of C05, for every
    number of tasks and all row contents — including the error when a row is empty. -/
theorem auroc_multi_eq_map (rows : List (List Q × List Q × List Q)) :
    binaryAurocMulti rows = rows.mapM fun r => binaryAuroc r.1 r.2.1 r.2.2 :=
  binaryAurocMulti_eq_tasks rows

/-- the 1-D call is the same definition instantiated with one row. -/
theorem auroc_one_row (xs ts ws : List Q) :
    binaryAuroc1 xs ts ws = (binaryAuroc xs ts ws).map ([·]) := by
  unfold binaryAuroc1
  rw [auroc_multi_eq_map, List.mapM_cons, List.mapM_nil]
  cases binaryAuroc xs ts ws <;> rfl

/-- ties / all-positive / ordinary rows (already sorted), with weights: evaluated by the
    vectorised model itself (flat select, flat scatter). -/
example : aurocRows [[⟨1/2, 1, 0⟩, ⟨1/2, 0, 2⟩, ⟨1/2, 1, 0⟩], [⟨3/4, 2, 0⟩, ⟨1/2, 1, 0⟩, ⟨1/4, 1, 0⟩],
    [⟨3/4, 1, 0⟩, ⟨1/2, 0, 1⟩, ⟨1/4, 0, 2⟩]] = .ok [1/2, 1/2, 1] := ok_of_toOption (by decide +kernel)

/-- composed with C05: every task's value is the *definition* (weighted pair probability with
    ½ for ties; ½ when a class carries no weight) of that task's row. -/
theorem auroc_multi_eq_spec (rows : List (List Q × List Q × List Q))
    (hne : ∀ r ∈ rows, Spec.Curve.samples r.1 r.2.1 r.2.2 ≠ [])
    (hlab : ∀ r ∈ rows, ∀ x ∈ Spec.Curve.samples r.1 r.2.1 r.2.2, x.t = 0 ∨ x.t = 1) :
    binaryAurocMulti rows
      = .ok (rows.map fun r => Spec.Curve.auroc (Spec.Curve.samples r.1 r.2.1 r.2.2)) := by
  rw [binaryAurocMulti_eq_tasks]
  exact C05.auroc_tasks_model_eq_spec rows hne hlab

example : binaryAurocMulti [([1/2, 1/2, 1/2], [1, 0, 1], [1, 2, 1]), ([1/4, 1/2, 3/4], [1, 1, 1], [1, 1, 2]),
    ([1/4, 3/4, 1/2], [0, 1, 0], [2, 1, 1])] = .ok [1/2, 1/2, 1] := by
  rw [auroc_multi_eq_spec _ (by decide +kernel) (by decide +kernel)]; exact congrArg _ (by decide +kernel)

/-- **slice independence**: the result of task `i` only depends on row `i` — replacing any
    other rows (any number of them, any contents) leaves it unchanged. -/
theorem auroc_multi_row_independent (rows rows' : List (List Q × List Q × List Q)) (vs vs' : List Q) (i : Nat)
    (h : binaryAurocMulti rows = .ok vs) (h' : binaryAurocMulti rows' = .ok vs')
    (hi : rows[i]? = rows'[i]?) (hlt : i < rows.length) : vs[i]? = vs'[i]? := by
  rw [auroc_multi_eq_map] at h h'
  obtain ⟨r, hr⟩ : ∃ r, rows[i]? = some r := ⟨rows[i], List.getElem?_eq_getElem hlt⟩
  obtain ⟨v, hv, e⟩ := mapM_ok_get i r h hr
  obtain ⟨v', hv', e'⟩ := mapM_ok_get i r h' (hi ▸ hr)
  rw [hv] at hv'
  rw [e, e', Except.ok.inj hv']

example : ∃ vs vs', binaryAurocMulti [([1/2, 1/2], [1, 0], [1, 1]), ([1/4, 3/4], [0, 1], [1, 1])] = .ok vs
    ∧ binaryAurocMulti [([1/4, 1/2], [1, 1], [1, 1]), ([1/4, 3/4], [0, 1], [1, 1])] = .ok vs' ∧ vs[1]? = vs'[1]? :=
  ⟨[1/2, 1], [1/2, 1],
    by rw [auroc_multi_eq_spec _ (by decide +kernel) (by decide +kernel)]; exact congrArg _ (by decide +kernel),
    by rw [auroc_multi_eq_spec _ (by decide +kernel) (by decide +kernel)]; exact congrArg _ (by decide +kernel), rfl⟩

/-- **`_multiclass_auroc_compute`** (one row per class, flat select / scatter) = the
    per-class one-vs-rest routine of C05 followed by `average`. -/
theorem multiclass_auroc_multi_eq (cols : List (List Q)) (labs : List Q) (avg : Avg) :
    multiclassAurocMulti cols labs avg = multiclassAuroc cols labs avg :=
  multiclassAurocMulti_eq cols labs avg

/-- `average=None`: class `c` = the definition on the one-vs-rest samples of class `c`;
    `average="macro"`: the unweighted mean of those per-class values. -/
theorem multiclass_auroc_multi_eq_spec (cols : List (List Q)) (labs : List Q)
    (hne : ∀ col ∈ cols, col.zip labs ≠ []) :
    multiclassAurocMulti cols labs .none
        = .ok ((cols.zipIdx.map fun cc => Spec.Curve.auroc (Spec.Curve.ovrSamples cc.2 cc.1 labs)).map XQ.val)
      ∧ multiclassAurocMulti cols labs .macro
        = .ok [Spec.Curve.mean (cols.zipIdx.map fun cc => Spec.Curve.auroc (Spec.Curve.ovrSamples cc.2 cc.1 labs))] := by
  rw [multiclass_auroc_multi_eq, multiclass_auroc_multi_eq]
  exact ⟨C05.multiclass_auroc_none_eq cols labs hne, C05.multiclass_auroc_macro_eq cols labs hne⟩

/-- class 0: all scores tie; class 1: every sample belongs to it (all-positive); class 2: absent. -/
example : multiclassAurocMulti [[1/2, 1/2, 1/2], [1/4, 3/4, 1/2], [1, 0, 1/4]] [1, 1, 1] .none
    = .ok [.val (1/2), .val (1/2), .val (1/2)] := by
  rw [(multiclass_auroc_multi_eq_spec _ _ (by decide +kernel)).1]; exact congrArg _ (by decide +kernel)
example : multiclassAurocMulti [[1/2, 1/2, 1/2], [1/4, 3/4, 1/2], [1, 0, 1/4]] [0, 1, 2] .none
    = .ok [.val (1/2), .val 1, .val (1/2)] := by
  rw [(multiclass_auroc_multi_eq_spec _ _ (by decide +kernel)).1]; exact congrArg _ (by decide +kernel)
example : multiclassAurocMulti [[1/2, 1/2, 1/2], [1/4, 3/4, 1/2], [1, 0, 1/4]] [0, 1, 2] .macro
    = .ok [.val (2/3)] := by
  rw [(multiclass_auroc_multi_eq_spec _ _ (by decide +kernel)).2]; exact congrArg _ (by decide +kernel)

/-! ## 3. precision-recall curves, AUPRC, recall@precision -/

/-- **`_multiclass_precision_recall_curve_compute`** (all classes in one tensor program,
    `x[mask].split(sizes)`) = `_compute_for_each_class` on the sorted samples of every class. -/
theorem multiclass_prcurve_multi_eq_map (rows : List (List Pt)) :
    mcPrCurveRows rows = rows.mapM prCurveSorted := by
  rw [mcPrCurveRows_eq_mapM]
  apply CurveL.mapM_congr
  intro r _
  exact C05.multiclass_prcurve_row_eq r

/-- composed with C05: the curve of class `c` is the definition's curve of the one-vs-rest
    problem of class `c` (one point per distinct score of column `c`). -/
theorem multiclass_prcurve_multi_eq_spec (cols : List (List Q)) (labs : List Q)
    (hne : ∀ col ∈ cols, col.zip labs ≠ []) :
    multiclassPrCurveMulti cols labs = .ok (cols.zipIdx.map fun cc =>
      ⟨(Spec.Curve.prCurve (Spec.Curve.ovrLS cc.2 cc.1 labs)).precision.map XQ.val,
       (Spec.Curve.prCurve (Spec.Curve.ovrLS cc.2 cc.1 labs)).recall.map XQ.val,
       (Spec.Curve.prCurve (Spec.Curve.ovrLS cc.2 cc.1 labs)).thresholds⟩) := by
  rw [multiclassPrCurveMulti_eq]
  exact C05.multiclass_prcurve_eq cols labs hne

/-- class 0 ties everywhere (1 threshold), class 1 has 3 distinct scores and owns all samples,
    class 2 is absent (recall 1 by the NaN convention): three curves of different lengths. -/
example : multiclassPrCurveMulti [[1/2, 1/2, 1/2], [1/4, 3/4, 1/2], [1, 0, 1]] [1, 1, 1]
    = .ok [⟨[.val 0, .val 1], [.val 1, .val 0], [1/2]⟩,
           ⟨[.val 1, .val 1, .val 1, .val 1], [.val 1, .val (2/3), .val (1/3), .val 0], [1/4, 1/2, 3/4]⟩,
           ⟨[.val 0, .val 0, .val 1], [.val 1, .val 1, .val 0], [0, 1]⟩] := by
  rw [multiclass_prcurve_multi_eq_spec _ _ (by decide +kernel)]; exact congrArg _ (by decide +kernel)

/-- the vectorised model itself on those (sorted) rows: one flat selection cut by `split(sizes)`. -/
example : mcPrCurveRows [[⟨1/2, 0, 1⟩, ⟨1/2, 0, 1⟩, ⟨1/2, 0, 1⟩], [⟨3/4, 1, 0⟩, ⟨1/2, 1, 0⟩, ⟨1/4, 1, 0⟩]]
    = .ok [⟨[.val 0, .val 1], [.val 1, .val 0], [1/2]⟩,
           ⟨[.val 1, .val 1, .val 1, .val 1], [.val 1, .val (2/3), .val (1/3), .val 0], [1/4, 1/2, 3/4]⟩] :=
  ok_of_toOption (by decide +kernel)

/-- Python loops over slices — `binary_auprc(num_tasks)`, `multilabel_precision_recall_curve`,
    `multilabel_auprc`, `multilabel_recall_at_fixed_precision`, `multiclass_auprc` (a loop over the
    curves): the model IS the `map` of the single-slice routine, so these hold by `rfl`; whether
    the code really loops over disjoint slices is established by the differential check
    (`harness/props/c16.py`, real multi call vs stacked real single calls). -/
theorem loops_are_maps (rows : List (List Q × List Q)) (minP : Q) :
    binaryAuprcTasks rows = rows.mapM (fun r => binaryAuprc r.1 r.2)
      ∧ multilabelPrCurve rows = rows.mapM (fun c => binaryPrCurve c.1 c.2)
      ∧ multilabelRecallAtPrecision rows minP
          = (do let cs ← rows.mapM (fun c => binaryPrCurve c.1 c.2); cs.mapM fun c => recallAtPrecision c minP) :=
  ⟨rfl, rfl, rfl⟩

/-- …and composed with C05 the per-label recall@precision is the binary routine per label. -/
theorem multilabel_recall_at_precision_per_label (cols : List (List Q × List Q)) (minP : Q)
    (hne : ∀ c ∈ cols, Spec.Curve.posLS c.1 c.2 ≠ []) :
    multilabelRecallAtPrecision cols minP = cols.mapM fun c => binaryRecallAtPrecision c.1 c.2 minP :=
  C05.multilabel_recall_at_precision_eq cols minP hne

/-- macro AUPRC = the mean of the per-class / per-label values (C05: these are the definition's). -/
theorem auprc_averages (cols : List (List Q)) (labs : List Q) (lcols : List (List Q × List Q))
    (hne : ∀ col ∈ cols, col.zip labs ≠ []) (hne' : ∀ c ∈ lcols, Spec.Curve.posLS c.1 c.2 ≠ []) :
    multiclassAuprc cols labs .macro
        = .ok [xdiv (cols.zipIdx.map fun cc => Spec.Curve.auprc (Spec.Curve.ovrLS cc.2 cc.1 labs)).sum
                 (cols.zipIdx.map fun cc => Spec.Curve.auprc (Spec.Curve.ovrLS cc.2 cc.1 labs)).length]
      ∧ multilabelAuprc lcols .macro
        = .ok [xdiv (lcols.map fun c => Spec.Curve.auprc (Spec.Curve.posLS c.1 c.2)).sum
                 (lcols.map fun c => Spec.Curve.auprc (Spec.Curve.posLS c.1 c.2)).length] :=
  ⟨C05.multiclass_auprc_eq cols labs .macro hne, C05.multilabel_auprc_eq lcols .macro hne'⟩

example : multilabelAuprc [([1/2, 1/2, 1/2], [1, 0, 1]), ([1/4, 1/2, 3/4], [1, 1, 1]), ([1/4, 3/4, 1/2], [0, 1, 0])] .none
    = .ok [.val (2/3), .val 1, .val 1] := by
  rw [C05.multilabel_auprc_eq _ _ (by decide +kernel)]; exact congrArg _ (by decide +kernel)

/-! ## 4. `sum(-1)` per task: click-through rate, weighted calibration, normalized entropy -/

/-- **click-through rate with `num_tasks = T`** (element-wise product of the whole tensors,
    `sum(-1)` over the flat data) = the single-task computation on every row. -/
theorem ctr_multi_eq_map (eps : Q) (n : Nat) (inp w : Mat) (hl : inp.length = w.length)
    (hi : ∀ r ∈ inp, r.length = n) (hw : ∀ r ∈ w, r.length = n) :
    ctrMulti eps inp.length n inp.flatten w.flatten
      = (inp.zip w).map fun r =>
          Rank.ctrCompute eps (Rank.ctrUpdate r.1 r.2).1 (Rank.ctrUpdate r.1 r.2).2 :=
  ctrMulti_eq_map eps n inp w hl hi hw

/-- a row of zero weights (0/0 kept at 0 by `eps`), an all-click row, an ordinary row. -/
example : ctrMulti 1 3 3 [1, 0, 1, 1, 1, 1, 0, 1, 0] [0, 0, 0, 1, 2, 1, 1, 1, 2]
    = [.val 0, .val (4/5), .val (1/5)] := by decide +kernel

theorem ctr_multi_scalar_eq_map (eps : Q) (n : Nat) (inp : Mat) (w : Q) (hi : ∀ r ∈ inp, r.length = n) :
    ctrMultiScalar eps inp.length n inp.flatten w
      = inp.map fun r => Rank.ctrCompute eps (Rank.ctrUpdateScalar r w).1 (Rank.ctrUpdateScalar r w).2 :=
  ctrMultiScalar_eq_map eps n inp w hi

/-- **weighted calibration with `num_tasks = T`** = the single-task ratio on every row
    (`x/0` of a row without target weight stays in that row). -/
theorem wc_multi_eq_map (n : Nat) (inp tgt w : Mat) (h1 : inp.length = tgt.length) (h2 : tgt.length = w.length)
    (hi : ∀ r ∈ inp, r.length = n) (ht : ∀ r ∈ tgt, r.length = n) (hw : ∀ r ∈ w, r.length = n) :
    wcMulti inp.length n inp.flatten tgt.flatten w.flatten
      = (inp.zip (tgt.zip w)).map fun r =>
          xdiv (Rank.wcUpdate r.1 r.2.1 r.2.2).1 (Rank.wcUpdate r.1 r.2.1 r.2.2).2 :=
  wcMulti_eq_map n inp tgt w h1 h2 hi ht hw

/-- row 0 has no positive target (`+inf`), row 1 has zero weights (`nan`), row 2 is ordinary. -/
example : wcMulti 3 2 [1/2, 1/4, 1/2, 1/2, 1/4, 3/4] [0, 0, 1, 1, 1, 0] [1, 1, 0, 0, 1, 2]
    = [.pinf, .nan, .val (7/4)] := by decide +kernel

theorem wc_multi_scalar_eq_map (n : Nat) (inp tgt : Mat) (w : Q) (h1 : inp.length = tgt.length)
    (hi : ∀ r ∈ inp, r.length = n) (ht : ∀ r ∈ tgt, r.length = n) :
    wcMultiScalar inp.length n inp.flatten tgt.flatten w
      = (inp.zip tgt).map fun r =>
          xdiv (Rank.wcUpdateScalar r.1 r.2 w).1 (Rank.wcUpdateScalar r.1 r.2 w).2 :=
  wcMultiScalar_eq_map n inp tgt w h1 hi ht

/-- **binary normalized entropy with `num_tasks = T`** (any `ln`, `exp`; probabilities or
    logits; weight tensor) = the single-task computation on every row. -/
theorem ne_multi_eq_map (ln exp : Q → Q) (fl : Bool) (n : Nat) (xs ts ws : Mat)
    (h1 : xs.length = ts.length) (h2 : ts.length = ws.length)
    (hx : ∀ r ∈ xs, r.length = n) (ht : ∀ r ∈ ts, r.length = n) (hw : ∀ r ∈ ws, r.length = n) :
    bneMulti ln exp fl xs.length n xs.flatten ts.flatten ws.flatten
      = (xs.zip (ts.zip ws)).map fun r =>
          let u := Agg.bneUpdate ln exp fl r.1 r.2.1 (some r.2.2)
          Agg.bneCompute ln u.1 u.2.1 u.2.2 :=
  bneMulti_eq_map ln exp fl n xs ts ws h1 h2 hx ht hw

example : ([[1/2, 1/4], [1/2, 1/2]] : Mat).length = ([[1, 0], [1, 1]] : Mat).length
    ∧ ∀ r ∈ ([[1/2, 1/4], [1/2, 1/2]] : Mat), r.length = 2 := by decide

/-! ### the class forms `WeightedCalibration` / `BinaryNormalizedEntropy`: the "no update yet" guard

  `compute()` starts with `if torch.all(self.weighted_target_sum == 0.0): return torch.empty(0)` (resp.
  `num_examples`).  Before the `fix:` commits b23feff / 622011e the test was `torch.any`, and one task without
  positive target weight (resp. without weight) made the result of EVERY task disappear
  (`C16|WeightedCalibration|one-degenerate-task|…`, `C16|BinaryNormalizedEntropy|one-degenerate-task|…`: fixed). -/

/-- **per task**: unless every task is degenerate (the documented "no update yet" case), entry `i`
    of `compute()` is the division of task `i`'s own sums — `x/0` of a degenerate task stays in
    that task, as in the functional — whatever the other tasks hold; and for a non-degenerate
    task it is exactly what the single-task instance reports. -/
theorem class_compute_per_task (ln : Q → Q) (sums : List (Q × Q)) (stats : List (Q × Q × Q))
    (h : ∃ s ∈ sums, s.2 ≠ 0) (h' : ∃ s ∈ stats, s.2.2 ≠ 0) :
    wcClassCompute sums = sums.map (fun s => xdiv s.1 s.2)
      ∧ bneClassCompute ln stats = stats.map (fun s => Agg.bneCompute ln s.1 s.2.1 s.2.2)
      ∧ (∀ s : Q × Q, s.2 ≠ 0 → wcClassCompute [s] = [xdiv s.1 s.2])
      ∧ (∀ s : Q × Q × Q, s.2.2 ≠ 0 → bneClassCompute ln [s] = [Agg.bneCompute ln s.1 s.2.1 s.2.2]) :=
  ⟨guard_per_task (fun (s : Q × Q) => s.2) (fun s => xdiv s.1 s.2) sums h,
   guard_per_task (fun (s : Q × Q × Q) => s.2.2) (fun s => Agg.bneCompute ln s.1 s.2.1 s.2.2) stats h',
   fun s hs => guard_per_task (fun (s : Q × Q) => s.2) (fun s => xdiv s.1 s.2) [s] ⟨s, by simp, hs⟩,
   fun s hs => guard_per_task (fun (s : Q × Q × Q) => s.2.2) (fun s => Agg.bneCompute ln s.1 s.2.1 s.2.2) [s]
     ⟨s, by simp, hs⟩⟩

example : ∃ s ∈ ([(1, 1), (1, 0)] : List (Q × Q)), s.2 ≠ 0 := ⟨(1, 1), by simp, by decide +kernel⟩

/-- the documented exception: every task without denominator ("no update yet") ⇒ an empty tensor. -/
theorem class_compute_no_update (ln : Q → Q) (sums : List (Q × Q)) (stats : List (Q × Q × Q))
    (h : ∀ s ∈ sums, s.2 = 0) (h' : ∀ s ∈ stats, s.2.2 = 0) :
    wcClassCompute sums = [] ∧ bneClassCompute ln stats = [] :=
  ⟨guard_no_update (fun (s : Q × Q) => s.2) (fun s => xdiv s.1 s.2) sums h,
   guard_no_update (fun (s : Q × Q × Q) => s.2.2) (fun s => Agg.bneCompute ln s.1 s.2.1 s.2.2) stats h'⟩

/-- regression on the input of the former witness (replayed on the real classes by `./check C16`):
    task 0 has calibration 1, task 1 has no positive target — the two-task instance now reports
    `[1, inf]` like the functional, and task 0's entry is the single-task instance's value. -/
theorem class_compute_per_task_regression :
    wcClassCompute [(1, 1), (1, 0)] = [.val 1, .pinf] ∧ wcClassCompute [(1, 1)] = [.val 1]
      ∧ wcClassCompute [(0, 0), (1, 0)] = [] := by
  decide +kernel

/-! ## 5. `sum(dim=0)` per output: mean squared error, R² -/

/-- `_update` of mean_squared_error on an `(n, d)` tensor = the per-column sums of squared
    errors (with or without sample weights). -/
theorem mse_rows_eq_cols (w : Option (List Q)) (xrows trows : Mat) (d : Nat)
    (hx : ∀ r ∈ xrows, r.length = d) (ht : ∀ r ∈ trows, r.length = d) :
    mseUpdateRows w xrows trows d
      = Agg.mseUpdate w (Agg.cols d xrows) (Agg.cols d trows) trows.length :=
  mseUpdateRows_eq w xrows trows d hx ht

/-- **`multioutput="raw_values"`: entry `i` is the single-output MSE of column `i`**, and
    `"uniform_average"` is the mean of those per-column values. -/
theorem mse_raw_values_cols (w : Option (List Q)) (n : Nat) (xcols tcols : Mat) :
    Agg.mseCompute false (Agg.mseUpdate w xcols tcols n).1 (Agg.mseUpdate w xcols tcols n).2
        = List.zipWith (mseCol w n) xcols tcols
      ∧ Agg.mseCompute true (Agg.mseUpdate w xcols tcols n).1 (Agg.mseUpdate w xcols tcols n).2
        = [Agg.xmean (List.zipWith (mseCol w n) xcols tcols)] := by
  simp only [Agg.mseCompute, Bool.false_eq_true, if_false, if_true, mseRaw_cols]
  exact ⟨trivial, trivial⟩

/-- the rows formulation, end to end. -/
theorem mse_multi_eq_cols (uniform : Bool) (w : Option (List Q)) (xrows trows : Mat) (d : Nat)
    (hx : ∀ r ∈ xrows, r.length = d) (ht : ∀ r ∈ trows, r.length = d) :
    mseMulti uniform w xrows trows d
      = if uniform then [Agg.xmean (List.zipWith (mseCol w trows.length) (Agg.cols d xrows) (Agg.cols d trows))]
        else List.zipWith (mseCol w trows.length) (Agg.cols d xrows) (Agg.cols d trows) := by
  unfold mseMulti
  rw [mse_rows_eq_cols w xrows trows d hx ht]
  cases uniform
  · exact (mse_raw_values_cols w _ _ _).1
  · exact (mse_raw_values_cols w _ _ _).2

/-- a column that is predicted perfectly, a column with errors; a zero-weight sample. -/
example : mseMulti false (some [1, 0, 2]) [[1/2, 1], [1/4, 0], [1, 1/2]] [[1/2, 0], [1/4, 1], [1, 1]] 2
    = [.val 0, .val (1/2)] := by decide +kernel
example : mseMulti true none [[1/2, 1], [1/4, 0], [1, 1/2]] [[1/2, 0], [1/4, 1], [1, 1]] 2 = [.val (3/8)] := by
  decide +kernel

theorem r2_rows_eq_cols (xrows trows : Mat) (d : Nat)
    (hx : ∀ r ∈ xrows, r.length = d) (ht : ∀ r ∈ trows, r.length = d) :
    r2UpdateRows xrows trows d = Agg.r2Update (Agg.cols d xrows) (Agg.cols d trows) :=
  r2UpdateRows_eq xrows trows d hx ht

/-- **R², `raw_values`: entry `i` is the single-output R² of column `i`** (with the same
    `num_regressors` adjustment); guards = the cases in which `r2_score` does not raise. -/
theorem r2_raw_values_cols (n : Q) (p : Nat) (h1 : ¬ n < 2) (h2 : ¬ n - 1 ≤ (p : Q)) (xcols tcols : Mat)
    (hl : xcols.length = tcols.length) :
    Agg.r2Compute (Agg.r2Update xcols tcols).1 (Agg.r2Update xcols tcols).2.1 (Agg.r2Update xcols tcols).2.2 n .raw p
      = .ok (List.zipWith (r2Col n p) xcols tcols) :=
  r2_raw_cols n p h1 h2 xcols tcols hl

/-- the single-output call returns exactly that per-column value. -/
theorem r2_single_col (n : Q) (p : Nat) (h1 : ¬ n < 2) (h2 : ¬ n - 1 ≤ (p : Q)) (x t : List Q) :
    Agg.r2Compute (Agg.r2Update [x] [t]).1 (Agg.r2Update [x] [t]).2.1 (Agg.r2Update [x] [t]).2.2 n .raw p
      = .ok [r2Col n p x t] :=
  r2_raw_cols n p h1 h2 [x] [t] rfl

/-- **`uniform_average`** = the (adjusted) mean of the per-column raw R²;
    **`variance_weighted`** = the (adjusted) sum of the per-column raw R² weighted by the
    column's share of the total sum of squares. -/
theorem r2_averages (n : Q) (p : Nat) (h1 : ¬ n < 2) (h2 : ¬ n - 1 ≤ (p : Q)) (xcols tcols : Mat)
    (hl : xcols.length = tcols.length) :
    Agg.r2Compute (Agg.r2Update xcols tcols).1 (Agg.r2Update xcols tcols).2.1 (Agg.r2Update xcols tcols).2.2 n .uniform p
        = .ok [r2Adj n p (Agg.xmean (List.zipWith (r2One n) xcols tcols))]
      ∧ Agg.r2Compute (Agg.r2Update xcols tcols).1 (Agg.r2Update xcols tcols).2.1 (Agg.r2Update xcols tcols).2.2 n .variance p
        = .ok [r2Adj n p (Agg.xsum (List.zipWith
            (fun ri ti => Agg.xdivX (Agg.xmul ri (.val ti)) (.val (tcols.map (tssCol n)).sum))
            (List.zipWith (r2One n) xcols tcols) (tcols.map (tssCol n))))] := by
  rw [r2Compute_modes _ _ _ n _ p h1 h2, r2Compute_modes _ _ _ n _ p h1 h2, r2Raw_cols n xcols tcols hl,
    r2Tss_cols]
  exact ⟨rfl, rfl⟩

/-- a perfectly predicted column, a constant-target column (`tss = 0`: `-inf`), an ordinary one. -/
example : r2Multi [[1/2, 1, 0], [1/4, 0, 1], [1, 1/2, 1/2]] [[1/2, 1, 0], [1/4, 1, 1/2], [1, 1, 1]] 3 .raw 0
    = .ok [.val 1, .ninf, .val 0] := ok_of_toOption (by decide +kernel)

/-! ## 6. retrieval: the `indexes == i` partition of a mixed batch -/

open TE.Rank in
/-- **RetrievalPrecision / RetrievalRecall with `num_queries > 1`.**  After ANY stream of
    `update(input, target, indexes)` calls (any interleaving of the queries, queries missing
    from a call, empty selections), the retained state of query `i` is exactly the state of a
    single-query metric that was fed the rows of query `i` call by call (only the calls whose
    `indexes` mention `i`: `if i in indexes`). -/
theorem retrieval_queries_partition (c : RCfg) (hq : c.numQueries ≠ 1) (i : Nat)
    (bs : List (List Pair × List Int)) (st : RState) (s : List Pair) (hs : st[i]? = some s) :
    ∃ st' s', rRun c st bs = .ok st' ∧ st'[i]? = some s'
      ∧ rRunSingle (singleQuery c) [s] (queryStream bs i) = .ok [s'] :=
  rRun_query c hq i bs st s hs

open TE.Rank in
/-- two mixed calls; query 1 is absent from the second call; query 2 never occurs. -/
example : rRun ⟨.precision, some 2, false, 3, .neg, false⟩ (rInit ⟨.precision, some 2, false, 3, .neg, false⟩)
      [([(1/2, 1), (1/4, 0), (3/4, 1), (1/8, 0)], [0, 1, 0, 1]), ([(1, 0), (3/8, 1)], [0, 0])]
    = .ok [[(1, 0), (3/4, 1)], [(1/4, 0), (1/8, 0)], []]
  ∧ queryStream [([(1/2, 1), (1/4, 0), (3/4, 1), (1/8, 0)], [0, 1, 0, 1]), ([(1, 0), (3/8, 1)], [0, 0])] 1
    = [[(1/4, 0), (1/8, 0)]] := ⟨ok_of_toOption (by decide +kernel), by decide +kernel⟩

open TE.Rank in
/-- **slice independence for queries**: if two streams give query `i` the same rows call by
    call, query `i` ends in the same state — whatever the other queries' rows are. -/
theorem retrieval_query_independent (c : RCfg) (hq : c.numQueries ≠ 1) (i : Nat)
    (bs₁ bs₂ : List (List Pair × List Int)) (st₁ st₂ : RState) (s : List Pair)
    (h₁ : st₁[i]? = some s) (h₂ : st₂[i]? = some s) (hsame : queryStream bs₁ i = queryStream bs₂ i) :
    ∃ st₁' st₂' s', rRun c st₁ bs₁ = .ok st₁' ∧ rRun c st₂ bs₂ = .ok st₂' ∧ st₁'[i]? = some s' ∧ st₂'[i]? = some s' :=
  rRun_query_indep c hq i bs₁ bs₂ st₁ st₂ s h₁ h₂ hsame

open TE.Rank in
/-- **`compute()`**: with `avg=None` the vector of the single-query results, with
    `avg="macro"` their `nanmean` (a query without update contributes NaN and is skipped). -/
theorem retrieval_compute_per_query (c : RCfg) (st : RState) (g : List Pair → XQ) (hne : st ≠ [])
    (h : ∀ s ∈ st, rCompute { c with numQueries := 1, isMacro := false } [s] = .ok (.inl [g s])) :
    rCompute { c with isMacro := false } st = .ok (.inl (st.map g))
      ∧ rCompute { c with isMacro := true } st = .ok (.inr (nanmean (st.map g))) :=
  rCompute_per_query c st g hne h

open TE.Rank in
example : rCompute ⟨.precision, some 2, false, 3, .neg, true⟩ [[(1, 0), (3/4, 1)], [(1/4, 0), (1/8, 0)], []]
    = .ok (.inr (.val (1/4))) := ok_of_toOption (by decide +kernel)

/-! ## 7. windowed metrics: per-task rows of the ring buffer -/

open TE.Window in
/-- **every operation of the update-granular ring buffer commutes with a homomorphism of the
    statistics** (`update`, `merge_state`, the windowed sums `compute()` forms). -/
theorem window_ops_commute_with_hom {α β : Type} {M : Acc α} {M' : Acc β} {f : α → β} (H : AccHom M M' f)
    (N : Nat) (whole : Bool) (r : Ring α) (x : α) (srcs : List (Ring α)) (us : List α) :
    mapRing f (r.push M x) = (mapRing f r).push M' (f x)
      ∧ mapRing f (r.merge M srcs) = (mapRing f r).merge M' (srcs.map (mapRing f))
      ∧ f (r.windowed M whole) = (mapRing f r).windowed M' whole
      ∧ mapRing f (Ring.run M N us) = Ring.run M' N (us.map f) :=
  ⟨push_map H r x, merge_map H r srcs, windowed_map H whole r, run_map H N us⟩

open TE.Window in
/-- **windowed classes with `num_tasks = T`**: for every stream of per-update statistics, the
    windowed sums and the lifetime sums of task `t` are those of a single-task instance fed
    task `t`'s statistics — and what `compute()` reads for task `t` is what the single-task
    instance reads at position 0. -/
theorem windowed_task_rows (N : Nat) (whole : Bool) (t : Nat) (us : List Parts) :
    taskProj t ((Ring.run partsAcc N us).windowed partsAcc whole)
        = (Ring.run partsAcc N (us.map (taskProj t))).windowed partsAcc whole
      ∧ taskProj t (Ring.run partsAcc N us).life = (Ring.run partsAcc N (us.map (taskProj t))).life
      ∧ ∀ (p : Parts) (i T : Nat), (part p i T).getD t 0 = (part (taskProj t p) i 1).getD 0 0 := by
  have H := taskProj_hom t
  refine ⟨?_, ?_, fun p i T => part_taskProj p i T t⟩
  · rw [windowed_map H, run_map H]
  · have := run_map H N us
    rw [← this]; rfl

open TE.Window in
/-- the per-update statistics decompose too: task `t` of the click-through-rate /
    calibration statistic of a `(T, n)` batch is the statistic of row `t` alone. -/
theorem windowed_stat_task_rows (input target weight : List (List Q)) (t : Nat) (x y w : List Q)
    (hx : input[t]? = some x) (hy : target[t]? = some y) (hw : weight[t]? = some w) :
    taskProj t (ctrStat input weight) = ctrStat [x] [w]
      ∧ taskProj t (calStat input target weight) = calStat [x] [y] [w] :=
  ⟨ctrStat_task input weight t x w hx hw, calStat_task input target weight t x y w hx hy hw⟩

open TE.Window in
/-- window of 2 updates, 3 updates seen; task 0 has zero weight, task 1 clicks always. -/
example : taskProj 1 ((Ring.run partsAcc 2 [ctrStat [[1, 0], [1, 1]] [[0, 0], [1, 2]],
      ctrStat [[0, 0], [1, 1]] [[0, 0], [1, 1]], ctrStat [[1, 1], [1, 1]] [[0, 0], [2, 2]]]).windowed partsAcc false)
    = [[6], [6]] := by decide +kernel

/-! ### WindowedBinaryAUROC (sample-granular buffer): tasks are coupled by `compute()`

  FALSE for the code as it is (findings `C16|WindowedBinaryAUROC|num_tasks>1-zero-scores-beyond-cursor|unfilled-test-spans-all-tasks`,
  `C16|WindowedBinaryAUROC|num_tasks>1-single-live-sample|squeeze-mixes-tasks`):

    theorem windowed_auroc_task_rows (T N bs t) (ht : t < T) :
      ∃ vs, (SBuf.run T N bs).compute = .ok (.vec vs)
        ∧ (SBuf.run 1 N (taskStream t bs)).compute = .ok (.scalar (vs.getD t 0))

  `compute()` asks `torch.all(self.inputs[:, next_inserted:] == 0)` — "is the tail of the buffer unfilled?" —
  for all tasks at once, and `squeeze()`s a `(T, 1)` buffer into one task with T samples. -/

open TE.Window TE.Spec.Window in
/-- what does hold: with at least two live samples and a non-zero score of task `t` in every live
    sample (the guards of C13), task `t` of the multi-task instance is the single-task instance
    fed task `t`'s cells — for every stream of batches (fitting, wrapping, larger than the window). -/
theorem windowed_auroc_task_rows_partial (T N : Nat) (hN : 1 ≤ N) (hT : T ≠ 1) (t : Nat) (ht : t < T)
    (bs : List (List Col)) (hS : 2 ≤ min bs.flatten.length N)
    (hNZ : ∀ c ∈ sampleWindow N bs, (c.getD t (0, 0, 0)).1 ≠ 0) :
    ∃ vs, (SBuf.run T N bs).compute = .ok (.vec vs) ∧ vs.length = T
      ∧ (SBuf.run 1 N (taskStream t bs)).compute = .ok (.scalar (vs.getD t 0)) :=
  windowed_auroc_task T N hN hT t ht bs hS hNZ

open TE.Window TE.Spec.Window in
/-- window 3, batches of 2 + 2 samples (wraps); task 0 ties everywhere, task 1 is all-positive. -/
example : 2 ≤ min ([[[(1/2, 1, 1), (1/4, 1, 1)], [(1/2, 0, 1), (1/2, 1, 1)]],
      [[(1/2, 1, 1), (3/4, 1, 1)], [(1/2, 0, 1), (1, 1, 1)]]] : List (List Col)).flatten.length 3
    ∧ (∀ c ∈ sampleWindow 3 ([[[(1/2, 1, 1), (1/4, 1, 1)], [(1/2, 0, 1), (1/2, 1, 1)]],
      [[(1/2, 1, 1), (3/4, 1, 1)], [(1/2, 0, 1), (1, 1, 1)]]] : List (List Col)), (c.getD 0 (0, 0, 0)).1 ≠ 0)
    ∧ (SBuf.run 2 3 [[[(1/2, 1, 1), (1/4, 1, 1)], [(1/2, 0, 1), (1/2, 1, 1)]],
      [[(1/2, 1, 1), (3/4, 1, 1)], [(1/2, 0, 1), (1, 1, 1)]]]).compute = .ok (.vec [1/2, 1/2]) := by
  decide +kernel

open TE.Window in
/-- witness 1 (zero scores behind the cursor): window 4, batches of 4 + 2 samples.  Task 0's two
    old samples behind the cursor have score 0.  With task 1 holding non-zero scores there the
    whole buffer is used (task 0: 5/8); with zeros in task 1 as well the buffer is cut at the
    cursor (task 0: 1) — and that is also what the single-task instance of task 0 reports.
    Task 0's result depends on task 1's scores. -/
theorem windowed_auroc_task_rows_zero_tail_witness :
    (SBuf.run 2 4 [[[(1/2, 1, 1), (1/2, 1, 1)], [(1/2, 1, 1), (1/2, 0, 1)], [(0, 1, 1), (1/4, 1, 1)], [(0, 0, 1), (3/4, 0, 1)]],
        [[(3/4, 1, 1), (3/4, 1, 1)], [(1/4, 0, 1), (1/4, 0, 1)]]]).compute = .ok (.vec [5/8, 1/2])
      ∧ (SBuf.run 2 4 [[[(1/2, 1, 1), (1/2, 1, 1)], [(1/2, 1, 1), (1/2, 0, 1)], [(0, 1, 1), (0, 1, 1)], [(0, 0, 1), (0, 0, 1)]],
        [[(3/4, 1, 1), (3/4, 1, 1)], [(1/4, 0, 1), (1/4, 0, 1)]]]).compute = .ok (.vec [1, 1])
      ∧ (SBuf.run 1 4 [[[(1/2, 1, 1)], [(1/2, 1, 1)], [(0, 1, 1)], [(0, 0, 1)]], [[(3/4, 1, 1)], [(1/4, 0, 1)]]]).compute
          = .ok (.scalar 1) := by
  decide +kernel

open TE.Window in
/-- witness 2 (one live sample, two tasks): `squeeze()` scores the two tasks as two samples of one
    task — one number, and it moves with either task's score. -/
theorem windowed_auroc_task_rows_single_sample_witness :
    (SBuf.run 2 1 [[[(1/2, 1, 1), (1/4, 0, 1)]]]).compute = .ok (.scalar 1)
      ∧ (SBuf.run 2 1 [[[(1/8, 1, 1), (1/4, 0, 1)]]]).compute = .ok (.scalar 0) := by
  decide +kernel

/-! ## 8. count-based metrics: per-class values are one-vs-rest binary values -/

open TE.Count TE.Spec.Count in
/-- **`average=None`**: entry `c` of multiclass precision / recall / F1 is the binary
    (positive-class) precision / recall / F1 of the one-vs-rest problem of class `c`;
    **`macro`** is the plain mean of those values over the classes present in labels or
    predictions, **`weighted`** their support-weighted mean (C04's statements, re-expressed
    over the one-vs-rest slices). -/
theorem multiclass_prf_per_class (preds labs : List Nat) (C : Nat) (hlen : preds.length = labs.length)
    (hp : preds.all (· < C) = true) (hl : labs.all (· < C) = true) :
    (precisionUpdate preds labs .none C).map (precisionCompute · .none)
        = .ok ((List.range C).map fun c => XQ.val (precision ((preds.zip labs).map (ovrPair c)) 1))
      ∧ (recallUpdate preds labs .none C).map (recallCompute · .none)
        = .ok ((List.range C).map fun c => XQ.val (recall ((preds.zip labs).map (ovrPair c)) 1))
      ∧ (recallUpdate preds labs .none C).map (f1Compute · .none)
        = .ok ((List.range C).map fun c => XQ.val (f1 ((preds.zip labs).map (ovrPair c)) 1))
      ∧ (precisionUpdate preds labs .macro C).map (precisionCompute · .macro)
        = .ok [Count.meanX ((present (preds.zip labs) C).map fun c => precision ((preds.zip labs).map (ovrPair c)) 1)]
      ∧ (recallUpdate preds labs .macro C).map (recallCompute · .macro)
        = .ok [Count.meanX ((present (preds.zip labs) C).map fun c => recall ((preds.zip labs).map (ovrPair c)) 1)]
      ∧ (recallUpdate preds labs .macro C).map (f1Compute · .macro)
        = .ok [Count.meanX ((present (preds.zip labs) C).map fun c => f1 ((preds.zip labs).map (ovrPair c)) 1)] := by
  have eP : ∀ c, precision ((preds.zip labs).map (ovrPair c)) 1 = precision (preds.zip labs) c := fun c => by
    simp only [precision, tp_ovr, fp_ovr]
  have eR : ∀ c, recall ((preds.zip labs).map (ovrPair c)) 1 = recall (preds.zip labs) c := fun c => by
    simp only [recall, tp_ovr, support_ovr]
  have eF : ∀ c, f1 ((preds.zip labs).map (ovrPair c)) 1 = f1 (preds.zip labs) c := fun c => by
    simp only [f1, tp_ovr, fp_ovr, fn_ovr]
  simp only [eP, eR, eF]
  exact ⟨(C04.precision_pipeline preds labs C hlen hp hl).1, (C04.recall_pipeline preds labs C hlen hp hl).1,
    (C04.f1_pipeline preds labs C hlen hp hl).1, (C04.precision_pipeline preds labs C hlen hp hl).2.1,
    (C04.recall_pipeline preds labs C hlen hp hl).2.1, (C04.f1_pipeline preds labs C hlen hp hl).2.1⟩

open TE.Count in
/-- class 0 predicted and labelled, class 1 never predicted, class 2 absent from both sides. -/
example : (recallUpdate [0, 0, 0, 0] [0, 1, 0, 1] .none 3).map (recallCompute · .none)
    = .ok [.val 1, .val 0, .val 0] := ok_of_toOption (by decide +kernel)

/-! ## 9. binned metrics -/

open TE.Binned TE.Spec.Binned in
/-- **multiclass binned counts (`vectorized`)**: column `c` of the `(T, C)` count matrices is
    the binary binned `_update` of the one-vs-rest problem of class `c` (composition of
    C06's `multiclass_vectorized_counts_eq` and `binned_counts_eq`). -/
theorem binned_multiclass_class_eq_binary (t : List Q) (C : Nat) (rows : List (List Q)) (labs : List Nat)
    (hs : t.Pairwise (· ≤ ·)) (hne : t ≠ []) (hlen : rows.length = labs.length) (hl : ∀ l ∈ labs, l < C)
    (c : Nat) (hc : c < C) :
    ∃ M B, mcVectorized t C rows labs = .ok M
      ∧ binaryUpdate t (rows.map fun r => r.getD c 0) (labs.map fun l => if l = c then 1 else 0) = .ok B
      ∧ M.1.map (·.getD c 0) = B.1 ∧ M.2.1.map (·.getD c 0) = B.2.1 ∧ M.2.2.map (·.getD c 0) = B.2.2 := by
  have hz : (rows.map fun r => r.getD c 0).zip (labs.map fun l => if l = c then 1 else 0) = ovr rows labs c := by
    simp [ovr, List.zip_map]
  have hb := C06.binned_counts_eq t (rows.map fun r => r.getD c 0) (labs.map fun l => if l = c then 1 else 0)
    hs hne (by simp [hlen]) (by intro y hy; obtain ⟨l, _, rfl⟩ := List.mem_map.mp hy; split <;> omega)
  rw [hz] at hb
  refine ⟨_, _, C06.multiclass_vectorized_counts_eq t C rows labs hlen hl, hb, ?_, ?_, ?_⟩ <;>
  · simp only [countMats, List.map_map]
    apply List.map_congr_left
    intro u _
    simp [List.getD, List.getElem?_map, List.getElem?_range hc]

open TE.Binned in
/-- `binary_binned_auroc(num_tasks)` broadcasts `input >= threshold[:, None, None]` and sums over
    the last dimension: per task by definition of `sum(dim=-1)`; the model is a `map` (`rfl`). -/
theorem binned_auroc_tasks_is_map (t : List Q) (tasks : List (List Q × List Q)) :
    binaryBinnedAuroc t tasks = tasks.map fun p => binnedAurocRow t p.1 p.2 := rfl

open TE.Binned in
example : binaryBinnedAuroc [0, 1/2, 1] [([1/2, 1/2, 1/2], [1, 0, 1]), ([1/4, 1/2, 3/4], [1, 1, 1]),
    ([1/4, 3/4, 1/2], [0, 1, 0])] = [1/2, 1/2, 3/4] := by decide +kernel

/- FALSE for the code as it is (recorded finding `C06|multiclass_binned_auroc|per-sample-output`,
   reported by `./check C16` as `C16|multiclass_binned_auroc|per-sample-output`):

     theorem multiclass_binned_auroc_per_class (t C rows labs) :
       mcBinnedAuroc t C rows labs = (List.range C).map fun c =>
         binnedAurocRow t (rows.map (colAt · c)) (labs.map fun l => b2q (l == c))

   `_multiclass_binned_auroc_compute` sums `pred_label` of shape (T, n, C) over `dim=-1`, i.e. over
   the classes: the slices it decomposes into are the *samples*. -/

open TE.Binned in
/-- what does hold: the code's result decomposes per **sample** (each sample's class scores
    against its one-hot label) — one entry per sample, not per class. -/
theorem multiclass_binned_auroc_per_class_partial (t : List Q) (C : Nat) (rows : List (List Q)) (labs : List Nat) :
    mcBinnedAuroc t C rows labs = (rows.zip labs).map fun p => binnedAurocRow t p.1 (oneHot C p.2) := rfl

open TE.Binned in
/-- witness: 4 samples, 3 classes — the code's output has 4 entries and is not the vector of
    the 3 per-class one-vs-rest binned AUROCs. -/
theorem multiclass_binned_auroc_per_class_witness :
    mcBinnedAuroc [0, 1/4, 1/2, 3/4, 1] 3 [[1/4, 1/2, 1/4], [0, 1/4, 3/4], [3/4, 1/4, 0], [1/4, 1/2, 1/4]] [1, 2, 0, 0]
      ≠ mcBinnedAurocIntended [0, 1/4, 1/2, 3/4, 1] 3 [[1/4, 1/2, 1/4], [0, 1/4, 3/4], [3/4, 1/4, 0], [1/4, 1/2, 1/4]] [1, 2, 0, 0] := by
  decide +kernel

end TE.C16
