/-
  C10 — reset() returns a metric to the behaviour of a freshly constructed one.
  Registered part: whatever the history, the state after `reset` is `init`, so
  every continuation evaluates exactly as from a fresh instance.
  Unregistered part: decided over the regenerated table of class attributes
  (TE/Gen/States.lean, see TE/Props/C09.lean for the checker and its soundness).
-/
import TE.Lemmas.ClassSM
import TE.Props.C09
namespace TE.C10
open TE

variable {B S O : Type}

/-- graft a continuation (a history starting at `fresh`) onto a base history. -/
def graft (base : Hist B) : Hist B → Hist B
  | .fresh => base
  | .update h b => .update (graft base h) b
  | .merge h hs => .merge (graft base h) hs
  | .reset h => .reset (graft base h)

/-- evaluation only looks at the state the base history produced. -/
theorem eval_graft (m : Impl B S O) (base₁ base₂ : Hist B)
    (hb : eval m base₁ = eval m base₂) :
    ∀ k : Hist B, eval m (graft base₁ k) = eval m (graft base₂ k)
  | .fresh => by simpa [graft] using hb
  | .update h b => by simp only [graft, eval]; rw [eval_graft m base₁ base₂ hb h]
  | .merge h hs => by simp only [graft, eval]; rw [eval_graft m base₁ base₂ hb h]
  | .reset h => by simp only [graft, eval]; rw [eval_graft m base₁ base₂ hb h]

/-- **C10**: after `reset`, every continuation (updates, merges, further resets)
    reaches the same state — hence the same `compute()` value or error — as on a
    freshly constructed instance, whatever happened before the reset. -/
theorem reset_then_eq_fresh (m : Impl B S O) (h : Hist B) (s₀ : S) (hh : eval m h = .ok s₀)
    (k : Hist B) : eval m (graft (.reset h) k) = eval m (graft .fresh k) := by
  apply eval_graft
  simp [eval, hh, bind, Except.bind]

theorem reset_then_out_eq_fresh (m : Impl B S O) (h : Hist B) (s₀ : S) (hh : eval m h = .ok s₀)
    (k : Hist B) : (eval m (graft (.reset h) k) >>= m.out) = (eval m (graft .fresh k) >>= m.out) := by
  rw [reset_then_eq_fresh m h s₀ hh k]

/-- object level: if `reset()` puts the registered part back to the default and its
    override re-initialises the unregistered part, the reset object *is* a fresh one,
    so every continuation produces the same outputs. -/
theorem reset_obj_eq_fresh {R U Op Out : Type} (sem : ObjSem R U Op Out) (fresh : Obj R U)
    (resetU : U → U) (hU : ∀ u, resetU u = fresh.unreg) (o : Obj R U) (cont : List Op) :
    sem.outputs (resetObj fresh.reg resetU o) cont = sem.outputs fresh cont := by
  have : resetObj fresh.reg resetU o = fresh := by
    cases fresh; simp [resetObj] at hU ⊢; exact hU o.unreg
  rw [this]

/-- generated obligation (translator: harness/translators/states.py): in every
    class, each plain attribute written after construction is re-initialised by
    the class's `reset()` override — the premise `hU` above. -/
theorem reset_restores_unregistered : Gen.classAttrs.all C09.resetSafe = true :=
  C09.resetSafe_table

/-- non-vacuity -/
example : graft (Hist.reset (Hist.update .fresh 3)) (Hist.update .fresh (5 : Nat)) =
    Hist.update (Hist.reset (Hist.update .fresh 3)) 5 := rfl

end TE.C10
