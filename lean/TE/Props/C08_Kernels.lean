/-
  C08, tied to the SOURCE of the ranking kernels: for every kernel that harness/translators/kernels.py translates
  from /repo's working tree (TE/Gen/KernelsRank.lean, regenerated on every run of ./check C08), evaluating the
  GENERATED term on well-shaped arguments gives exactly the hand-written model of TE/Model/Rank.lean — for all
  lengths and all rational values.  A change of a kernel changes its generated term and breaks its theorem here; the
  runner then searches for a failing input.

  ONLY property theorems and non-vacuity examples; helper lemmas are in TE/Lemmas/Kernels.lean and
  TE/Lemmas/KernelsAgg.lean.
-/
import TE.Model.TExpr
import TE.Model.Rank
import TE.Gen.KernelsRank
import TE.Lemmas.Kernels
import TE.Lemmas.KernelsAgg
namespace TE.C08K
open TE TE.TX TE.TXL TE.CountL
set_option linter.unusedSimpArgs false

/-! ## 0. coverage -/

theorem kernels_listed :
    Gen.Rank.kernels.map (·.name) =
      ["click_through_rate_update", "click_through_rate_compute", "weighted_calibration_update",
       "weighted_calibration_compute", "hit_rate", "reciprocal_rank", "frequency_at_k", "num_collisions"] := by
  kernel_proof "kernels_listed: the kernel table of C08 changed" => decide

/-- every kernel of the table is inside the grammar, none partially. -/
theorem kernels_coverage :
    Gen.Rank.kernels.filterMap (fun k => k.reason?.map fun r => (k.name, r)) = [] ∧ Gen.Rank.partials = [] := by
  kernel_proof "kernels_coverage: a kernel of C08 left the translator's grammar" => decide

def pairQ (p : Q × Q) : Val := .pair (scalarQ p.1) (scalarQ p.2)

/-! ## 1. click-through rate -/

/-- `_click_through_rate_update`, one task, tensor weights = `ctrUpdate`. -/
theorem k_click_through_rate_update_tensor (xs ws : List Q) (nt : Int) (h : xs.length = ws.length) :
    TX.eval [("input", vecQ xs), ("weights", vecQ ws), ("num_tasks", .int nt)] Gen.Rank.k_click_through_rate_update
      = .ok (pairQ (Rank.ctrUpdate xs ws)) := by
  obtain ⟨R, rfl, rfl⟩ := exists_rows2 xs ws h
  kernel_proof "k_click_through_rate_update_tensor: the generated term of _click_through_rate_update no longer evaluates to the model ctrUpdate" =>
    unfold Gen.Rank.k_click_through_rate_update
    tx_eval2 [Rank.ctrUpdate, pairQ, List.zip_map']

/-- … with a Python number as weight = `ctrUpdateScalar`. -/
theorem k_click_through_rate_update_scalar (xs : List Q) (w : Q) (nt : Int) :
    TX.eval [("input", vecQ xs), ("weights", .num w), ("num_tasks", .int nt)] Gen.Rank.k_click_through_rate_update
      = .ok (pairQ (Rank.ctrUpdateScalar xs w)) := by
  kernel_proof "k_click_through_rate_update_scalar: the generated term of _click_through_rate_update no longer evaluates to the model ctrUpdateScalar" =>
    unfold Gen.Rank.k_click_through_rate_update
    tx_eval2 [Rank.ctrUpdateScalar, pairQ]
    try simp only [Rat.mul_one]
    try simp only [Rat.mul_comm]

/-- several tasks (2-d input, tensor weights of the same shape): every row on its own. -/
theorem k_click_through_rate_update_tasks (X W : List (List Q)) (nt : Int) (h : SameShape X W) :
    TX.eval [("input", matQ X), ("weights", matQ W), ("num_tasks", .int nt)] Gen.Rank.k_click_through_rate_update
      = .ok (.pair (vecQ ((X.zip W).map fun p => (Rank.ctrUpdate p.1 p.2).1))
          (vecQ ((X.zip W).map fun p => (Rank.ctrUpdate p.1 p.2).2))) := by
  obtain ⟨R, rfl, rfl⟩ := exists_cells X W h.1 h.2
  kernel_proof "k_click_through_rate_update_tasks: the generated term of _click_through_rate_update no longer evaluates to the model ctrUpdate per task" =>
    unfold Gen.Rank.k_click_through_rate_update
    tx_eval2 [bzipM_rows_map, Rank.ctrUpdate, List.zip_map']

/-- several tasks, one Python number as weight (rows of width `d`, at least one task). -/
theorem k_click_through_rate_update_tasks_scalar (X : List (List Q)) (w : Q) (nt : Int) (d : Nat)
    (hd : ∀ r ∈ X, r.length = d) (hne : X ≠ []) :
    TX.eval [("input", matQ X), ("weights", .num w), ("num_tasks", .int nt)] Gen.Rank.k_click_through_rate_update
      = .ok (.pair (vecQ (X.map fun r => (Rank.ctrUpdateScalar r w).1))
          (vecQ (X.map fun r => (Rank.ctrUpdateScalar r w).2))) := by
  have hhead : (((X.map fun r => r.map XQ.val).headD []).length : Int) = (d : Int) := by
    cases X with
    | nil => exact absurd rfl hne
    | cons r X => have := hd r (by simp); simp [this]
  kernel_proof "k_click_through_rate_update_tasks_scalar: the generated term of _click_through_rate_update no longer evaluates to the model ctrUpdateScalar per task" =>
    unfold Gen.Rank.k_click_through_rate_update
    tx_eval2 [Rank.ctrUpdateScalar, hhead]
    have : (X.map fun x => XQ.val ((d : Q) * w * 1)) = X.map fun x => XQ.val ((x.length : Q) * w) := by
      apply List.map_congr_left; intro r hr; rw [hd r hr, Rat.mul_one]
    rw [this]
    try simp only [Rat.mul_comm]

/-- `_click_through_rate_compute` = `ctrCompute`; `eps = torch.finfo(dtype).tiny` is a parameter of the generated term
    (`finfo.tiny`: storage dtypes are not modelled), as it is a parameter of the model. -/
theorem k_click_through_rate_compute_eq (c w eps : Q) :
    TX.eval [("click_total", scalarQ c), ("weight_total", scalarQ w), ("finfo.tiny", .num eps)]
        Gen.Rank.k_click_through_rate_compute
      = .ok (.scalar (Rank.ctrCompute eps c w)) := by
  kernel_proof "k_click_through_rate_compute_eq: the generated term of _click_through_rate_compute no longer evaluates to the model ctrCompute" =>
    unfold Gen.Rank.k_click_through_rate_compute
    tx_eval2 [Rank.ctrCompute]

/-! ## 2. weighted calibration -/

theorem k_weighted_calibration_update_tensor (xs ts ws : List Q) (nt : Int) (h : xs.length = ts.length)
    (hw : ts.length = ws.length) :
    TX.eval [("input", vecQ xs), ("target", vecQ ts), ("weight", vecQ ws), ("num_tasks", .int nt)]
        Gen.Rank.k_weighted_calibration_update
      = .ok (pairQ (Rank.wcUpdate xs ts ws)) := by
  obtain ⟨R, rfl, rfl, rfl⟩ := exists_rows3 xs ts ws h hw
  kernel_proof "k_weighted_calibration_update_tensor: the generated term of _weighted_calibration_update no longer evaluates to the model wcUpdate" =>
    unfold Gen.Rank.k_weighted_calibration_update
    tx_eval2 [Rank.wcUpdate, pairQ, List.zip_map']
    try simp only [Rat.mul_comm]

theorem k_weighted_calibration_update_scalar (xs ts : List Q) (w : Q) (nt : Int) :
    TX.eval [("input", vecQ xs), ("target", vecQ ts), ("weight", .num w), ("num_tasks", .int nt)]
        Gen.Rank.k_weighted_calibration_update
      = .ok (pairQ (Rank.wcUpdateScalar xs ts w)) := by
  kernel_proof "k_weighted_calibration_update_scalar: the generated term of _weighted_calibration_update no longer evaluates to the model wcUpdateScalar" =>
    unfold Gen.Rank.k_weighted_calibration_update
    tx_eval2 [Rank.wcUpdateScalar, pairQ]
    try simp only [Rat.mul_comm]

/-- several tasks (2-d input, target and weight of one shape): every row on its own. -/
theorem k_weighted_calibration_update_tasks (X T W : List (List Q)) (nt : Int) (h1 : SameShape X T) (h2 : SameShape T W) :
    TX.eval [("input", matQ X), ("target", matQ T), ("weight", matQ W), ("num_tasks", .int nt)]
        Gen.Rank.k_weighted_calibration_update
      = .ok (.pair (vecQ ((X.zip (T.zip W)).map fun p => (Rank.wcUpdate p.1 p.2.1 p.2.2).1))
          (vecQ ((X.zip (T.zip W)).map fun p => (Rank.wcUpdate p.1 p.2.1 p.2.2).2))) := by
  obtain ⟨R, rfl, rfl, rfl⟩ := exists_cells3 X T W h1 h2
  have hh : ((R.map fun x => x.map fun x => XQ.val x.1).headD []).length
      = ((R.map fun x => x.map fun x => XQ.val x.2.2).headD []).length := by
    cases R <;> simp
  kernel_proof "k_weighted_calibration_update_tasks: the generated term of _weighted_calibration_update no longer evaluates to the model wcUpdate per task" =>
    unfold Gen.Rank.k_weighted_calibration_update
    tx_eval2 [bzipM_rows_map, Rank.wcUpdate, List.zip_map', hh]
    try simp only [Rat.mul_comm]

example : SameShape ([[1, 2], [3, 4]] : List (List Q)) ([[0, 1], [1, 1]] : List (List Q)) := by
  refine ⟨rfl, ?_⟩; decide

/-- a tensor weight of another size: the `ValueError` of the kernel. -/
theorem k_weighted_calibration_update_mismatch (xs ts ws : List Q) (nt : Int) (h : xs.length ≠ ws.length) :
    TX.eval [("input", vecQ xs), ("target", vecQ ts), ("weight", vecQ ws), ("num_tasks", .int nt)]
        Gen.Rank.k_weighted_calibration_update
      = .error .value := by
  kernel_proof "k_weighted_calibration_update_mismatch: the generated term of _weighted_calibration_update no longer rejects a weight of another size" =>
    unfold Gen.Rank.k_weighted_calibration_update
    tx_eval2 [h]

/-- `_weighted_calibration_compute` (the functional): torch division of the two sums of `wcUpdate`. -/
theorem k_weighted_calibration_compute_tensor (xs ts ws : List Q) (nt : Int) (h : xs.length = ts.length)
    (hw : ts.length = ws.length) :
    TX.eval [("input", vecQ xs), ("target", vecQ ts), ("weight", vecQ ws), ("num_tasks", .int nt)]
        Gen.Rank.k_weighted_calibration_compute
      = .ok (.scalar (xdiv (Rank.wcUpdate xs ts ws).1 (Rank.wcUpdate xs ts ws).2)) := by
  obtain ⟨R, rfl, rfl, rfl⟩ := exists_rows3 xs ts ws h hw
  kernel_proof "k_weighted_calibration_compute_tensor: the generated term of _weighted_calibration_compute no longer evaluates to the ratio of the model wcUpdate" =>
    unfold Gen.Rank.k_weighted_calibration_compute
    tx_eval2 [Rank.wcUpdate, List.zip_map']
    try simp only [Rat.mul_comm]

theorem k_weighted_calibration_compute_scalar (xs ts : List Q) (w : Q) (nt : Int) :
    TX.eval [("input", vecQ xs), ("target", vecQ ts), ("weight", .num w), ("num_tasks", .int nt)]
        Gen.Rank.k_weighted_calibration_compute
      = .ok (.scalar (xdiv (Rank.wcUpdateScalar xs ts w).1 (Rank.wcUpdateScalar xs ts w).2)) := by
  kernel_proof "k_weighted_calibration_compute_scalar: the generated term of _weighted_calibration_compute no longer evaluates to the ratio of the model wcUpdateScalar" =>
    unfold Gen.Rank.k_weighted_calibration_compute
    tx_eval2 [Rank.wcUpdateScalar]
    try simp only [Rat.mul_comm]

/-! ## 3. frequency -/

/-- `frequency_at_k` = `frequencyAtK` (the `k < 0` check belongs to the input check, C18). -/
theorem k_frequency_at_k_eq (xs : List Q) (k : Q) (hk : ¬ k < 0) :
    TX.eval [("input", vecQ xs), ("k", .num k)] Gen.Rank.k_frequency_at_k = (Rank.frequencyAtK xs k).map vecQ := by
  kernel_proof "k_frequency_at_k_eq: the generated term of frequency_at_k no longer evaluates to the model frequencyAtK" =>
    unfold Gen.Rank.k_frequency_at_k
    tx_eval2 [Rank.frequencyAtK, hk, qcmp_lt]

example : ¬ ((2 : Q) < 0) := by decide +kernel

/-! ## 4. hit rate / reciprocal rank -/

/-- `hit_rate` with `k`: gather the target's score, count the strictly greater scores of the row, compare with `k`
    (and the `k ≥ C` shortcut) = `hitRate`; every target must address a column of its row (`torch.gather` raises
    otherwise), `k ≤ 0` is rejected by the input check (C18). -/
theorem k_hit_rate_k (rows : List (List Q)) (labs : List Nat) (C : Nat) (k : Int)
    (hlen : rows.length = labs.length) (hC : ∀ r ∈ rows, r.length = C) (hne : rows ≠ [])
    (hin : ∀ p ∈ rows.zip labs, p.2 < p.1.length) (hk : 0 < k) :
    TX.eval [("input", matQ rows), ("target", vecN labs), ("k", .int k)] Gen.Rank.k_hit_rate
      = (Rank.hitRate rows C (labs.map fun (l : Nat) => (l : Int)) (some k)).map vecQ := by
  obtain ⟨R, rfl, rfl⟩ := exists_rows2 rows labs hlen
  have hin' : ∀ r ∈ R, r.2 < r.1.length := fun r hr => hin r (by simpa [List.zip_map'] using hr)
  have hhead : (((R.map fun r => r.1.map XQ.val).headD []).length : Int) = (C : Int) := by
    cases R with
    | nil => exact absurd rfl hne
    | cons r R => have := hC r.1 (by simp); simp [this]
  have hk' : ¬ k ≤ 0 := by omega
  kernel_proof "k_hit_rate_k: the generated term of hit_rate no longer evaluates to the model hitRate" =>
    unfold Gen.Rank.k_hit_rate
    tx_eval2 [gatherLastV_rows R (·.1) (·.2) hin', bzipM_rows_single, qcmp_gt, qsum_b2q, hhead, qcmp_ge_le, qcmp_lt, Rank.hitRate,
      hk', ranks_ok R hin', natCast_le_intCast, natCast_lt_intCast, Rank.rankRow]
    split <;> simp [Except.map, vecQ]

/-- `k=None`: ones, without looking at the scores. -/
theorem k_hit_rate_none (rows : List (List Q)) (labs : List Nat) (C : Nat) :
    TX.eval [("input", matQ rows), ("target", vecN labs), ("k", .none)] Gen.Rank.k_hit_rate
      = (Rank.hitRate rows C (labs.map fun (l : Nat) => (l : Int)) none).map vecQ := by
  kernel_proof "k_hit_rate_none: the generated term of hit_rate no longer evaluates to the model hitRate (k=None)" =>
    unfold Gen.Rank.k_hit_rate
    tx_eval2 [Rank.hitRate]

/-- `reciprocal_rank` with `k`: `1/(rank+1)`, zeroed where `rank ≥ k` = `reciprocalRank`. -/
theorem k_reciprocal_rank_k (rows : List (List Q)) (labs : List Nat) (k : Int)
    (hlen : rows.length = labs.length) (hin : ∀ p ∈ rows.zip labs, p.2 < p.1.length) :
    TX.eval [("input", matQ rows), ("target", vecN labs), ("k", .int k)] Gen.Rank.k_reciprocal_rank
      = (Rank.reciprocalRank rows (labs.map fun (l : Nat) => (l : Int)) (some k)).map vecQ := by
  obtain ⟨R, rfl, rfl⟩ := exists_rows2 rows labs hlen
  have hin' : ∀ r ∈ R, r.2 < r.1.length := fun r hr => hin r (by simpa [List.zip_map'] using hr)
  kernel_proof "k_reciprocal_rank_k: the generated term of reciprocal_rank no longer evaluates to the model reciprocalRank" =>
    unfold Gen.Rank.k_reciprocal_rank
    tx_eval2 [gatherLastV_rows R (·.1) (·.2) hin', bzipM_rows_single, qcmp_gt, qsum_b2q, qcmp_ge_le, qcmp_lt, Rank.reciprocalRank,
      ranks_ok R hin', natCast_le_intCast, natCast_lt_intCast, Rank.rankRow, maskedFillV]
    congr 2
    apply List.map_congr_left
    intro a _
    exact rr_pointwise k _

/-- `k=None`: `1/(rank+1)`. -/
theorem k_reciprocal_rank_none (rows : List (List Q)) (labs : List Nat)
    (hlen : rows.length = labs.length) (hin : ∀ p ∈ rows.zip labs, p.2 < p.1.length) :
    TX.eval [("input", matQ rows), ("target", vecN labs), ("k", .none)] Gen.Rank.k_reciprocal_rank
      = (Rank.reciprocalRank rows (labs.map fun (l : Nat) => (l : Int)) none).map vecQ := by
  obtain ⟨R, rfl, rfl⟩ := exists_rows2 rows labs hlen
  have hin' : ∀ r ∈ R, r.2 < r.1.length := fun r hr => hin r (by simpa [List.zip_map'] using hr)
  kernel_proof "k_reciprocal_rank_none: the generated term of reciprocal_rank no longer evaluates to the model reciprocalRank (k=None)" =>
    unfold Gen.Rank.k_reciprocal_rank
    tx_eval2 [gatherLastV_rows R (·.1) (·.2) hin', bzipM_rows_single, qcmp_gt, qsum_b2q, Rank.reciprocalRank,
      ranks_ok R hin', Rank.rankRow, rr_none]

example : ([[1, 2, 3], [3, 2, 1]] : List (List Q)).length = ([0, 2] : List Nat).length ∧
    (∀ r ∈ ([[1, 2, 3], [3, 2, 1]] : List (List Q)), r.length = 3) ∧
    (∀ p ∈ ([[1, 2, 3], [3, 2, 1]] : List (List Q)).zip ([0, 2] : List Nat), p.2 < p.1.length) := by decide

/-! ## 5. collisions -/

/-- `num_collisions`: compare every id with every id (`repeat_interleave` of the row against the column), subtract
    the self-match = `numCollisions`. -/
theorem k_num_collisions_eq (ids : List Int) :
    TX.eval [("input", vecQ (ids.map fun (i : Int) => (i : Q)))] Gen.Rank.k_num_collisions
      = .ok (vecQ ((Rank.numCollisions ids).map fun (i : Int) => (i : Q))) := by
  kernel_proof "k_num_collisions_eq: the generated term of num_collisions no longer evaluates to the model numCollisions" =>
    unfold Gen.Rank.k_num_collisions
    tx_eval2 [repeatRowsV_single, Rank.numCollisions, bzipM_replicate_single, qcmp_eq, qsum_b2q, flatten_singletons, intCast_beq,
      Rat.intCast_sub, Rat.intCast_natCast]
    simp only [List.map_cons, List.map_nil, xarith_sub_val, flatten_singletons]

end TE.C08K
