/-
  C01 / C03, tied to the SOURCE of every class: "merging shards gives the state and the result of a single
  instance fed the same batches" for the class plumbing that harness/translators/plumbing.py reads off the
  bodies of update() / merge_state() / compute() on every run (TE/Gen/Plumbing.lean).

  * `C01_plumb_merge_eq_single` is proved once, for EVERY well-formed plumbing row (`TE.Plumb.WF`, decidable),
    every carrier satisfying `TE.Plumb.Ops` (exact tensors with + / max / min; `torch.cat` with its
    associativity along one dimension; the shape tests of the adoption branch; row-wise accumulation), every
    rest-of-compute `g`, and every history of update / merge_state (any list of sources, each with its own
    history) / reset — no bound on anything.  Its two hypotheses on the history are vacuous for the rows of the
    basic normal form (`C01_plumb_basic_merge_eq_single`):
      - a row with an ADOPTION branch (MeanSquaredError, R2Score: a 0-dim zero state adopts the first 1-dim
        summand) needs the live batches to be shape-coherent (`Coh`: one `n_output` per stream) — then the
        adopting update / merge IS `+` on the carrier (`C01_plumb_adopt_update_is_add`, `…_merge_is_add`);
      - a row with a DERIVED state (PeakSignalNoiseRatio, auto-range: `data_range = max_target - min_target`)
        needs at least one live batch: `merge_state([])` on a fresh object recomputes the derived state from the
        neutral elements (-inf - inf) while a fresh object holds the registered default
        (`C01_plumb_derived_fresh_witness`); with a batch the derived state is a function of the live batches
        (`C01_plumb_derived_state`).
  * `C01_plumb_generated_wf` decides that every row generated from the current tree is well-formed, and
    `C01_plumb_coverage` pins the set of classes outside the translator's normal form (those are covered by the
    hand-written models of TE/Model and the correspondence runs only).  A change to a merge_state / update /
    compute body that drops a state from the merge, reads another state of the source, uses another operator
    than update, concatenates along another dimension than compute, drops the non-empty guard, drops the adoption
    branch from one of the two methods, stops recomputing a derived state, loops over fewer rows than the state
    has, … changes the generated row and breaks one of the two; the runner then searches for a failing input.
  * `Throughput` is in the normal form but NOT well-formed by design: update() adds `elapsed_time_sec`,
    merge_state() takes the max over ranks (documented); C01 covers it through TE.Props.C01's own theorem.
-/
import TE.Lemmas.Plumb
import TE.Lemmas.PlumbDemo
import TE.Gen.Plumbing
namespace TE.C01
open TE TE.Plumb TE.Plumb.Demo TE.Agg TE.AggL

/-- **merge = single, for every well-formed plumbing row.** -/
theorem C01_plumb_merge_eq_single {A C R : Type} (O : Ops A C) (P : ClassPlumb) (g : View A C → Except Err R)
    (hwf : WF P = true) (h : Hist (Contrib A C)) (s s' : St A C)
    (he : eval (plumbImpl O P g) h = .ok s)
    (hs : eval (plumbImpl O P g) (single (flatten h)) = .ok s')
    (hc : hasAdopt P.fields = true → Coh O (flatten h))
    (hd : hasDer P.fields = true → flatten h ≠ []) :
    view O P.fields s = view O P.fields s' ∧ (plumbImpl O P g).out s = (plumbImpl O P g).out s' := by
  have hall : P.fields.all (wfField P.fields) = true := by
    simp only [WF, Bool.and_eq_true] at hwf; exact hwf.2
  have r := plumb_refines O P g hwf h s he hc
  have r' := plumb_refines O P g hwf (single (flatten h)) s' hs (by rw [flatten_single]; exact hc)
  rw [flatten_single] at r'
  have hv := rel_view O P.fields hall s s' _ r r' hd
  exact ⟨hv, by simp only [plumbImpl, hv]⟩

/-- the rows of the basic normal form (no adoption branch, no derived state) need no hypothesis on the history. -/
theorem C01_plumb_basic_merge_eq_single {A C R : Type} (O : Ops A C) (P : ClassPlumb) (g : View A C → Except Err R)
    (hwf : WF P = true) (hb : Basic P = true) (h : Hist (Contrib A C)) (s s' : St A C)
    (he : eval (plumbImpl O P g) h = .ok s)
    (hs : eval (plumbImpl O P g) (single (flatten h)) = .ok s') :
    view O P.fields s = view O P.fields s' ∧ (plumbImpl O P g).out s = (plumbImpl O P g).out s' := by
  simp only [Basic, Bool.and_eq_true, Bool.not_eq_true'] at hb
  exact C01_plumb_merge_eq_single O P g hwf h s s' he hs (by simp [hb.1]) (by simp [hb.2])

/-- the hypotheses of the theorem above are always met: histories of a plumbing row never fail
    (validation failures happen before any mutation and are C14's subject). -/
theorem C01_plumb_total {A C R : Type} (O : Ops A C) (P : ClassPlumb) (g : View A C → Except Err R)
    (h : Hist (Contrib A C)) : ∃ s, eval (plumbImpl O P g) h = .ok s := plumb_total O P g h

/-- the accumulated states of every reachable object are the fold of the contributions of the live batches, the
    list states concatenate (along the class's dimension) to the concatenation of the live chunks. -/
theorem C01_plumb_state {A C R : Type} (O : Ops A C) (P : ClassPlumb) (g : View A C → Except Err R)
    (hwf : WF P = true) (h : Hist (Contrib A C)) (s : St A C) (he : eval (plumbImpl O P g) h = .ok s)
    (hc : hasAdopt P.fields = true → Coh O (flatten h)) :
    (∀ f u m src, numOf P.fields f = some (u, m, src) →
        s.num f = (flatten h).foldl (fun a b => O.op u a (b.num f)) (O.unit u)) ∧
    (∀ f, isLst P.fields f = true →
        O.cat (dimOf P.fields f) (s.lst f) = O.cat (dimOf P.fields f) ((flatten h).map (·.lst f)) ∧
        (s.lst f = [] ↔ flatten h = [])) := by
  have r := plumb_refines O P g hwf h s he hc
  refine ⟨fun f u m src hf => ?_, fun f hf => ?_⟩
  · have := r.1.1 f (effDer_of_num (by simp [isNum, hf]))
    simpa only [canon, hf] using this
  · have := r.1.2 f
    obtain ⟨x, hx⟩ := Option.isSome_iff_exists.mp hf
    simp only [canon, hx] at this
    exact ⟨this.cat_eq, rel_lst_empty O P.fields s _ r.1 f hf⟩

/-- **a derived state is a function of the live batches, for every history with a live batch**:
    `data_range` is `max − min` of the folds of the batches' extremes, whatever the order of updates and merges
    (a merge_state that leaves `min_target` / `max_target` stale — seeded change C01-e — has no well-formed row). -/
theorem C01_plumb_derived_state {A C R : Type} (O : Ops A C) (P : ClassPlumb) (g : View A C → Except Err R)
    (hwf : WF P = true) (h : Hist (Contrib A C)) (s : St A C) (he : eval (plumbImpl O P g) h = .ok s)
    (hc : hasAdopt P.fields = true → Coh O (flatten h)) (hne : flatten h ≠ [])
    (d a b : String) (iu im ae : Bool) (hd : effDer P.fields d = some (a, b, iu, im, ae))
    (ua ma ub mb : NOp) (sa sb : String)
    (ha : numOf P.fields a = some (ua, ma, sa)) (hb : numOf P.fields b = some (ub, mb, sb)) :
    s.num d = O.sub ((flatten h).foldl (fun x c => O.op ua x (c.num a)) (O.unit ua))
                    ((flatten h).foldl (fun x c => O.op ub x (c.num b)) (O.unit ub)) := by
  have r := plumb_refines O P g hwf h s he hc
  have st := (C01_plumb_state O P g hwf h s he hc).1
  rw [r.2 d a b iu im ae hd hne, st a ua ma sa ha, st b ub mb sb hb]

/-- **the adopting update is `+`**: on an object that represents shape-coherent batches, update() with the
    scalar→vector adoption branch computes exactly `state + summand` for every accumulated state. -/
theorem C01_plumb_adopt_update_is_add {A C : Type} (O : Ops A C) (fs : List FieldPlumb)
    (hwf : fs.all (wfField fs) = true) (s : St A C) (l : List (Contrib A C)) (b : Contrib A C)
    (h : Rel O fs s l) (hc : Coh O (l ++ [b])) (f : String) (u m : NOp) (src : String)
    (hf : numOf fs f = some (u, m, src)) :
    updNum O fs s b f = O.op u (s.num f) (b.num f) := by
  rw [updNum_eq O fs hwf s l b h.1 (fun _ => hc) f, hf]

/-- **the adopting merge is `+`** (the repo's fix 44b073f gave merge_state the branch update had). -/
theorem C01_plumb_adopt_merge_is_add {A C : Type} (O : Ops A C) (fs : List FieldPlumb)
    (hwf : fs.all (wfField fs) = true) (s t : St A C) (l lt : List (Contrib A C))
    (h : Rel O fs s l) (ht : Rel O fs t lt) (hc : Coh O (l ++ lt)) (f : String) (u m : NOp) (src : String)
    (hf : numOf fs f = some (u, m, src)) :
    mrgNum O fs s t f = O.op m (s.num f) (t.num src) := by
  rw [mrgNum_eq O fs hwf s t l lt h.1 ht.1 (fun _ => hc) f, hf]

/-- classes whose merge deliberately differs from their update (documented semantics). -/
def designedExceptions : List String := ["Throughput"]

/-- **every row generated from the current source tree is well-formed.** -/
theorem C01_plumb_generated_wf :
    ∀ P ∈ Gen.classPlumb, P.unsupported = none → P.name ∉ designedExceptions → WF P = true := by
  decide +kernel

/-- the classes outside the translator's normal form (hand-written models + correspondence only). -/
theorem C01_plumb_coverage :
    (Gen.classPlumb.filter (·.unsupported.isSome)).map (·.name) =
      ["WindowedClickThroughRate", "WindowedWeightedCalibration", "WindowedBinaryNormalizedEntropy",
       "WindowedMeanSquaredError", "WindowedBinaryAUROC"] := by
  decide +kernel

/-- the rows outside the BASIC normal form (their merge = single theorem carries a hypothesis on the history). -/
theorem C01_plumb_nonbasic :
    (Gen.classPlumb.filter (fun P => P.unsupported.isNone && !Basic P)).map (fun P => (P.name, P.mode)) =
      [("MeanSquaredError", ""), ("R2Score", ""), ("PeakSignalNoiseRatio", "self.auto_range")] := by
  decide +kernel

/-- the rows whose meaning is the joint-accumulator machine `welfordImpl` (theorems below), with their facts. -/
theorem C01_plumb_welford_rows :
    (Gen.classPlumb.filter isWelford).map (fun P => (P.name, P.fields)) =
      [("Covariance", [.welford "n" "sum" "ss_sum" true true true])] := by
  decide +kernel

/-- **merge = single for a joint accumulator**, for every representation relation the combine respects and that
    determines what compute() returns. -/
theorem C01_plumb_welford_merge_eq_single {B J R : Type} (W : JOps J) (stat : B → J) (g : J → Except Err R)
    (Rep : J → List B → Prop) (h0 : Rep W.e [])
    (hu : ∀ s l b, Rep s l → Rep (W.comb s (stat b)) (l ++ [b]))
    (hm : ∀ s l t lt, Rep s l → Rep t lt → Rep (W.comb s t) (l ++ lt))
    (hg : ∀ s s' l, Rep s l → Rep s' l → g s = g s')
    (h : Hist B) (s s' : J)
    (he : eval (welfordImpl W stat g) h = .ok s)
    (hs : eval (welfordImpl W stat g) (single (flatten h)) = .ok s') :
    (welfordImpl W stat g).out s = (welfordImpl W stat g).out s' := by
  have r := welford_refines W stat g Rep h0 hu hm h s he
  have r' := welford_refines W stat g Rep h0 hu hm (single (flatten h)) s' hs
  rw [flatten_single] at r'
  exact hg s s' _ r r'

/-- the combine of `Covariance` with its neutral element. -/
def covW : JOps CovS := ⟨covCombine, covInit⟩

/-- **the meaning of the `welford` row of Covariance IS the hand-written class model** `TE.Agg.covImpl` (so
    `C07.chan_combine`, `C07.cov_merge_tree`, `C07.cov_eq_spec` are about the plumbing read off the source). -/
theorem C01_plumb_welford_cov :
    welfordImpl covW (fun b : Nat × Mat => covBatch b.1 b.2) covCompute = covImpl := rfl

/-- every reachable Covariance state is the summary `(n, Σx, M2)` of the live observations, whatever the tree of
    updates and merges (instance of the theorem above with the representation `CovR`, Chan combine identity). -/
theorem C01_plumb_welford_cov_state (d : Nat) (h : Hist (Nat × Mat)) (s : CovS)
    (he : eval (welfordImpl covW (fun b : Nat × Mat => covBatch b.1 b.2) covCompute) h = .ok s)
    (hd : ∀ b ∈ flatten h, b.1 = d) : CovRep d s (rowsOf (flatten h)) := by
  refine welford_refines covW _ covCompute (CovR d) (fun _ => Or.inl ⟨rfl, rfl⟩) ?_ ?_ h s he hd
  · intro s l b hs hall
    rw [rowsOf_append]
    have hb : b.1 = d := hall b (by simp)
    have : rowsOf [b] = b.2 := by simp [rowsOf]
    rw [this]
    simp only [covW, hb]
    exact covRep_update d b.2 (hs fun b' hb' => hall b' (List.mem_append_left _ hb'))
  · intro s l t lt hs ht hall
    rw [rowsOf_append]
    exact covRep_combine d (hs fun b hb => hall b (List.mem_append_left _ hb))
      (ht fun b hb => hall b (List.mem_append_right _ hb))

/-- the rows whose meaning is the per-query retained-list machine `topkImpl`: the code AS IT IS — update() prunes
    to the top k, merge_state() only concatenates. -/
theorem C01_plumb_topk_rows :
    (Gen.classPlumb.filter isTopk).map (fun P => (P.name, P.fields)) =
      [("RetrievalPrecision", [.topk "topk" "target" "self.k" "self.num_queries" "self.num_queries" true false]),
       ("RetrievalRecall", [.topk "topk" "target" "self.k" "self.num_queries" "self.num_queries" true false])] := by
  decide +kernel

/-- every reachable state of a `topk` row holds, per query, what the live batches of that query give — up to what
    compute() depends on, and PROVIDED the selection is neutral for it (`k = None`: the selection is a sort and
    compute() depends on the multiset of pairs).  For an integer `k` the hypothesis fails and so does the conclusion
    (`C01_plumb_topk_pruned_witness`; recorded findings C01|RetrievalRecall|k=int, C01|RetrievalPrecision|…). -/
theorem C01_plumb_topk_state {Cq M R : Type} (T : TOps Cq M) (P : ClassPlumb) (g : (Nat → Cq) → Except Err R)
    (hsel : SelNeutral T) (h : Hist (Nat → Option Cq)) (s : Nat → Cq) (he : eval (topkImpl T P g) h = .ok s) (i : Nat) :
    T.obs (s i) = T.obs (liveQ T (flatten h) i) :=
  topk_refines T P g hsel h s he i

/-- **merge = single for the retrieval classes when the selection is neutral (`k = None`)**, for every compute()
    that depends on the per-query observations only. -/
theorem C01_plumb_topk_merge_eq_single {Cq M R : Type} (T : TOps Cq M) (P : ClassPlumb) (g : (Nat → Cq) → Except Err R)
    (hsel : SelNeutral T) (hg : ∀ s s' : Nat → Cq, (∀ i, T.obs (s i) = T.obs (s' i)) → g s = g s')
    (h : Hist (Nat → Option Cq)) (s s' : Nat → Cq)
    (he : eval (topkImpl T P g) h = .ok s)
    (hs : eval (topkImpl T P g) (single (flatten h)) = .ok s') :
    (topkImpl T P g).out s = (topkImpl T P g).out s' := by
  have r := topk_refines T P g hsel h s he
  have r' := topk_refines T P g hsel (single (flatten h)) s' hs
  rw [flatten_single] at r'
  exact hg s s' fun i => (r i).trans (r' i).symm

/-- the retained scores of a query as a list; the selection keeps the best one (`k = 1`); compute() sees the list. -/
def top1Ops : TOps (List Nat) (List Nat) where
  cat2 := (· ++ ·)
  empty := []
  sel := fun l => match l.max? with | some m => [m] | none => []
  obs := id
  assoc := List.append_assoc
  empty_left := List.nil_append
  empty_right := List.append_nil
  obs_cat := by intro a a' b b' h h'; simp only [id] at h h'; rw [h, h']

/-- a neutral selection that is not the identity: the selection reverses, compute() sees length and sum. -/
def revOps : TOps (List Nat) (Nat × Nat) where
  cat2 := (· ++ ·)
  empty := []
  sel := List.reverse
  obs := fun l => (l.length, l.sum)
  assoc := List.append_assoc
  empty_left := List.nil_append
  empty_right := List.append_nil
  obs_cat := by
    intro a a' b b' h h'
    simp only [Prod.mk.injEq] at h h'
    simp [h.1, h.2, h'.1, h'.2]

def topkRow : ClassPlumb := ⟨"topk", [.topk "topk" "target" "self.k" "self.num_queries" "self.num_queries" true false], none, ""⟩

example : WF topkRow = true ∧ topkFlags topkRow.fields = (true, false) := by decide
example : SelNeutral revOps := by intro c; simp [revOps]
example : WF ⟨"x", [.topk "topk" "target" "self.k" "self.num_queries - 1" "self.num_queries" true false], none, ""⟩ = false := by decide

/-- **the code as it is, with an integer k**: shard A saw a query's score 3, shard B its score 5; A.merge_state([B])
    retains both, a single instance fed both batches retains the best one only — the same live batches, different
    retained lists (what RetrievalRecall's denominator and RetrievalPrecision's empty-target test read). -/
theorem C01_plumb_topk_pruned_witness :
    (match eval (topkImpl top1Ops topkRow (fun s => .ok (s 0)))
        (.merge (.update .fresh (fun _ => some [3])) [.update .fresh (fun _ => some [5])]) with
      | .ok s => s 0 | .error _ => []) = [3, 5] ∧
    (match eval (topkImpl top1Ops topkRow (fun s => .ok (s 0)))
        (single [fun _ => some [3], fun _ => some [5]]) with
      | .ok s => s 0 | .error _ => []) = [5] ∧
    ¬ SelNeutral top1Ops := by
  refine ⟨by decide +kernel, by decide +kernel, fun h => ?_⟩
  have := h [3, 5]
  revert this
  decide +kernel

/-- the designed exception is exactly the add-vs-max of Throughput's elapsed time. -/
theorem C01_plumb_throughput :
    (Gen.classPlumb.filter (·.name == "Throughput")).map (·.fields) =
      [[.num "elapsed_time_sec" .add .max "elapsed_time_sec" true, .num "num_total" .add .add "num_total" true]] := by
  decide +kernel

/-- corollary for the generated table: every class in normal form (but Throughput) satisfies merge = single. -/
theorem C01_plumb_generated_merge_eq_single {A C R : Type} (O : Ops A C) (g : View A C → Except Err R) :
    ∀ P ∈ Gen.classPlumb, P.unsupported = none → P.name ∉ designedExceptions → isWelford P = false → isTopk P = false →
      ∀ (h : Hist (Contrib A C)) (s s' : St A C), eval (plumbImpl O P g) h = .ok s →
        eval (plumbImpl O P g) (single (flatten h)) = .ok s' →
        (hasAdopt P.fields = true → Coh O (flatten h)) → (hasDer P.fields = true → flatten h ≠ []) →
        (plumbImpl O P g).out s = (plumbImpl O P g).out s' :=
  fun P hP hu hn _ _ h s s' he hs hc hd =>
    (C01_plumb_merge_eq_single O P g (C01_plumb_generated_wf P hP hu hn) h s s' he hs hc hd).2

/-! ### non-vacuity -/

/-- a well-formed generated row exists for both kinds, and a merge history on it really exercises the merge
    branch (the sources are non-empty). -/
example : ∃ P ∈ Gen.classPlumb, P.name = "BinaryAUROC" ∧ WF P = true ∧ P.fields.length = 3 := by decide +kernel
example : ∃ P ∈ Gen.classPlumb, P.name = "MulticlassF1Score" ∧ WF P = true ∧ P.fields.length = 3 := by decide +kernel
example : (Gen.classPlumb.filter (fun P => WF P)).length ≥ 40 := by decide +kernel

def demoRow : ClassPlumb := ⟨"demo", [.num "n" .add .add "n" true, .lst "xs" "xs" "xs" (.lit 0) [.lit 0] 0], none, ""⟩
def demoB (k : Nat) : Contrib (Option Nat) (List Nat) := ⟨fun _ => some k, fun _ => [k, k + 1]⟩
def demoHist : Hist (Contrib (Option Nat) (List Nat)) :=
  .merge (.update .fresh (demoB 1)) [.update (.update .fresh (demoB 2)) (demoB 3), .fresh, .update .fresh (demoB 4)]

example : WF demoRow = true := by decide
example : (match eval (plumbImpl natOps demoRow (fun v => .ok (v.num "n", v.cat "xs", v.empty "xs"))) demoHist with
    | .ok s => (s.num "n", s.lst "xs") | .error _ => (none, [])) =
    (some 10, [[1, 2], [2, 3, 3, 4], [4, 5]]) := by decide +kernel
example : flatten demoHist = [demoB 1, demoB 2, demoB 3, demoB 4] := rfl

/-- the well-formedness predicate is not vacuous: it rejects the typical slips. -/
example : WF ⟨"x", [.num "a" .add .add "b" true, .num "b" .add .add "b" true], none, ""⟩ = false := by decide  -- reads another state
example : WF ⟨"x", [.num "a" .add .max "a" true], none, ""⟩ = false := by decide                               -- other operator
example : WF ⟨"x", [.lst "a" "a" "a" (.lit 0) [.lit 1] 0], none, ""⟩ = false := by decide                       -- compute cats along another dim
example : WF ⟨"x", [.lst "a" "a" "" (.lit 0) [.lit 0] 0], none, ""⟩ = false := by decide                        -- unguarded append of cat([])
example : WF ⟨"x", [.lst "a" "a" "a" (.lit 0) [.lit 0] 1], none, ""⟩ = false := by decide                       -- compute reads the chunk list itself
example : WF ⟨"x", [.num "a" .add .add "a" true, .adopt "a" "a" ""], none, ""⟩ = false := by decide             -- merge_state lacks the adoption branch
example : WF ⟨"x", [.num "a" .add .add "a" true, .num "w" .add .add "w" true, .adopt "a" "a" "w"], none, ""⟩ = false := by decide  -- other guard
example : WF ⟨"x", [.num "a" .add .add "a" true, .task "a" "self.num_tasks - 1" "self.num_tasks"], none, ""⟩ = false := by decide  -- loop misses a row
example : WF ⟨"x", [.num "hi" .max .max "hi" true, .num "lo" .min .min "lo" true, .der "r" "hi" "lo" true false true], none, ""⟩ = false := by decide  -- merge leaves the derived state stale
example : WF ⟨"x", [.num "hi" .max .max "hi" true, .der "r" "hi" "lo" true true true], none, ""⟩ = false := by decide   -- derived from a state that is not merged

example : WF ⟨"x", [.lst "a" "a" "a" (.lit 0) [.lit 0] 0, .cmp "a" ["a"] (.lit 1)], none, ""⟩ = false := by decide      -- merge compacts along another dim
example : WF ⟨"x", [.lst "a" "a" "a" (.lit 0) [.lit 0] 0, .cmp "a" [] (.lit 0)], none, ""⟩ = false := by decide         -- unguarded compaction: cat([])
example : WF ⟨"x", [.num "dim" .add .add "dim" true, .lst "a" "a" "a" (.st "dim") [.st "dim"] 0], none, ""⟩ = false := by decide  -- cat along a state that is written
example : WF ⟨"x", [.const "d", .const "e", .lst "a" "a" "a" (.st "d") [.st "e"] 0], none, ""⟩ = false := by decide     -- merge / compute read different states

/-! #### the adoption branch, the derived state, the row loop and the compaction are exercised -/

/-- AUC's shape: merge_state first compacts the object's own chunk lists, then appends the sources'. -/
def cmpRow : ClassPlumb :=
  ⟨"cmp", [.lst "x" "x" "x" (.lit 1) [.lit 1] 0, .cmp "x" ["x", "y"] (.lit 1),
           .lst "y" "y" "x" (.lit 1) [.lit 1] 0, .cmp "y" ["x", "y"] (.lit 1)], none, ""⟩
example : WF cmpRow = true := by decide
example : (match eval (plumbImpl natOps cmpRow (fun v => .ok (v.cat "x", v.cat "y")))
      (.merge (.update (.update .fresh (demoB 1)) (demoB 5)) [.update (.update .fresh (demoB 2)) (demoB 3), .fresh]) with
    | .ok s => (s.lst "x", natOps.cat (.lit 1) (s.lst "y")) | .error _ => ([], [])) =
    ([[1, 2, 5, 6], [2, 3, 3, 4]], [1, 2, 5, 6, 2, 3, 3, 4]) := by decide +kernel

/-- a joint accumulator whose combine is not commutative (append): the merge order is the order of the batches. -/
example : (match eval (welfordImpl ⟨fun a b => a ++ b, ([] : List Nat)⟩ (fun k : Nat => [k, k]) (fun s => Except.ok s))
      (.merge (.update .fresh 1) [.update (.update .fresh 2) 3, .fresh]) with
    | .ok s => s | .error _ => []) = [1, 1, 2, 2, 3, 3] := by decide
example : (match eval covImpl (.merge (.update .fresh (1, [[1], [3]])) [.update .fresh (1, [[5]])]) with
    | .ok s => s | .error _ => covInit) = ⟨3, [9], [[8]]⟩ := by
  decide +kernel
example : WF ⟨"x", [.welford "n" "sum" "ss" true false true], none, ""⟩ = false := by decide   -- merge passes the states in other positions
example : WF ⟨"x", [.welford "n" "sum" "ss" true true false], none, ""⟩ = false := by decide   -- the combine is not the Chan combine

/-- Cat's shape: the dimension is a constant state of the object. -/
example : ∃ P ∈ Gen.classPlumb, P.name = "Cat" ∧ WF P = true ∧ dimOf P.fields "inputs" = .st "dim" := by decide +kernel

def adoptRow : ClassPlumb :=
  ⟨"adopt", [.num "sse" .add .add "sse" true, .num "w" .add .add "w" true, .adopt "sse" "sse" "sse"], none, ""⟩
/-- batches whose `sse` contribution is never the "0-dim" zero. -/
def adoptB (k : Nat) : Contrib (Option Nat) (List Nat) := ⟨fun f => if f = "sse" then some (k + 1) else some k, fun _ => []⟩
def adoptHist : Hist (Contrib (Option Nat) (List Nat)) :=
  .merge .fresh [.update (.update .fresh (adoptB 2)) (adoptB 3), .fresh, .update .fresh (adoptB 4)]

example : WF adoptRow = true ∧ hasAdopt adoptRow.fields = true := by decide
example : Coh natOps (flatten adoptHist) := by
  have key : ∀ b ∈ flatten adoptHist, ∀ G, natOps.scalar (b.num G) = false := by
    intro b hb G
    have : b = adoptB 2 ∨ b = adoptB 3 ∨ b = adoptB 4 := by simpa [adoptHist, flatten, flattenList] using hb
    rcases this with rfl | rfl | rfl <;> simp only [adoptB] <;> split <;> decide
  intro b hb b' hb' G
  rw [key b hb, key b' hb']
/-- the first merge step really takes the adoption branch (the target is fresh, the source holds a "vector"). -/
example : natOps.scalar ((initSt natOps adoptRow.fields).num "sse") = true ∧ natOps.vec ((adoptB 2).num "sse") = true := by
  decide
example : (match eval (plumbImpl natOps adoptRow (fun v => .ok (v.num "sse", v.num "w"))) adoptHist with
    | .ok s => (s.num "sse", s.num "w") | .error _ => (none, none)) = (some 12, some 9) := by decide +kernel

def derRow : ClassPlumb :=
  ⟨"der", [.num "hi" .max .max "hi" true, .num "lo" .min .min "lo" true, .der "range" "hi" "lo" true true true], none,
   "self.auto_range"⟩
def derB (lo hi : Nat) : Contrib (Option Nat) (List Nat) := ⟨fun f => if f = "hi" then some hi else some lo, fun _ => []⟩
def derHist : Hist (Contrib (Option Nat) (List Nat)) :=
  .update (.merge (.update .fresh (derB 4 6)) [.update .fresh (derB 1 5), .update .fresh (derB 3 9)]) (derB 2 7)

example : WF derRow = true ∧ hasDer derRow.fields = true := by decide
example : flatten derHist ≠ [] := by simp [derHist, flatten, flattenList]
example : (match eval (plumbImpl natOps derRow (fun v => .ok (v.num "range"))) derHist with
    | .ok s => (s.num "hi", s.num "lo", s.num "range") | .error _ => (none, none, none)) = (some 9, some 1, some 8) := by
  decide +kernel

/-- **why the derived-state theorem needs a live batch**: `merge_state([])` on a fresh object recomputes the
    derived state from the neutral elements, a fresh object holds the registered default — same (empty) live
    batches, different state.  (PeakSignalNoiseRatio: `data_range` becomes `-inf` instead of `0.`; compute() is
    `nan` in both cases because there is no observation.) -/
theorem C01_plumb_derived_fresh_witness :
    (match eval (plumbImpl natOps derRow (fun v => .ok (v.num "range"))) (.merge .fresh []) with
      | .ok s => s.num "range" | .error _ => some 0) = none ∧
    (match eval (plumbImpl natOps derRow (fun v => .ok (v.num "range"))) .fresh with
      | .ok s => s.num "range" | .error _ => none) = some 0 ∧
    flatten (.merge .fresh [] : Hist (Contrib (Option Nat) (List Nat))) = flatten .fresh :=
  ⟨by decide +kernel, by decide +kernel, rfl⟩

def taskRow : ClassPlumb :=
  ⟨"task", [.num "tp" .add .add "tp" true, .task "tp" "self.num_tasks" "self.num_tasks"], none, ""⟩
def taskB (k : Nat) : Contrib (Option Nat × Option Nat) (List Nat) := ⟨fun _ => (some k, some (10 * k)), fun _ => []⟩

example : WF taskRow = true ∧ isTask taskRow.fields "tp" = true := by decide
example : (match eval (plumbImpl pairOps taskRow (fun v => .ok (v.num "tp")))
      (.merge (.update .fresh (taskB 1)) [.update (.update .fresh (taskB 2)) (taskB 3)]) with
    | .ok s => s.num "tp" | .error _ => (none, none)) = (some 6, some 60) := by decide +kernel

end TE.C01
