/-
  C01 / C03, tied to the SOURCE of every class: "merging shards gives the state and the result of a single
  instance fed the same batches" for the class plumbing that harness/translators/plumbing.py reads off the
  bodies of update() / merge_state() / compute() on every run (TE/Gen/Plumbing.lean).

  * `C01_plumb_merge_eq_single` is proved once, for EVERY well-formed plumbing row (`TE.Plumb.WF`, decidable),
    every carrier satisfying `TE.Plumb.Ops` (exact tensors with + / max / min; `torch.cat` with its
    associativity along one dimension), every rest-of-compute `g`, and every history of update / merge_state
    (any list of sources, each with its own history) / reset — no bound on anything.
  * `C01_plumb_generated_wf` decides that every row generated from the current tree is well-formed, and
    `C01_plumb_coverage` pins the set of classes outside the translator's normal form (those are covered by the
    hand-written models of TE/Model and the correspondence runs only).  A change to a merge_state / update /
    compute body that drops a state from the merge, reads another state of the source, uses another operator
    than update, concatenates along another dimension than compute, drops the non-empty guard, … changes the
    generated row and breaks one of the two; the runner then searches for a failing input.
  * `Throughput` is in the normal form but NOT well-formed by design: update() adds `elapsed_time_sec`,
    merge_state() takes the max over ranks (documented); C01 covers it through TE.Props.C01's own theorem.
-/
import TE.Lemmas.Plumb
import TE.Gen.Plumbing
namespace TE.C01
open TE TE.Plumb

/-- **merge = single, for every well-formed plumbing row.** -/
theorem C01_plumb_merge_eq_single {A C R : Type} (O : Ops A C) (P : ClassPlumb) (g : View A C → Except Err R)
    (hwf : WF P = true) (h : Hist (Contrib A C)) (s s' : St A C)
    (he : eval (plumbImpl O P g) h = .ok s)
    (hs : eval (plumbImpl O P g) (single (flatten h)) = .ok s') :
    view O P.fields s = view O P.fields s' ∧ (plumbImpl O P g).out s = (plumbImpl O P g).out s' := by
  have r := plumb_refines O P g hwf h s he
  have r' := plumb_refines O P g hwf (single (flatten h)) s' hs
  rw [flatten_single] at r'
  have hv := rel_view O P.fields s s' _ r r'
  exact ⟨hv, by simp only [plumbImpl, hv]⟩

/-- the hypotheses of the theorem above are always met: histories of a plumbing row never fail
    (validation failures happen before any mutation and are C14's subject). -/
theorem C01_plumb_total {A C R : Type} (O : Ops A C) (P : ClassPlumb) (g : View A C → Except Err R)
    (h : Hist (Contrib A C)) : ∃ s, eval (plumbImpl O P g) h = .ok s := plumb_total O P g h

/-- the numeric states of every reachable object are the fold of the contributions of the live batches, the
    list states concatenate (along the class's dimension) to the concatenation of the live chunks. -/
theorem C01_plumb_state {A C R : Type} (O : Ops A C) (P : ClassPlumb) (g : View A C → Except Err R)
    (hwf : WF P = true) (h : Hist (Contrib A C)) (s : St A C) (he : eval (plumbImpl O P g) h = .ok s) :
    (∀ f u m src, numOf P.fields f = some (u, m, src) →
        s.num f = (flatten h).foldl (fun a b => O.op u a (b.num f)) (O.unit u)) ∧
    (∀ f, isLst P.fields f = true →
        O.cat (dimOf P.fields f) (s.lst f) = O.cat (dimOf P.fields f) ((flatten h).map (·.lst f)) ∧
        (s.lst f = [] ↔ flatten h = [])) := by
  have r := plumb_refines O P g hwf h s he
  refine ⟨fun f u m src hf => ?_, fun f hf => ?_⟩
  · have := r.1 f
    simpa only [canon, hf] using this
  · have := r.2 f
    obtain ⟨x, hx⟩ := Option.isSome_iff_exists.mp hf
    simp only [canon, hx] at this
    exact ⟨this.cat_eq, rel_lst_empty O P.fields s _ r f hf⟩

/-- classes whose merge deliberately differs from their update (documented semantics). -/
def designedExceptions : List String := ["Throughput"]

/-- **every row generated from the current source tree is well-formed.** -/
theorem C01_plumb_generated_wf :
    ∀ P ∈ Gen.classPlumb, P.unsupported = none → P.name ∉ designedExceptions → WF P = true := by
  decide +kernel

/-- the classes outside the translator's normal form (hand-written models + correspondence only). -/
theorem C01_plumb_coverage :
    (Gen.classPlumb.filter (·.unsupported.isSome)).map (·.name) =
      ["BinaryBinnedAUPRC", "Cat", "AUC", "Covariance", "MeanSquaredError", "R2Score", "RetrievalPrecision",
       "RetrievalRecall", "PeakSignalNoiseRatio", "FrechetAudioDistance", "WindowedClickThroughRate",
       "WindowedWeightedCalibration", "WindowedBinaryNormalizedEntropy", "WindowedMeanSquaredError",
       "WindowedBinaryAUROC"] := by
  decide +kernel

/-- the designed exception is exactly the add-vs-max of Throughput's elapsed time. -/
theorem C01_plumb_throughput :
    (Gen.classPlumb.filter (·.name == "Throughput")).map (·.fields) =
      [[.num "elapsed_time_sec" .add .max "elapsed_time_sec" true, .num "num_total" .add .add "num_total" true]] := by
  decide +kernel

/-- corollary for the generated table: every class in normal form (but Throughput) satisfies merge = single. -/
theorem C01_plumb_generated_merge_eq_single {A C R : Type} (O : Ops A C) (g : View A C → Except Err R) :
    ∀ P ∈ Gen.classPlumb, P.unsupported = none → P.name ∉ designedExceptions →
      ∀ (h : Hist (Contrib A C)) (s s' : St A C), eval (plumbImpl O P g) h = .ok s →
        eval (plumbImpl O P g) (single (flatten h)) = .ok s' →
        (plumbImpl O P g).out s = (plumbImpl O P g).out s' :=
  fun P hP hu hn h s s' he hs =>
    (C01_plumb_merge_eq_single O P g (C01_plumb_generated_wf P hP hu hn) h s s' he hs).2

/-! ### non-vacuity -/

/-- a carrier satisfying the laws: naturals with a top element (`none` = +inf) — `+` and `max` have unit 0
    and absorb +inf, `min` has unit +inf; chunks are lists, `cat` flattens (along whatever dimension). -/
def natOp : NOp → Option Nat → Option Nat → Option Nat
  | .add, some a, some b => some (a + b)
  | .add, _, _ => none
  | .max, some a, some b => some (Nat.max a b)
  | .max, _, _ => none
  | .min, some a, some b => some (Nat.min a b)
  | .min, some a, none => some a
  | .min, none, b => b

def natOps : Ops (Option Nat) (List Nat) where
  op := natOp
  unit := fun | .add => some 0 | .max => some 0 | .min => none
  cat := fun _ l => l.flatten
  assoc := by
    intro o a b c
    cases o <;> cases a <;> cases b <;> cases c <;> simp [natOp, Nat.add_assoc, Nat.max_assoc, Nat.min_assoc]
  comm := by
    intro o a b
    cases o <;> cases a <;> cases b <;> simp [natOp, Nat.add_comm, Nat.max_comm, Nat.min_comm]
  unit_left := by
    intro o a
    cases o <;> cases a <;> simp [natOp]
  cat_flat := by
    intro d xs ys zs _
    simp

/-- a well-formed generated row exists for both kinds, and a merge history on it really exercises the merge
    branch (the sources are non-empty). -/
example : ∃ P ∈ Gen.classPlumb, P.name = "BinaryAUROC" ∧ WF P = true ∧ P.fields.length = 3 := by decide +kernel
example : ∃ P ∈ Gen.classPlumb, P.name = "MulticlassF1Score" ∧ WF P = true ∧ P.fields.length = 3 := by decide +kernel
example : (Gen.classPlumb.filter (fun P => WF P)).length ≥ 40 := by decide +kernel

def demoRow : ClassPlumb := ⟨"demo", [.num "n" .add .add "n" true, .lst "xs" "xs" "xs" 0 [0] 0], none⟩
def demoB (k : Nat) : Contrib (Option Nat) (List Nat) := ⟨fun _ => some k, fun _ => [k, k + 1]⟩
def demoHist : Hist (Contrib (Option Nat) (List Nat)) :=
  .merge (.update .fresh (demoB 1)) [.update (.update .fresh (demoB 2)) (demoB 3), .fresh, .update .fresh (demoB 4)]

example : WF demoRow = true := by decide
example : (match eval (plumbImpl natOps demoRow (fun v => .ok (v.num "n", v.cat "xs", v.empty "xs"))) demoHist with
    | .ok s => (s.num "n", s.lst "xs") | .error _ => (none, [])) =
    (some 10, [[1, 2], [2, 3, 3, 4], [4, 5]]) := by decide +kernel
example : flatten demoHist = [demoB 1, demoB 2, demoB 3, demoB 4] := rfl

/-- the well-formedness predicate is not vacuous: it rejects the typical slips. -/
example : WF ⟨"x", [.num "a" .add .add "b" true, .num "b" .add .add "b" true], none⟩ = false := by decide  -- reads another state
example : WF ⟨"x", [.num "a" .add .max "a" true], none⟩ = false := by decide                               -- other operator
example : WF ⟨"x", [.lst "a" "a" "a" 0 [1] 0], none⟩ = false := by decide                                   -- compute cats along another dim
example : WF ⟨"x", [.lst "a" "a" "" 0 [0] 0], none⟩ = false := by decide                                    -- unguarded append of cat([])
example : WF ⟨"x", [.lst "a" "a" "a" 0 [0] 1], none⟩ = false := by decide                                   -- compute reads the chunk list itself

end TE.C01
