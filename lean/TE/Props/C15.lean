/-
  C15 — gathering state across ranks is lossless and correctly addressed.

  Model: TE/Model/Sync.lean (synclib, literally).  Spec: TE/Spec/Sync.lean ("every member's
  value in rank order on receiving ranks, None elsewhere").  All theorems quantify over
    * the group `g`: ANY list of global ranks without repetition (`IsGroup g n`: `g.Nodup`,
      `g.length = n`) — the whole world, a sub-group, a group not containing global rank 0,
      members in any order — and hence over every group size `n`;
    * the destination: `None` or any member named by its group rank (`DstIn n dst`);
    * the per-rank values, and the junk content of `torch.empty` dummies.
  The members' environments are `envOf g n dst junk i = ⟨me := i, ws := n, grp := g, dst, junk i⟩`.

  Hypotheses on the values (`Sendable`, `ListSendable`, `StateOk`, `Syncable`: TE/Spec/Sync.lean)
  are synclib's documented contract: tensors of one state have one dtype and one number of
  dimensions across ranks; the elements of a list state likewise; dict states have equal key sets;
  all ranks hold the same (metric, state) names with the same state kind.  Outside them the
  statements are FALSE for the code as it is — see the witness theorems at the end (known findings).
-/
import TE.Lemmas.SyncExample
import TE.Lemmas.SyncHead
import TE.Lemmas.SyncCheck
namespace TE.C15
open TE TE.Sync TE.Spec.Sync

/-- `pad_trim_id`: slicing a tensor that was zero-padded to a pointwise larger shape back to its
    own shape returns it unchanged — any number of dimensions, zero extents included. -/
theorem pad_trim_id (t : Tensor) (m : List Nat) (hle : ShapeLe t.shape m) (hwf : t.WF) :
    (t.pad m).slice t.shape = t :=
  slice_pad t m hle hwf

/-- non-vacuity: a 2×0×3 tensor padded to 2×2×4, and a 1×2 one padded to 3×2. -/
example : ShapeLe [2, 0, 3] [2, 2, 4] ∧ (⟨.f32, [2, 0, 3], []⟩ : Tensor).WF ∧
    ((⟨.f32, [1, 2], [5, 7]⟩ : Tensor).pad [3, 2]).data = [5, 7, 0, 0, 0, 0] := by
  refine ⟨.cons (by decide) (.cons (by decide) (.cons (by decide) .nil)), by decide, by decide +kernel⟩

/-- `send_tensors_lossless` (with `dst_only` for tensors): for every group, every destination and
    per-rank tensors of one dtype and one number of dimensions (shapes otherwise arbitrary, zero
    extents included): no mismatch, every receiving rank holds exactly `[t₀,…,t_{n-1}]` (shape,
    dtype tag, content) and every other rank holds `None`. -/
theorem send_tensors_lossless (g : List Nat) (n : Nat) (hg : IsGroup g n) (dst : Option Nat) (hd : DstIn n dst)
    (junk : Nat → Q) (T : Nat → Tensor) (dt : DType) (k : Nat) (hT : Sendable n T dt k) :
    (runWorldL g ((List.range n).map fun i => sendTensors (envOf g n dst junk i) (T i))).out
      = .ok ((List.range n).map fun i => gathered n dst T i) :=
  yields_sendTensors g n hg dst junk hd T dt k hT

/-- non-vacuity: three ranks with shapes 1×2, 2×3, 0×1 satisfy the hypotheses, for the sub-group
    `[4, 1, 2]` of a larger world and destination = group rank 1. -/
example :
    let T : Nat → Tensor := fun i => match i with
      | 0 => ⟨.f32, [1, 2], [0, 1]⟩ | 1 => ⟨.f32, [2, 3], [0, 1, 2, 3, 4, 5]⟩ | _ => ⟨.f32, [0, 1], []⟩
    Sendable 3 T .f32 2 ∧ IsGroup [4, 1, 2] 3 ∧ DstIn 3 (some 1) := by
  refine ⟨?_, ⟨by decide, rfl⟩, by decide⟩
  intro i hi
  match i, hi with
  | 0, _ => exact ⟨rfl, rfl, by decide⟩
  | 1, _ => exact ⟨rfl, rfl, by decide⟩
  | 2, _ => exact ⟨rfl, rfl, by decide⟩

/-- `sync_states_lossless`: for a whole state collection (`sync_states(states, …,
    metrics_traversal_order(states), process_group, rank)`), under `Syncable`: the run completes
    without mismatch; every receiving member holds, for every member `j` in rank order, member
    `j`'s collection in traversal order — every state equal to what `j` sent (`canon`: a dict
    state lists its entries by sorted key, see `dict_same_map`); non-receiving members hold `None`. -/
theorem sync_states_lossless (g : List Nat) (n : Nat) (hg : IsGroup g n) (dst : Option Nat) (hd : DstIn n dst)
    (junk : Nat → Q) (sd : Nat → List (String × List (String × TState)))
    (hS : Syncable n fun i => traversal (sd i)) :
    (runWorldL g ((List.range n).map fun i => syncStates (envOf g n dst junk i) (sd i))).out
      = .ok ((List.range n).map fun i => gathered n dst (fun j => (traversal (sd j)).map canonEntry) i) :=
  yields_syncFlat g n dst junk hg hd _ hS

/-- a dict state in canonical listing is the same map: the same keys (sorted), the same tensor
    under every key. -/
theorem dict_same_map (kv : List (String × Tensor)) :
    (canonDict kv).map (·.1) = sortKeys (kv.map (·.1)) ∧ ∀ q, lookupKey q (canonDict kv) = lookupKey q kv :=
  ⟨canonDict_keys kv, canonDict_lookup kv⟩

/-- every other kind of state comes back literally. -/
theorem canon_id (s : TState) (h : ∀ kv, s ≠ .dict kv) : canon s = s := by
  cases s <;> first | rfl | exact absurd rfl (h _)

/-- `dst_only`: when a destination is named, exactly that member receives; every other member
    obtains `None` — and still the run completes (all members issued compatible collectives). -/
theorem dst_only (g : List Nat) (n : Nat) (hg : IsGroup g n) (d : Nat) (hd : d < n)
    (junk : Nat → Q) (sd : Nat → List (String × List (String × TState)))
    (hS : Syncable n fun i => traversal (sd i)) :
    ∃ rs, (runWorldL g ((List.range n).map fun i => syncStates (envOf g n (some d) junk i) (sd i))).out = .ok rs ∧
      rs.length = n ∧
      (∀ i, i < n → i ≠ d → rs[i]? = some none) ∧
      rs[d]? = some (some ((List.range n).map fun j => (traversal (sd j)).map canonEntry)) := by
  refine ⟨_, sync_states_lossless g n hg (some d) hd junk sd hS, by simp, ?_, ?_⟩
  · intro i hi hne
    simp [List.getElem?_map, List.getElem?_range hi, gathered, receives, hne]
  · simp [List.getElem?_map, List.getElem?_range hd, gathered, receives, allOf]

/-- all ranks issue the same collective sequence: in the run of `sync_states` every round is ONE
    collective — every member of the group sits at a collective of the same kind with the same root
    (`Req.head`); nobody has returned, raised or taken another branch. -/
theorem sync_states_same_collectives (g : List Nat) (n : Nat) (hg : IsGroup g n) (dst : Option Nat) (hd : DstIn n dst)
    (junk : Nat → Q) (sd : Nat → List (String × List (String × TState)))
    (hS : Syncable n fun i => traversal (sd i)) :
    ∀ r ∈ (runWorldL g ((List.range n).map fun i => syncStates (envOf g n dst junk i) (sd i))).rounds,
      ∃ hd, RoundIs hd r := by
  have h := sync_states_lossless g n hg dst hd junk sd hS
  cases n with
  | zero => intro r hr; simp [runWorldL] at hr
  | succ n =>
    rw [List.range_succ_eq_map] at h ⊢
    simp only [List.map_cons, runWorldL] at h ⊢
    exact rounds_same_head_of_ok g _ _ _ h

/-- `list_sync_lossless`: a list state through `sync_states`: per-rank lengths are kept — all-empty
    (`[]` stays `[]`) and some-empty included —, element `i` of member `j` is member `j`'s `i`-th
    tensor, and the dummy tensors short ranks send never surface. -/
theorem list_sync_lossless (g : List Nat) (n : Nat) (hg : IsGroup g n) (dst : Option Nat) (hd : DstIn n dst)
    (junk : Nat → Q) (key : Key) (xs : Nat → List Tensor) (dt : DType) (k : Nat) (hx : ListSendable n xs dt k) :
    (runWorldL g ((List.range n).map fun i => syncFlat (envOf g n dst junk i) [(key, .list (xs i))])).out
      = .ok ((List.range n).map fun i => gathered n dst (fun j => [(key, TState.list (xs j))]) i) :=
  yields_syncFlat g n dst junk hg hd _
    (.cons key (fun i => .list (xs i)) (fun _ => []) (fun _ _ => rfl) (.list xs dt k (fun _ _ => rfl) hx)
      (.nil fun _ _ => rfl))

/-- `dict_sync_lossless`: under equal key sets on all ranks (`hk`; insertion order free) every
    member's dict comes back keyed correctly: the same keys, the same tensor under every key. -/
theorem dict_sync_lossless (g : List Nat) (n : Nat) (hg : IsGroup g n) (dst : Option Nat) (hd : DstIn n dst)
    (junk : Nat → Q) (key : Key) (kv : Nat → List (String × Tensor)) (ks : List String) (dt : DType) (k : Nat)
    (hk : ∀ i, i < n → sortKeys ((kv i).map (·.1)) = ks)
    (hv : ListSendable n (fun i => valuesByKeys (kv i) ks) dt k) :
    (runWorldL g ((List.range n).map fun i => syncFlat (envOf g n dst junk i) [(key, .dict (kv i))])).out
      = .ok ((List.range n).map fun i => gathered n dst (fun j => [(key, TState.dict (canonDict (kv j)))]) i)
    ∧ ∀ j q, lookupKey q (canonDict (kv j)) = lookupKey q (kv j) :=
  ⟨yields_syncFlat g n dst junk hg hd _
    (.cons key (fun i => .dict (kv i)) (fun _ => []) (fun _ _ => rfl) (.dict kv ks dt k (fun _ _ => rfl) hk hv)
      (.nil fun _ _ => rfl)),
   fun j q => canonDict_lookup (kv j) q⟩

/-- `obj_sync_lossless`: ints stay the ints they were, floats the floats. -/
theorem obj_sync_lossless (g : List Nat) (n : Nat) (hg : IsGroup g n) (dst : Option Nat) (hd : DstIn n dst)
    (junk : Nat → Q) (key : Key) (N : Nat → Int) (F : Nat → Q) :
    (runWorldL g ((List.range n).map fun i => syncFlat (envOf g n dst junk i) [(key, .int (N i))])).out
      = .ok ((List.range n).map fun i => gathered n dst (fun j => [(key, TState.int (N j))]) i)
    ∧ (runWorldL g ((List.range n).map fun i => syncFlat (envOf g n dst junk i) [(key, .float (F i))])).out
      = .ok ((List.range n).map fun i => gathered n dst (fun j => [(key, TState.float (F j))]) i) :=
  ⟨yields_syncFlat g n dst junk hg hd _
    (.cons key (fun i => .int (N i)) (fun _ => []) (fun _ _ => rfl) (.int N fun _ _ => rfl) (.nil fun _ _ => rfl)),
   yields_syncFlat g n dst junk hg hd _
    (.cons key (fun i => .float (F i)) (fun _ => []) (fun _ _ => rfl) (.float F fun _ _ => rfl) (.nil fun _ _ => rfl))⟩

/-! ### the hypotheses are checkable -/

/-- `syncable_checker_sound`: the executable checker `syncableB` (TE/Spec/Sync.lean; the driver's
    `sync.syncable`, which the correspondence run evaluates on every generated case) accepts only
    `Syncable` worlds — so for every world it accepts, `sync_states` is lossless, correctly
    addressed and free of mismatches, for every group numbering and destination. -/
theorem syncable_checker_sound (g : List Nat) (sds : List (List (String × List (String × TState))))
    (hg : IsGroup g sds.length) (dst : Option Nat) (hd : DstIn sds.length dst) (junk : Nat → Q)
    (hc : syncableB (sds.map traversal) = true) :
    (runWorldL g ((List.range sds.length).map fun i =>
        syncStates (envOf g sds.length dst junk i) (sds[i]?.getD []))).out
      = .ok ((List.range sds.length).map fun i =>
          gathered sds.length dst (fun j => (traversal (sds[j]?.getD [])).map canonEntry) i) := by
  apply sync_states_lossless g sds.length hg dst hd junk
  have h := syncableB_sound _ hc
  rw [List.length_map] at h
  have : rowAt (sds.map traversal) = fun i => traversal (sds[i]?.getD []) := by
    funext i
    simp only [rowAt, List.getElem?_map]
    cases sds[i]? <;> rfl
  rw [this] at h
  exact h

/-- non-vacuity: the checker accepts the three-rank example below (and rejects unequal key sets). -/
example : syncableB ((List.range 3).map fun i => traversal [("bag", exStates i)]) = true ∧
    syncableB [[(("m", "d"), .dict [("a", ⟨.f32, [1], [1]⟩)])], [(("m", "d"), .dict [("b", ⟨.f32, [1], [2]⟩)])]] = false := by
  decide +kernel

/-! ### non-vacuity of `Syncable`: three ranks, one idle, uneven shapes -/

/-- `exStates` (TE/Lemmas/SyncExample.lean): rank 0 saw two batches, rank 1 none (empty list, 0-row
    tensor, zero-sized dict values), rank 2 one; every state kind occurs; the group is `[5, 0, 3]`
    of a larger world and the destination its member with group rank 2. -/
example : Syncable 3 (fun i => traversal [("bag", exStates i)]) ∧ IsGroup [5, 0, 3] 3 ∧ DstIn 3 (some 2) :=
  ⟨ex_syncable "bag", ⟨by decide, rfl⟩, by decide⟩

private def tf (sh : List Nat) (d : List Q) : Tensor := ⟨.f32, sh, d⟩

/-! ### regressions: the four repaired defects, on the inputs that used to exhibit them -/

private def env (i n : Nat) (g : List Nat) (dst : Option Nat) : Env := ⟨i, n, g, dst, 0⟩

/-- sub-group `[1,2]` of a world of 3, destination = group rank 1: `dst` is translated to GLOBAL rank 2,
    that member receives both tensors, the other one `None`; and likewise for group rank 0 = global 1
    (was: `rootNotMeant` / `rootNotInGroup`). -/
theorem reg_dst_subgroup :
    (runWorldL [1, 2] [sendTensors (env 0 2 [1, 2] (some 1)) (tf [1] [5]), sendTensors (env 1 2 [1, 2] (some 1)) (tf [1] [6])]).out
      = .ok [none, some [tf [1] [5], tf [1] [6]]]
    ∧ (runWorldL [1, 2] [sendTensors (env 0 2 [1, 2] (some 1)) (tf [1] [5]), sendTensors (env 1 2 [1, 2] (some 1)) (tf [1] [6])]).rounds
      = [[some (.allGather ⟨.i64, [1], [1]⟩), some (.allGather ⟨.i64, [1], [1]⟩)],
         [some (.gather 2 false (tf [1] [5])), some (.gather 2 true (tf [1] [6]))]]
    ∧ (runWorldL [1, 2] [sendTensors (env 0 2 [1, 2] (some 0)) (tf [1] [5]), sendTensors (env 1 2 [1, 2] (some 0)) (tf [1] [6])]).out
      = .ok [some [tf [1] [5], tf [1] [6]], none] := by decide +kernel

/-- a list state that is empty on every rank comes back as `[]` on every rank (was: the `{}` placeholder). -/
theorem reg_all_empty_list :
    (runWorldL [0, 1] [syncOne (env 0 2 [0, 1] none) (.list []), syncOne (env 1 2 [0, 1] none) (.list [])]).out
      = .ok [[.list [], .list []], [.list [], .list []]] := by decide +kernel

/-- a proper sub-group `[0,1]` of a world of 3: `sync_states` returns one entry per member of the
    group (was: `dist.get_world_size()` entries, the surplus one holding only placeholders). -/
theorem reg_sized_by_group :
    (runWorldL [0, 1] [syncFlat (env 0 2 [0, 1] none) [(("m", "n"), .int 4)], syncFlat (env 1 2 [0, 1] none) [(("m", "n"), .int 5)]]).out
      = .ok [some [[(("m", "n"), .int 4)], [(("m", "n"), .int 5)]],
             some [[(("m", "n"), .int 4)], [(("m", "n"), .int 5)]]] := by decide +kernel

/-- sub-group `[1,2]` with one empty list: the member that knows dtype and shape broadcasts them
    (`src` translated to its GLOBAL rank) and both members end with `[[], [t]]` resp. `[[t], []]`
    (was: `rootNotMeant` / `rootNotInGroup`). -/
theorem reg_src_subgroup :
    (runWorldL [1, 2] [syncOne (env 0 2 [1, 2] none) (.list []), syncOne (env 1 2 [1, 2] none) (.list [tf [2] [1, 1]])]).out
      = .ok [[.list [], .list [tf [2] [1, 1]]], [.list [], .list [tf [2] [1, 1]]]]
    ∧ (runWorldL [1, 2] [syncOne (env 0 2 [1, 2] none) (.list [tf [2] [1, 1]]), syncOne (env 1 2 [1, 2] none) (.list [])]).out
      = .ok [[.list [tf [2] [1, 1]], .list []], [.list [tf [2] [1, 1]], .list []]] := by decide +kernel

/-! ### witnesses: the statements fail outside the hypotheses (known findings) -/

/-- ¬(equal ndim): a 0-dim tensor on one rank and a 1-dim one on the other — the first issues
    `all_gather(value)`, the second `all_gather(shape)` (finding C02|send_tensors|ndim-0-vs-1-across-ranks). -/
theorem wit_ndim_mismatch :
    (runWorldL [0, 1] [sendTensors (env 0 2 [0, 1] none) (tf [] [0]), sendTensors (env 1 2 [0, 1] none) (tf [2] [1, 2])]).out
      = .error .dtypeShapeDiffers := by decide +kernel

/-- ¬(equal key sets): rank 1's `{"b": t}` is delivered to rank 0 under rank 0's key `"a"`
    (finding C15|_sync_dict_tensor_states|unequal-keys|re-keyed-with-local-keys). -/
theorem wit_unequal_keys :
    (runWorldL [0, 1] [syncOne (env 0 2 [0, 1] none) (.dict [("a", tf [1] [1])]),
                       syncOne (env 1 2 [0, 1] none) (.dict [("b", tf [1] [2])])]).out
      = .ok [[.dict [("a", tf [1] [1])], .dict [("a", tf [1] [2])]],
             [.dict [("b", tf [1] [1])], .dict [("b", tf [1] [2])]]] := by decide +kernel

/-- ¬(equal key sets), sizes differ: the rank with the larger dict silently loses… nothing locally, but
    the OTHER rank's view of it is truncated to its own number of keys. -/
theorem wit_unequal_keys_truncates :
    (runWorldL [0, 1] [syncOne (env 0 2 [0, 1] none) (.dict [("a", tf [1] [1])]),
                       syncOne (env 1 2 [0, 1] none) (.dict [("a", tf [1] [2]), ("b", tf [1] [3])])]).out
      = .ok [[.dict [("a", tf [1] [1])], .dict [("a", tf [1] [2])]],
             [.dict [("a", tf [1] [1])], .dict [("a", tf [1] [2]), ("b", tf [1] [3])]]] := by decide +kernel

/-- ¬(homogeneous list elements): a list whose elements differ in ndim, with a shorter rank: the dummy
    tensor copies only the first element's shape
    (finding C02|_sync_list_tensor_states|short-rank-dummy|shape-dtype-of-first-element). -/
theorem wit_dummy_first_element_only :
    (runWorldL [0, 1] [syncOne (env 0 2 [0, 1] none) (.list [tf [2] [1, 1], tf [1, 1] [3]]), syncOne (env 1 2 [0, 1] none) (.list [])]).out
      = .error .dtypeShapeDiffers := by decide +kernel

/-- ¬(same state kind): a tensor on one rank where the other holds an int — different collectives. -/
theorem wit_different_kinds :
    (runWorldL [0, 1] [syncOne (env 0 2 [0, 1] none) (.tensor (tf [] [1])), syncOne (env 1 2 [0, 1] none) (.int 1)]).out
      = .error .differentCollectives := by decide +kernel

end TE.C15
