/-
  C15 — gathering state across ranks is lossless and correctly addressed.

  Model: TE/Model/Sync.lean (synclib, literally).  Spec: TE/Spec/Sync.lean ("every member's
  value in rank order on receiving ranks, None elsewhere").  All theorems quantify over the
  group size `n`, the per-rank values and the junk content of `torch.empty` dummies.

  Addressing hypothesis `DstOk g dst`: `dst = None`, or the destination's global rank equals
  its group rank (`g.idxOf d = d`, e.g. the whole world).  Without it the statements are FALSE
  for the code as it is — see the witness theorems at the end (known findings).
-/
import TE.Lemmas.SyncSend
namespace TE.C15
open TE TE.Sync TE.Spec.Sync

/-- `pad_trim_id`: slicing a tensor that was zero-padded to a pointwise larger shape back to its
    own shape returns it unchanged — any number of dimensions, zero extents included. -/
theorem pad_trim_id (t : Tensor) (m : List Nat) (hle : ShapeLe t.shape m) (hwf : t.WF) :
    (t.pad m).slice t.shape = t :=
  slice_pad t m hle hwf

/-- non-vacuity: a 2×0×3 tensor padded to 2×2×4, and a 1×2 one padded to 3×2. -/
example : ShapeLe [2, 0, 3] [2, 2, 4] ∧ (⟨.f32, [2, 0, 3], []⟩ : Tensor).WF ∧
    ((⟨.f32, [1, 2], [5, 7]⟩ : Tensor).pad [3, 2]).data = [5, 7, 0, 0, 0, 0] := by
  refine ⟨.cons (by decide) (.cons (by decide) (.cons (by decide) .nil)), by decide, by decide +kernel⟩

/-- `send_tensors_lossless` (with `dst_only` for tensors): for every group size `n`, every
    destination that is addressed soundly, and per-rank tensors of one dtype and one number of
    dimensions (shapes otherwise arbitrary, zero extents included): no mismatch, every
    receiving rank holds exactly `[t₀,…,t_{n-1}]` (shape, dtype tag, content) and every other
    rank holds `None`. -/
theorem send_tensors_lossless (g : List Nat) (n gws : Nat) (dst : Option Nat) (junk : Nat → Q)
    (hd : DstOk g dst) (T : Nat → Tensor) (dt : DType) (k : Nat) (hT : Sendable n T dt k) :
    (runWorldL g ((List.range n).map fun i => sendTensors ⟨i, n, gws, dst, junk i⟩ (T i))).out
      = .ok ((List.range n).map fun i => gathered n dst T i) :=
  yields_sendTensors g n gws dst junk hd T dt k hT

/-- non-vacuity: three ranks with shapes 1×2, 2×3, 0×1 satisfy the hypotheses, for `dst = 1`
    on the whole world. -/
example :
    let T : Nat → Tensor := fun i => match i with
      | 0 => ⟨.f32, [1, 2], [0, 1]⟩ | 1 => ⟨.f32, [2, 3], [0, 1, 2, 3, 4, 5]⟩ | _ => ⟨.f32, [0, 1], []⟩
    Sendable 3 T .f32 2 ∧ DstOk [0, 1, 2] (some 1) := by
  refine ⟨?_, by decide⟩
  intro i hi
  match i, hi with
  | 0, _ => exact ⟨rfl, rfl, by decide⟩
  | 1, _ => exact ⟨rfl, rfl, by decide⟩
  | 2, _ => exact ⟨rfl, rfl, by decide⟩

/-! ### witnesses: the statements fail outside the hypotheses (known findings) -/

private def tf (sh : List Nat) (d : List Q) : Tensor := ⟨.f32, sh, d⟩
private def env (i n gws : Nat) (dst : Option Nat) : Env := ⟨i, n, gws, dst, 0⟩

/-- ¬(equal ndim): a 0-dim tensor on one rank and a 1-dim one on the other — the first issues
    `all_gather(value)`, the second `all_gather(shape)` (finding C02|send_tensors|ndim-0-vs-1-across-ranks). -/
theorem wit_ndim_mismatch :
    (runWorldL [0, 1] [sendTensors (env 0 2 2 none) (tf [] [0]), sendTensors (env 1 2 2 none) (tf [2] [1, 2])]).out
      = .error .dtypeShapeDiffers := by decide +kernel

/-- ¬DstOk: sub-group `[1,2]` of a world of 3, destination = group rank 1: torch reads `dst=1` as the
    GLOBAL rank 1, which is the other member (finding C15|send_tensors|subgroup|dst-is-group-relative). -/
theorem wit_dst_group_relative :
    (runWorldL [1, 2] [sendTensors (env 0 2 3 (some 1)) (tf [1] [5]), sendTensors (env 1 2 3 (some 1)) (tf [1] [6])]).out
      = .error .rootNotMeant
    ∧ (runWorldL [1, 2] [sendTensors (env 0 2 3 (some 0)) (tf [1] [5]), sendTensors (env 1 2 3 (some 0)) (tf [1] [6])]).out
      = .error .rootNotInGroup := by decide +kernel

/-- "an empty list stays an empty list" fails at the `sync_states` level: a list state that is
    empty on every rank comes back as the `{}` placeholder
    (finding C15|_sync_list_tensor_states|all-ranks-empty|comes-back-as-dict). -/
theorem wit_all_empty_list :
    (runWorldL [0, 1] [syncOne (env 0 2 2 none) (.list []), syncOne (env 1 2 2 none) (.list [])]).out
      = .ok [[.dict [], .dict []], [.dict [], .dict []]] := by decide +kernel

/-- unequal key sets: rank 1's `{"b": t}` is delivered to rank 0 under rank 0's key `"a"`
    (finding C15|_sync_dict_tensor_states|unequal-keys|re-keyed-with-local-keys). -/
theorem wit_unequal_keys :
    (runWorldL [0, 1] [syncOne (env 0 2 2 none) (.dict [("a", tf [1] [1])]),
                       syncOne (env 1 2 2 none) (.dict [("b", tf [1] [2])])]).out
      = .ok [[.dict [("a", tf [1] [1])], .dict [("a", tf [1] [2])]],
             [.dict [("b", tf [1] [1])], .dict [("b", tf [1] [2])]]] := by decide +kernel

/-- a proper sub-group: `sync_states` returns `dist.get_world_size()` (global) entries, the surplus
    ones holding only the placeholder (finding C15|sync_states|subgroup|sized-by-global-world). -/
theorem wit_sized_by_global_world :
    (runWorldL [0, 1] [syncFlat (env 0 2 3 none) [(("m", "n"), .int 4)], syncFlat (env 1 2 3 none) [(("m", "n"), .int 5)]]).out
      = .ok [some [[(("m", "n"), .int 4)], [(("m", "n"), .int 5)], [(("m", "n"), .dict [])]],
             some [[(("m", "n"), .int 4)], [(("m", "n"), .int 5)], [(("m", "n"), .dict [])]]] := by decide +kernel

/-- sub-group `[1,2]` with one empty list: `broadcast_object_list(src=1)` — a group-relative number
    torch reads as global rank 1, which holds `[None]` (finding …|_sync_dtype_and_shape|subgroup|src-is-group-relative). -/
theorem wit_src_group_relative :
    (runWorldL [1, 2] [syncOne (env 0 2 3 none) (.list []), syncOne (env 1 2 3 none) (.list [tf [2] [1, 1]])]).out
      = .error .rootNotMeant
    ∧ (runWorldL [1, 2] [syncOne (env 0 2 3 none) (.list [tf [2] [1, 1]]), syncOne (env 1 2 3 none) (.list [])]).out
      = .error .rootNotInGroup := by decide +kernel

/-- a list whose elements differ in ndim, with a shorter rank: the dummy tensor copies only the first
    element's shape (finding C02|_sync_list_tensor_states|short-rank-dummy|shape-dtype-of-first-element). -/
theorem wit_dummy_first_element_only :
    (runWorldL [0, 1] [syncOne (env 0 2 2 none) (.list [tf [2] [1, 1], tf [1, 1] [3]]), syncOne (env 1 2 2 none) (.list [])]).out
      = .error .dtypeShapeDiffers := by decide +kernel

end TE.C15
