/-
  C02 — distributed sync returns, on every rank, the merge of all ranks' metrics.

  Model: TE/Model/Sync.lean (`getSyncedMetric`, `getSyncedCollection` on top of `syncStates`).
  A metric enters through `MetricI S` (`prep` = `_prepare_for_merge_state`, `sd` = `state_dict`,
  `mrg` = `merge_state` over pseudo-metrics, i.e. over state dicts).  The theorems quantify over
    * the group `g` (`IsGroup g n`: any list of global ranks without repetition — whole world,
      sub-group, group without global rank 0, any order) and hence every group size `n`;
    * the metric interface `M` and every per-rank metric state `s : Nat → S` (any update history);
    * the junk content of `torch.empty`; the `dst` field of the caller's environment (ignored);
    * the order in which members arrive at each rendezvous (`C02_schedule_indep`).
  Hypothesis `Syncable` (TE/Spec/Sync.lean): all members hold the same state names with the same
  state kinds, tensors of one state have one ndim, list elements are homogeneous, dict states have
  equal key sets — what "metrics of the same type" gives for every torcheval metric whose state
  shapes do not depend on the data seen.  Outside it the statement is FALSE for the code as it is:
  witness theorems at the end (known findings).
-/
import TE.Lemmas.SyncExample
import TE.Lemmas.SyncSched
namespace TE.C02
open TE TE.Sync TE.Spec.Sync

variable {S : Type}

/-- `C02_ws1`: without an initialised process group, or in a group of one, `get_synced_metric`
    returns the input object itself and issues no collective. -/
theorem C02_ws1 (M : MetricI S) (init : Bool) (e : Env) (s : S) (h : init = false ∨ e.ws = 1) :
    getSyncedMetric M init e s = .done s := by
  rcases h with h | h <;> simp [getSyncedMetric, h]

/-- …and so does the collection form. -/
theorem C02_ws1_collection (M : MetricI S) (init : Bool) (e : Env) (ms : List (String × S))
    (h : init = false ∨ e.ws = 1) : getSyncedCollection M init e ms = .done ms := by
  rcases h with h | h <;> simp [getSyncedCollection, h]

/-- non-vacuity / the world of one runs to completion with the input as result. -/
example (M : MetricI Nat) : (runWorldL [3] [getSyncedMetric M true ⟨0, 1, [3], none, 0⟩ 7]).out = .ok [7] := by
  rw [C02_ws1 M true _ 7 (Or.inr rfl)]; rfl

/-! ### the synced metric is the local rank-order merge -/

/-- `merge_state` as the toolkit calls it: the other members' metrics enter as pseudo-metrics, i.e. as
    their state dicts after the round trip `state_dict()` → gather → `type("", (), state_dict)`;
    `recon` is that round trip: the same map from state names to values (`recon_same_map`). -/
def pseudoMerge (M : MetricI S) (a : S) (os : List S) : Except Err S :=
  M.mrg a (os.map fun o => recon (M.sd o))

/-- the local merge the property statement names: `clone(m_r).merge_state([m_j | j ≠ r, ascending])`
    after every member's `_prepare_for_merge_state()`. -/
def localMerge (M : MetricI S) (n : Nat) (s : Nat → S) (r : Nat) : Except Err S :=
  merged (pseudoMerge M) n (fun j => M.prep (s j)) r

/-- `recon` is the identity on state dicts read as maps: under every state name the same value,
    a dict value being listed by sorted key (`C15.dict_same_map`). -/
theorem recon_same_map (sd : List (String × TState)) (q : String) :
    lookupKey q (recon sd) = (lookupKey q sd).map canon :=
  recon_lookup sd q

/-- **`C02_sync_is_local_merge`**: for every group of at least two members, under `Syncable`, the
    whole run of `get_synced_metric` — collectives included — has the outcome of the members simply
    computing their local rank-order merges: no mismatch, no hang, and whatever `merge_state` does
    locally (return or raise) is what the synced call does on that member.  A metric without any
    registered state is included (`Syncable.nil`; `reg_stateless_metric`). -/
theorem C02_sync_is_local_merge (M : MetricI S) (g : List Nat) (n : Nat) (hg : IsGroup g n) (hn : 2 ≤ n)
    (dst : Option Nat) (junk : Nat → Q) (s : Nat → S)
    (hS : Syncable n fun i => traversal [(tmpName, M.sd (M.prep (s i)))]) :
    (runWorldL g ((List.range n).map fun i => getSyncedMetric M true (envOf g n dst junk i) (s i))).out
      = (runWorldL g ((List.range n).map fun i => liftE (localMerge M n s i))).out := by
  rw [out_getSyncedMetric M g n hg hn dst junk s hS]
  congr 2
  apply List.map_congr_left
  intro i _
  simp [localMerge, merged, pseudoMerge, mergeOf, List.map_map, Function.comp_def]

/-- **`C02_sync_ok`**: …so when the local merges return (`hm`), every call returns and member `r`
    obtains exactly its local rank-order merge `R r`. -/
theorem C02_sync_ok (M : MetricI S) (g : List Nat) (n : Nat) (hg : IsGroup g n) (hn : 2 ≤ n)
    (dst : Option Nat) (junk : Nat → Q) (s : Nat → S)
    (hS : Syncable n fun i => traversal [(tmpName, M.sd (M.prep (s i)))])
    (R : Nat → S) (hm : ∀ r, r < n → localMerge M n s r = .ok (R r)) :
    (runWorldL g ((List.range n).map fun i => getSyncedMetric M true (envOf g n dst junk i) (s i))).out
      = .ok ((List.range n).map R) := by
  rw [C02_sync_is_local_merge M g n hg hn dst junk s hS]
  exact yields_liftE_ok g (List.range n) _ R fun i hi => hm i (List.mem_range.mp hi)

/-- …and when `merge_state` raises locally on some member, the synced run ends with a Python exception
    on a member (never with a collective mismatch). -/
theorem C02_sync_merge_raises (M : MetricI S) (g : List Nat) (n : Nat) (hg : IsGroup g n) (hn : 2 ≤ n)
    (dst : Option Nat) (junk : Nat → Q) (s : Nat → S)
    (hS : Syncable n fun i => traversal [(tmpName, M.sd (M.prep (s i)))])
    (r : Nat) (hr : r < n) (e : Err) (hm : localMerge M n s r = .error e) :
    ∃ e', (runWorldL g ((List.range n).map fun i => getSyncedMetric M true (envOf g n dst junk i) (s i))).out
      = .error (.crashed e') := by
  rw [C02_sync_is_local_merge M g n hg hn dst junk s hS]
  exact crashed_liftE g (List.range n) _ r e (List.mem_range.mpr hr) hm

/-- the law a metric's `merge_state` has to satisfy for the round trip to be invisible: it reads the
    other metrics' states by name and dict states by key (never by position / insertion order). -/
def MergeReadsMaps (M : MetricI S) : Prop :=
  ∀ (a : S) (os : List (List (String × TState))), M.mrg a (os.map recon) = M.mrg a os

/-- under `MergeReadsMaps` the synced metric is the merge of the members' own state dicts. -/
theorem C02_sync_ok_direct (M : MetricI S) (hlaw : MergeReadsMaps M) (g : List Nat) (n : Nat) (hg : IsGroup g n)
    (hn : 2 ≤ n) (dst : Option Nat) (junk : Nat → Q) (s : Nat → S)
    (hS : Syncable n fun i => traversal [(tmpName, M.sd (M.prep (s i)))])
    (R : Nat → S)
    (hm : ∀ r, r < n → merged (fun a os => M.mrg a (os.map M.sd)) n (fun j => M.prep (s j)) r = .ok (R r)) :
    (runWorldL g ((List.range n).map fun i => getSyncedMetric M true (envOf g n dst junk i) (s i))).out
      = .ok ((List.range n).map R) := by
  apply C02_sync_ok M g n hg hn dst junk s hS R
  intro r hr
  rw [← hm r hr]
  simp only [localMerge, merged, pseudoMerge]
  have := hlaw (M.prep (s r)) (((others n r).map fun j => M.prep (s j)).map M.sd)
  rw [List.map_map] at this
  exact this

/-- the metric used in the examples and witnesses: its state IS its state dict; `merge_state` appends,
    per other metric, that metric's states. -/
def collectM : MetricI (List (String × TState)) where
  prep := id
  sd := id
  mrg s os := .ok (s ++ os.flatten)

/-- non-vacuity of `C02_sync_ok`: three ranks of the sub-group `[5, 0, 3]`, one of them idle, uneven
    shapes, every state kind (`exStates`, TE/Lemmas/SyncExample.lean). -/
example : IsGroup [5, 0, 3] 3 ∧
    Syncable 3 (fun i => traversal [(tmpName, collectM.sd (collectM.prep (exStates i)))]) ∧
    ∀ r, r < 3 → ∃ R, localMerge collectM 3 exStates r = .ok R :=
  ⟨⟨by decide, rfl⟩, ex_syncable tmpName, fun _ _ => ⟨_, rfl⟩⟩

/-! ### the collection form -/

/-- **`C02_sync_ok_collection`**: `get_synced_metric_collection` on a dict of metrics: under `Syncable`
    (of the whole collection in traversal order) the run has the outcome of every member merging,
    per own metric `k`, the other members' pseudo-metrics of name `k` in rank order
    (`mergeCollOf`, TE/Lemmas/SyncToolkit.lean). -/
theorem C02_sync_ok_collection (M : MetricI S) (g : List Nat) (n : Nat) (hg : IsGroup g n) (hn : 2 ≤ n)
    (dst : Option Nat) (junk : Nat → Q) (ms : Nat → List (String × S))
    (hS : Syncable n fun i => traversal (collOf M (ms i)))
    (R : Nat → List (String × S)) (hm : ∀ r, r < n → mergeCollOf M n ms r = .ok (R r)) :
    (runWorldL g ((List.range n).map fun i => getSyncedCollection M true (envOf g n dst junk i) (ms i))).out
      = .ok ((List.range n).map R) := by
  rw [out_getSyncedCollection M g n hg hn dst junk ms hS]
  exact yields_liftE_ok g (List.range n) _ R fun i hi => hm i (List.mem_range.mp hi)

/-- …where the pseudo-metric for metric `k` of member `j` is `recon` of that metric's state dict,
    the names of a collection being distinct (a Python dict). -/
theorem C02_collection_pseudo_metric (M : MetricI S) (ms : List (String × S)) (hnd : (ms.map (·.1)).Nodup)
    (k : String) (s : S) (hk : lookupKey k ms = some s) :
    statesOf k (sentRow (collOf M ms)) = recon (M.sd (M.prep s)) := by
  apply statesOf_sentRow
  · simpa [collOf, prepAll, List.map_map, Function.comp_def] using hnd
  · have : ∀ l : List (String × S), lookupKey k l = some s →
        lookupKey k ((l.map fun (k, s) => (k, M.prep s)).map fun (k, s) => (k, M.sd s)) = some (M.sd (M.prep s)) := by
      intro l
      induction l with
      | nil => intro h; simp [lookupKey] at h
      | cons a l ih =>
        obtain ⟨a1, a2⟩ := a
        intro h
        simp only [lookupKey, List.map_cons] at h ⊢
        by_cases hak : (a1 == k) = true
        · simp only [hak, if_true, Option.some.injEq] at h ⊢; rw [h]
        · simp only [hak, Bool.false_eq_true, if_false] at h ⊢; exact ih h
    exact this ms hk

/-! ### schedule independence -/

/-- **`C02_schedule_indep`**: in the semantics in which the members ARRIVE at each rendezvous in any
    order (`Step`: `arrive i` for any member that sits at a collective; `complete` only once all
    members have arrived), every maximal run from the initial configuration ends in a configuration
    whose `result` is the outcome of the lock-step execution — for any programs whatsoever, in
    particular for `get_synced_metric` / `sync_states` on every rank. -/
theorem C02_schedule_indep {R : Type} (g : List Nat) (ps : List (Prog R)) (c : Config R)
    (hrun : Steps g (Config.init ps) c) (hfinal : Final g c) :
    c.result g = (runWorldL g ps).out :=
  maximal_run_result g ps c hrun hfinal

/-- …and there are no infinite runs: the step relation is well-founded from the initial configuration
    (every arrival order leads, after finitely many steps, to a configuration in which nothing moves). -/
theorem C02_schedule_terminates {R : Type} (g : List Nat) (ps : List (Prog R)) :
    Acc (fun c' c => Step g c c') (Config.init ps) :=
  acc_init g ps

/-- non-vacuity: two members arriving in the order 1, 0 at an `all_gather_object`. -/
example :
    let p : Nat → Prog (List Obj) := fun i => allGatherObj (.int i)
    let c1 : Config (List Obj) := ⟨[p 0, p 1], [1]⟩
    let c2 : Config (List Obj) := ⟨[p 0, p 1], [0, 1]⟩
    let c3 : Config (List Obj) := ⟨[.done [.int 0, .int 1], .done [.int 0, .int 1]], []⟩
    Step [0, 1] (Config.init [p 0, p 1]) c1 ∧ Step [0, 1] c1 c2 ∧ Step [0, 1] c2 c3 ∧ Final [0, 1] c3 := by
  refine ⟨.arrive _ 1 _ _ rfl (by simp [Config.init]), .arrive _ 0 _ _ rfl (by simp), ?_, ?_⟩
  · exact .complete ⟨_, _⟩ [.allGatherObj (.int 0), .allGatherObj (.int 1)] _ _
      (fun i hi => by simp at hi; match i, hi with | 0, _ => simp | 1, _ => simp) rfl rfl
  · intro c' h
    cases h with
    | arrive i q k hi _ =>
      match i with
      | 0 => simp at hi
      | 1 => simp at hi
      | _ + 2 => simp at hi
    | complete qs r rs _ hq _ => simp [reqsOf] at hq

/-! ### witnesses: outside `Syncable` the statement fails (known findings), through the toolkit entry -/

private def tf (sh : List Nat) (d : List Q) : Tensor := ⟨.f32, sh, d⟩
private def env (i n : Nat) (g : List Nat) : Env := ⟨i, n, g, none, 0⟩

/-- ¬(equal ndim across ranks): a state that is 0-dim on the rank that never updated and 1-dim on the
    other (shape-by-first-update states): collective mismatch — on real gloo an abort
    (finding C02|send_tensors|ndim-0-vs-1-across-ranks|collective-mismatch). -/
theorem wit_sync_ndim_mismatch :
    (runWorldL [0, 1] [getSyncedMetric collectM true (env 0 2 [0, 1]) [("sum", .tensor (tf [] [0]))],
                       getSyncedMetric collectM true (env 1 2 [0, 1]) [("sum", .tensor (tf [2] [1, 2]))]]).out
      = .error .dtypeShapeDiffers := by decide +kernel

/-- ¬(equal key sets): the run completes, but rank 0 merges rank 1's `{"b": t}` as if it were `{"a": t}`
    — not what the local merge gives (finding C02|_sync_dict_tensor_states|unequal-keys|re-keyed-with-local-keys). -/
theorem wit_sync_unequal_keys :
    (runWorldL [0, 1] [getSyncedMetric collectM true (env 0 2 [0, 1]) [("tab", .dict [("a", tf [1] [1])])],
                       getSyncedMetric collectM true (env 1 2 [0, 1]) [("tab", .dict [("b", tf [1] [2])])]]).out
      = .ok [[("tab", .dict [("a", tf [1] [1])]), ("tab", .dict [("a", tf [1] [2])])],
             [("tab", .dict [("b", tf [1] [2])]), ("tab", .dict [("b", tf [1] [1])])]]
    ∧ localMerge collectM 2 (fun i => match i with | 0 => [("tab", .dict [("a", tf [1] [1])])] | _ => [("tab", .dict [("b", tf [1] [2])])]) 0
      = .ok [("tab", .dict [("a", tf [1] [1])]), ("tab", .dict [("b", tf [1] [2])])] := by decide +kernel

/-- ¬(homogeneous list elements) with a shorter rank: the dummy copies only the first element's shape
    (finding C02|_sync_list_tensor_states|short-rank-dummy|shape-dtype-of-first-element). -/
theorem wit_sync_dummy_first_element_only :
    (runWorldL [0, 1] [getSyncedMetric collectM true (env 0 2 [0, 1]) [("items", .list [tf [2] [1, 1], tf [1, 1] [3]])],
                       getSyncedMetric collectM true (env 1 2 [0, 1]) [("items", .list [])]]).out
      = .error .dtypeShapeDiffers := by decide +kernel

/-! ### regression: the repaired stateless-metric defect, on the input that used to exhibit it -/

/-- a metric without any registered state: no collective is issued, every member gets an empty
    pseudo-metric per other member and `get_synced_metric` returns the local merge (was: `KeyError: 'tmp'`,
    `.error (.crashed .other)`); it is an instance of `C02_sync_ok` (`Syncable.nil`). -/
theorem reg_stateless_metric :
    (runWorldL [0, 1] [getSyncedMetric collectM true (env 0 2 [0, 1]) [], getSyncedMetric collectM true (env 1 2 [0, 1]) []]).out
      = .ok [[], []]
    ∧ (runWorldL [0, 1] [getSyncedMetric collectM true (env 0 2 [0, 1]) [], getSyncedMetric collectM true (env 1 2 [0, 1]) []]).rounds = []
    ∧ localMerge collectM 2 (fun _ => []) 0 = .ok []
    ∧ Syncable 2 (fun _ => traversal [(tmpName, collectM.sd (collectM.prep []))]) :=
  ⟨by decide +kernel, by decide +kernel, by decide +kernel, .nil fun _ _ => rfl⟩

/-- …and in a collection: a stateless metric next to an ordinary one (was: `KeyError: 'b'`). -/
theorem reg_stateless_in_collection :
    (runWorldL [0, 1] [getSyncedCollection collectM true (env 0 2 [0, 1]) [("a", [("n", .int 1)]), ("b", [])],
                       getSyncedCollection collectM true (env 1 2 [0, 1]) [("a", [("n", .int 2)]), ("b", [])]]).out
      = .ok [[("a", [("n", .int 1), ("n", .int 2)]), ("b", [])], [("a", [("n", .int 2), ("n", .int 1)]), ("b", [])]] := by
  decide +kernel

end TE.C02
