/-
  C02 — distributed sync returns, on every rank, the merge of all ranks' metrics.
  (first part: the short-circuit and the witnesses; the general theorems follow below)
-/
import TE.Lemmas.SyncSend
namespace TE.C02
open TE TE.Sync TE.Spec.Sync

variable {S : Type}

/-- `C02_ws1`: without an initialised process group, or in a group of one, `get_synced_metric`
    returns the input object itself and issues no collective. -/
theorem C02_ws1 (M : MetricI S) (init : Bool) (e : Env) (s : S) (h : init = false ∨ e.ws = 1) :
    getSyncedMetric M init e s = .done s := by
  rcases h with h | h <;> simp [getSyncedMetric, h]

/-- …and so does the collection form. -/
theorem C02_ws1_collection (M : MetricI S) (init : Bool) (e : Env) (ms : List (String × S))
    (h : init = false ∨ e.ws = 1) : getSyncedCollection M init e ms = .done ms := by
  rcases h with h | h <;> simp [getSyncedCollection, h]

/-- non-vacuity / the world of one runs to completion with the input as result. -/
example (M : MetricI Nat) : (runWorldL [0] [getSyncedMetric M true ⟨0, 1, 1, none, 0⟩ 7]).out = .ok [7] := by
  rw [C02_ws1 M true _ 7 (Or.inr rfl)]; rfl

end TE.C02
